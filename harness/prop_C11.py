"""C11 — clients sharing one core package keep working as more are generated.

The implementation is always run in worker subprocesses of this file (`--worker`), so that the
source tree under test follows framework.REPO (VERIF_REPO_ROOT, default /repo), so seeded changes can be
tested on a scratch checkout without touching /repo.  Each worker replays whole histories of generate calls into one scratch
project root under build/pipeline/, and after every call
  * reads .exception_registry.json, the classes of exception_aliases.py and the names every generated
    client imports from the core (observation compared with the Coq model Model/Registry.v), and
  * imports every client that was reported as generated so far in a FRESH interpreter without the
    generator on its path (the property's own oracle, independent of the model).
"""
from __future__ import annotations

import ast
import itertools
import json
import os
import shutil
import subprocess
import sys
import tempfile
from concurrent.futures import ThreadPoolExecutor
from pathlib import Path

HERE = Path(__file__).resolve().parent
sys.path.insert(0, str(HERE))

# client output packages of depth 1..3; within one family no client package is inside another
FAMILIES = {
    "top": ["c1", "c2", "c3"],
    "nested2": ["clients.alpha", "clients.beta", "clients.gamma"],
    "nested3": ["x.y.alpha", "x.y.beta", "x.z.gamma"],
    "mixed": ["c1", "clients.alpha", "x.y.gamma"],
}
ALL_CLIENTS = sorted({c for v in FAMILIES.values() for c in v})
# (client family, core package): top-level / one / two / three levels deep, a sibling inside the clients' parent
# package, a core inside one client's package (embedded), a core in an ancestor package of the clients
LAYOUTS = [
    ("top", "core"), ("top", "shared.core"), ("top", "a.b.core"), ("top", "a.b.c.core"), ("top", "c1.core"),
    ("top", "c1.x.core"),
    # core directory whose NAME merely starts with a client's directory name (not inside it)
    ("top", "c1_core"), ("top", "c1x.core"),
    ("nested2", "core"), ("nested2", "clients.core"), ("nested2", "clients.shared.core"),
    ("nested2", "clients.alpha.core"),
    ("nested3", "x.core"), ("nested3", "x.y.core"), ("nested3", "shared.core"),
    ("mixed", "clients.core"), ("mixed", "core"), ("mixed", "x.y.gamma.core"),
]
# three base specs (declared statuses) + a pool for "changing specs"
BASE_SPECS = [[200, 404], [201, 409, 422], [200, 404, 500, 503]]
POOL = [400, 404, 409, 422, 500, 503]
from framework import REPO  # noqa: E402  (follows VERIF_REPO_ROOT; default /repo)

IMPL_SRC = os.environ.get("VERIF_IMPL_SRC") or str(REPO / "src")

TRUSTED = [
    "Coq 8.16.1 kernel + vm_compute (witness theorems and correspondence evaluation)",
    "hand-written Gallina model coq/Model/Registry.v of ExceptionsEmitter._is_shared_core/_update_registry/"
    "_generate_for_codes, the error-import rule of the response handler generator and the diff/direct decision "
    "(incl. rmtree) of ClientGenerator.generate — tied to the code by this run's histories",
    "CPython import system (fresh interpreter per step) as the judge of 'still imports'",
    "status codes are three-digit; client output packages are one to three levels deep and none lies inside another; "
    "specs are valid and have one or two operations",
]


# ---------------------------------------------------------------- spec / history generators
def make_spec(client: str, codes: list[int]) -> dict:
    """codes are split over two operations so that the union over operations matters"""
    succ = [c for c in codes if 200 <= c < 300] or [200]
    other = [c for c in codes if not 200 <= c < 300]
    r1 = {str(succ[0]): {"description": "ok"}}
    r2 = {str(succ[-1]): {"description": "ok"}}
    for i, c in enumerate(other):
        (r1 if i % 2 == 0 else r2)[str(c)] = {"description": f"e{c}"}
    paths = {"/x": {"get": {"operationId": "get_x", "responses": r1}}}
    if len(other) > 1 or len(succ) > 1:
        paths["/y"] = {"post": {"operationId": "post_y", "responses": r2}}
    return {"openapi": "3.0.3", "info": {"title": f"API {client}", "version": "1.0"}, "paths": paths}


def declared(codes: list[int]) -> list[int]:
    """what make_spec actually declares (a 200 is added when no 2xx is given)"""
    succ = [c for c in codes if 200 <= c < 300] or [200]
    other = [c for c in codes if not 200 <= c < 300]
    out = [succ[0]] + other
    if len(other) > 1 or len(succ) > 1:
        out.append(succ[-1])
    return sorted(set(out))


def gen_codes(rng) -> list[int]:
    r = rng.random()
    if r < 0.6:
        return list(rng.choice(BASE_SPECS))
    if r < 0.7:
        return [204]
    return sorted(rng.sample(POOL, rng.randint(1, 3)) + [rng.choice([200, 201])])


def gen_history(rng, layout: tuple[str, str], max_steps: int) -> dict:
    fam, core = layout
    n = rng.randint(2, max_steps)
    nclients = rng.choice([2, 2, 3])
    pool = FAMILIES[fam][:nclients] if rng.random() < 0.5 else rng.sample(FAMILIES[fam], nclients)
    steps = []
    for _ in range(n):
        st = {"client": rng.choice(pool), "codes": gen_codes(rng), "force": rng.random() < 0.6}
        if core == st["client"] + ".core" and rng.random() < 0.6:
            st["core_omitted"] = True   # default embedded core of this client, later shared by the others
        steps.append(st)
    if core.rsplit(".", 1)[0] in FAMILIES[fam] and rng.random() < 0.5:
        # the scenario "first the hosting client with its default core, then the others point at it"
        host = core.rsplit(".", 1)[0]
        steps.insert(0, {"client": host, "codes": gen_codes(rng), "force": rng.random() < 0.5, "core_omitted": True})
    return {"core": core, "steps": steps}


def enum_two_step(layout: tuple[str, str]) -> list[dict]:
    """all 2-step histories over the first two clients of the family x two base specs x force"""
    fam, core = layout
    calls = [{"client": c, "codes": s, "force": f} for c in FAMILIES[fam][:2] for s in BASE_SPECS[:2]
             for f in (True, False)]
    for c in FAMILIES[fam][:2]:
        if core == c + ".core":  # the hosting client may also be generated with its default core
            calls += [{"client": c, "codes": s, "force": f, "core_omitted": True} for s in BASE_SPECS[:2] for f in (True, False)]
    return [{"core": core, "steps": [dict(a), dict(b)]} for a, b in itertools.product(calls, calls)]


# ---------------------------------------------------------------- worker: implementation runner
ORACLE_SCRIPT = """
import importlib, pkgutil
def main(arg):
    out = {}
    for c in arg['claimed']:
        errs = []
        try:
            m = importlib.import_module(c)
            cm = importlib.import_module(c + '.client')
            if not hasattr(cm, 'APIClient'):
                errs.append('no APIClient in ' + c + '.client')
            for mi in pkgutil.walk_packages(m.__path__, c + '.'):
                if mi.name.startswith(arg['core'] + '.') or mi.name == arg['core']:
                    continue
                try:
                    importlib.import_module(mi.name)
                except BaseException as e:
                    errs.append(mi.name + ': ' + type(e).__name__ + ': ' + str(e)[:160])
        except BaseException as e:
            errs.append(c + ': ' + type(e).__name__ + ': ' + str(e)[:160])
        try:
            core = importlib.import_module(arg['core'])
            for name in arg['needs'].get(c, []):
                if not hasattr(core, name):
                    errs.append('core symbol missing: ' + name)
        except BaseException as e:
            errs.append('core: ' + type(e).__name__ + ': ' + str(e)[:160])
        out[c] = errs
    return out
"""


def _core_imports(root: Path, client: str, core_pkg: str) -> list[str]:
    """names that the client's modules import from the core package itself (`from <core> import X`)"""
    names: set[str] = set()
    cdir = root / client.replace(".", "/")
    core_dir = root / core_pkg.replace(".", "/")
    for p in sorted(cdir.rglob("*.py")):
        if core_dir in p.parents:
            continue
        try:
            tree = ast.parse(p.read_text())
        except SyntaxError:
            continue
        pkg_parts = list(p.relative_to(root).parts[:-1])
        for n in ast.walk(tree):
            if isinstance(n, ast.ImportFrom):
                if n.level:
                    base = pkg_parts[:len(pkg_parts) - (n.level - 1)]
                    mod = ".".join(base + ([n.module] if n.module else []))
                else:
                    mod = n.module or ""
                if mod == core_pkg:
                    names.update(a.name for a in n.names if a.name != "*")
    return sorted(names)


def run_history(hist: dict) -> dict:
    """replays one history on the implementation; returns the per-step observations"""
    import pipeline
    from pyopenapi_gen.core.http_status_codes import get_exception_class_name
    name2code = {get_exception_class_name(c): c for c in range(100, 600)}
    core_pkg = hist["core"]
    pipeline.SCRATCH.mkdir(parents=True, exist_ok=True)
    root = Path(tempfile.mkdtemp(prefix="c11_", dir=pipeline.SCRATCH))
    obs = []
    claimed: list[str] = []
    try:
        for st in hist["steps"]:
            # core_omitted: the client that hosts the core is generated WITHOUT core_package (default <client>.core)
            assert not st.get("core_omitted") or core_pkg == st["client"] + ".core"
            g = pipeline.generate(make_spec(st["client"], st["codes"]), package=st["client"],
                                  core_package=None if st.get("core_omitted") else core_pkg, force=st["force"], root=root)
            if g.ok and st["client"] not in claimed:
                claimed.append(st["client"])
            core_dir = root / core_pkg.replace(".", "/")
            regf = core_dir / ".exception_registry.json"
            registry = None
            if regf.exists():
                registry = sorted([k, list(v)] for k, v in json.loads(regf.read_text()).items())
            alf = core_dir / "exception_aliases.py"
            aliases = alias_names = None
            if alf.exists():
                alias_names = [n.name for n in ast.parse(alf.read_text()).body if isinstance(n, ast.ClassDef)]
                aliases = [name2code.get(n, 0) for n in alias_names]
            clients = []
            needs = {}
            for c in ALL_CLIENTS:
                if (root / c.replace(".", "/") / "client.py").exists():
                    needs[c] = _core_imports(root, c, core_pkg)
                    clients.append([c, sorted({name2code.get(n, 0) for n in needs[c]})])
            imp = {}
            if claimed:
                arg = {"claimed": claimed, "core": core_pkg, "needs": needs}
                r = pipeline.drive(g, ORACLE_SCRIPT, arg)
                for _ in range(2):  # the driver itself (not the generated code) can time out on a loaded machine
                    if r.get("ok"):
                        break
                    r = pipeline.drive(g, ORACLE_SCRIPT, arg, timeout=600)
                if not r.get("ok"):
                    raise RuntimeError(f"import driver failed three times: {r.get('error')} {r.get('traceback', '')[-500:]}")
                imp = r["result"]
            obs.append({"registry": registry, "aliases": aliases, "alias_names": alias_names, "clients": clients,
                        "ok": g.ok, "error": (g.error or "")[:120], "claimed": list(claimed), "import_errors": imp})
    finally:
        shutil.rmtree(root, ignore_errors=True)
    return {"input": hist, "obs": obs}


def worker() -> None:
    hists = json.loads(sys.stdin.read())
    out = [run_history(h) for h in hists]
    sys.stdout.write("\n@@C11 " + json.dumps(out) + "\n")


def run_parallel(hists: list[dict], nproc: int = 12) -> list[dict]:
    if not hists:
        return []
    nproc = max(1, min(nproc, len(hists)))
    chunks = [hists[i::nproc] for i in range(nproc)]
    env = dict(os.environ)
    env["PYTHONPATH"] = f"{IMPL_SRC}:{HERE}"
    env["PYTHONHASHSEED"] = "0"
    env["PYTHONDONTWRITEBYTECODE"] = "1"

    def one(chunk):
        p = subprocess.run([sys.executable, str(Path(__file__).resolve()), "--worker"], input=json.dumps(chunk), env=env,
                           capture_output=True, text=True, timeout=3000)
        for line in reversed(p.stdout.splitlines()):
            if line.startswith("@@C11 "):
                return json.loads(line[6:])
        raise RuntimeError(f"C11 worker died rc={p.returncode}: {(p.stdout + p.stderr)[-1500:]}")

    with ThreadPoolExecutor(max_workers=nproc) as ex:
        res = list(ex.map(one, chunks))
    out: list[dict | None] = [None] * len(hists)
    for k, r in enumerate(res):
        for j, x in enumerate(r):
            out[k + j * nproc] = x
    return out  # type: ignore[return-value]


# ---------------------------------------------------------------- the property's own oracle
def oracle(case: dict) -> list[str]:
    """Property text: after any sequence of generations, every client generated so far still imports and every
    symbol it takes from the core still exists there.  'Generated so far' = a generate call for it has returned."""
    fails: list[str] = []
    prev_claimed: list[str] = []
    for o in case["obs"]:
        for c in o["claimed"]:
            errs = o["import_errors"].get(c, ["no import result"])
            if not errs:
                continue
            if c in prev_claimed:
                msg = "a client generated earlier stopped importing after a later generate call (core symbol removed)"
            else:
                msg = "generate returned success for a client that does not import afterwards"
            if msg not in fails:
                fails.append(msg)
        prev_claimed = list(o["claimed"])
    return fails


# ---------------------------------------------------------------- Coq printers
def layout_of(core: str) -> tuple[int, str | None]:
    """(number of components of the core package, the client package whose directory contains the core)"""
    parts = core.split(".")
    inside = [c for c in ALL_CLIENTS if parts[:len(c.split("."))] == c.split(".")]
    assert len(inside) <= 1
    return len(parts), (inside[0] if inside else None)


def c_case(case: dict) -> str:
    from framework import cbool, clist, copt, cpair, cstr
    h = case["input"]
    depth, ins = layout_of(h["core"])
    lay = f"{{| core_depth := {depth}%nat; core_inside_client := {copt(ins, cstr)} |}}"
    codes = lambda cs: clist(str(c) for c in cs)  # noqa: E731
    reg = lambda r: clist(cpair(cstr(k), codes(v)) for k, v in r)  # noqa: E731
    calls = clist(f"{{| g_client := {cstr(s['client'])}; g_codes := {codes(declared(s['codes']))}; "
                  f"g_force := {cbool(s['force'])}; g_core_given := {cbool(not s.get('core_omitted'))} |}}"
                  for s in h["steps"])
    obs = clist(cpair(copt(o["registry"], reg), copt(o["aliases"], codes), reg(o["clients"]), cbool(o["ok"]))
                for o in case["obs"])
    return f"(({lay}, {calls}), {obs})"


# ---------------------------------------------------------------- entry
def main(chk, replay: dict | None = None) -> int:
    from framework import load_corpus
    if replay is not None:
        r = run_parallel([replay["input"]], 1)[0]
        r["oracle_fail"] = oracle(r)
        print(json.dumps(r, indent=1))
        if r["oracle_fail"]:
            print(f"VIOLATION property=C11 replay=(replayed) : {r['oracle_fail']}")
            return 1
        return 0
    chk.prove()
    rng = chk.rng
    max_steps = 6 if chk.thorough else 4
    inputs = [c["input"] for c in load_corpus("C11")]
    for lay in LAYOUTS:
        en = enum_two_step(lay)
        inputs += en if chk.thorough else rng.sample(en, 4)
        inputs += [gen_history(rng, lay, max_steps) for _ in range(40 if chk.thorough else 6)]
    cases = run_parallel(inputs)
    for c in cases:
        c["oracle_fail"] = oracle(c)
    chk.cov["evaluations"] = sum(len(c["obs"]) for c in cases)
    nontrivial = {json.dumps(c["input"], sort_keys=True) for c in cases
                  if len(c["input"]["steps"]) >= 2 and len({s["client"] for s in c["input"]["steps"]}) >= 2}
    chk.cov["distinct_nontrivial"] = len(nontrivial)
    dist = {"histories": len(cases), "by_layout": {}, "by_length": {}, "force_calls": 0, "noforce_calls": 0,
            "calls_raising": 0, "repeated_client": 0, "oracle_failures": 0, "impl_source": IMPL_SRC}
    for c in cases:
        h = c["input"]
        lk = h["core"] + " | clients depth " + "/".join(sorted({str(len(st["client"].split("."))) for st in h["steps"]}))
        dist["by_layout"][lk] = dist["by_layout"].get(lk, 0) + 1
        k = str(len(h["steps"]))
        dist["by_length"][k] = dist["by_length"].get(k, 0) + 1
        dist["force_calls"] += sum(1 for s in h["steps"] if s["force"])
        dist["noforce_calls"] += sum(1 for s in h["steps"] if not s["force"])
        dist["calls_raising"] += sum(1 for o in c["obs"] if not o["ok"])
        dist["calls_without_core_package"] = dist.get("calls_without_core_package", 0) + sum(
            1 for s in h["steps"] if s.get("core_omitted"))
        dist["repeated_client"] += int(len({s["client"] for s in h["steps"]}) < len(h["steps"]))
        dist["oracle_failures"] += int(bool(c["oracle_fail"]))
    chk.cov["input_distribution"] = dist
    for c in cases[:2] + cases[-2:]:
        chk.sample({"input": c["input"], "obs": [{k: o[k] for k in ("registry", "alias_names", "clients", "ok")}
                                                 for o in c["obs"]]})
    codes = None
    if chk.model_ok:
        codes = chk.coq_eval("From PG Require Import Lib.Strs Model.Registry Corr.C11.",
                             "(layout * list gen_call) * list obs1", [c_case(c) for c in cases], "run", shard=80)
    chk.decide(cases, codes, {},
               "Corr.C11.run: trace(model) = registry file, alias classes, per-client core imports and call outcome "
               "observed on disk after every generate call")
    return chk.finish(TRUSTED,
                      rule="corpus + sampled/all 2-step histories + seeded random histories (2..4 quick / 2..6 thorough calls; "
                           "client packages of depth 1..3, three base specs + random code sets, force on/off) per core layout; "
                           "evaluations = generate calls; non-trivial = >= 2 calls over >= 2 distinct clients; distinct by JSON")


if __name__ == "__main__":
    if "--worker" in sys.argv:
        worker()
