"""Run /repo's pinned test suite (guard off) and compare with /root/.vp/BASELINE.json stable_pass."""
import json, subprocess, sys, xml.etree.ElementTree as ET, os, tempfile
b = json.load(open("/root/.vp/BASELINE.json"))
_B = os.path.join(os.path.dirname(os.path.dirname(os.path.abspath(__file__))), "build")
os.makedirs(_B, exist_ok=True)
out = tempfile.mktemp(suffix=".xml", dir=_B)
env = {k: v for k, v in os.environ.items() if k != "PYOPENAPI_GEN_VERIF"}
extra = sys.argv[1:]
subprocess.run(["/venv/bin/python", "-m", "pytest", "-q", "-p", "no:cacheprovider", "--timeout=900",
                "--continue-on-collection-errors", f"--junitxml={out}"] + extra, cwd=os.environ.get("VERIF_REPO_ROOT", "/repo"), env=env,
               stdout=subprocess.DEVNULL, stderr=subprocess.DEVNULL)
passed = set()
for tc in ET.parse(out).getroot().iter("testcase"):
    if not any(c.tag in ("failure", "error", "skipped") for c in tc):
        passed.add(f"{tc.get('classname')}::{tc.get('name')}")
os.remove(out)
missing = [t for t in b["stable_pass"] if t not in passed]
print(f"stable_pass={len(b['stable_pass'])} passed_now={len(passed)} missing={len(missing)}")
for t in missing[:30]:
    print("  MISSING", t)
sys.exit(1 if missing else 0)
