"""Translator plug-in for C10: CoreEmitter.RUNTIME_FILES (destinations relative to the core dir) and the file/dir
name literals the effect model uses.  Fail-closed: any unexpected shape raises TranslatorError."""
from __future__ import annotations

import ast

from tables import SRC, TranslatorError, _module_assign, _parse, cstr

OUT_NAME = "T_C10.v"


def _has_str(mod: ast.Module, s: str) -> bool:
    return any(isinstance(n, ast.Constant) and isinstance(n.value, str) and s in n.value for n in ast.walk(mod))


def render() -> str:
    core = _parse("emitters/core_emitter.py")
    v = _module_assign(core, "RUNTIME_FILES")
    if not isinstance(v, ast.List):
        raise TranslatorError("RUNTIME_FILES is not a list literal")
    dests = []
    for e in v.elts:
        if not (isinstance(e, ast.Tuple) and len(e.elts) == 3 and all(isinstance(x, ast.Constant) and isinstance(x.value, str)
                                                                      for x in e.elts)):
            raise TranslatorError("RUNTIME_FILES entry is not a 3-tuple of string literals")
        dst = e.elts[2].value
        if not dst.startswith("core/"):
            raise TranslatorError(f"RUNTIME_FILES destination {dst!r} does not start with 'core/'")
        rel = dst[len("core/"):].split("/")
        if not 1 <= len(rel) <= 2 or any(not c or c in (".", "..") for c in rel):
            raise TranslatorError(f"unexpected runtime destination {dst!r}")
        dests.append(rel)
    # literals that must still occur in the files the model transcribes
    need = {
        "emitters/core_emitter.py": ["__init__.py", "auth", "py.typed", "README.md", "config.py"],
        "emitters/exceptions_emitter.py": ["exception_aliases.py", ".exception_registry.json"],
        "emitters/models_emitter.py": ["models", "__init__.py", "py.typed"],
        "emitters/endpoints_emitter.py": ["endpoints", "__init__.py", "py.typed"],
        "emitters/client_emitter.py": ["client.py", "py.typed", "pyopenapi_gen_error.log"],
        "emitters/mocks_emitter.py": ["mocks", "endpoints", "mock_client.py", "__init__.py", "mock_",
                                      "pyopenapi_gen_mocks_error.log"],
        "generator/client_generator.py": ["__init__.py", ".core"],
    }
    for rel, lits in need.items():
        mod = _parse(rel)
        for s in lits:
            if not _has_str(mod, s):
                raise TranslatorError(f"{rel}: literal {s!r} not found any more")
    # behaviours the model relies on since the fixes of F10a/F10b/F10c
    ppm = _parse("core/postprocess_manager.py")
    n_ruff = sum(1 for n in ast.walk(ppm) if isinstance(n, ast.Constant) and n.value == "ruff")
    n_nocache = sum(1 for n in ast.walk(ppm) if isinstance(n, ast.Constant) and n.value == "--no-cache")
    if n_ruff == 0 or n_ruff != n_nocache:
        raise TranslatorError(f"core/postprocess_manager.py: {n_ruff} ruff invocations but {n_nocache} '--no-cache' "
                              "arguments (the model assumes post-processing creates no cache directory)")
    # run() must hand ruff the *.py FILES of the list it was given, never directories
    run = None
    for n in ast.walk(ppm):
        if isinstance(n, ast.FunctionDef) and n.name == "run":
            run = n
    if run is None:
        raise TranslatorError("core/postprocess_manager.py: PostprocessManager.run not found")
    pf = [n for n in ast.walk(run) if isinstance(n, ast.Assign) and any(isinstance(t_, ast.Name) and t_.id == "python_files"
                                                                       for t_ in n.targets)]
    if len(pf) != 1 or not isinstance(pf[0].value, ast.ListComp):
        raise TranslatorError("core/postprocess_manager.py: run() no longer builds `python_files` with one list comprehension")
    cond = " and ".join(ast.unparse(c) for g_ in pf[0].value.generators for c in g_.ifs)
    if "is_file()" not in cond or "suffix == '.py'" not in cond or ast.unparse(pf[0].value.generators[0].iter) != "target_paths":
        raise TranslatorError("core/postprocess_manager.py: `python_files` is not the *.py files of target_paths")
    for meth in ("remove_unused_imports_bulk", "sort_imports_bulk", "format_code_bulk"):
        calls = [n for n in ast.walk(run) if isinstance(n, ast.Call) and isinstance(n.func, ast.Attribute) and n.func.attr == meth]
        if len(calls) != 1 or len(calls[0].args) != 1 or ast.unparse(calls[0].args[0]) != "python_files":
            raise TranslatorError(f"core/postprocess_manager.py: run() does not call {meth}(python_files) exactly once "
                                  "(the model gives ruff the generated *.py files, never a directory)")
    gm = None
    for n in ast.walk(_parse("emitters/models_emitter.py")):
        if isinstance(n, ast.FunctionDef) and n.name == "_generate_model_file":
            gm = n
    if gm is None:
        raise TranslatorError("emitters/models_emitter.py: _generate_model_file not found")
    for h in (x for x in ast.walk(gm) if isinstance(x, ast.ExceptHandler)):
        if not isinstance(h.body[-1], ast.Raise):
            raise TranslatorError("emitters/models_emitter.py: an except handler of _generate_model_file does not re-raise "
                                  "(the model assumes a failed model write propagates)")
    gen = None
    for n in ast.walk(_parse("generator/client_generator.py")):
        if isinstance(n, ast.FunctionDef) and n.name == "generate":
            gen = n
    if gen is None or not any(isinstance(x, ast.Attribute) and x.attr == "isidentifier" for x in ast.walk(gen)):
        raise TranslatorError("generator/client_generator.py: generate() no longer validates the package names with "
                              "str.isidentifier (the model rejects non-identifier components before any path is computed)")
    for rel in ("emitters/client_emitter.py", "emitters/mocks_emitter.py"):
        mod = _parse(rel)
        ok = False
        for n in ast.walk(mod):
            if isinstance(n, ast.Assign) and any(isinstance(t, ast.Name) and t.id == "error_log" for t in n.targets):
                src = ast.unparse(n.value)
                ok = "tempfile.gettempdir()" in src and "error.log" in src
        if not ok:
            raise TranslatorError(f"{rel}: `error_log = Path(tempfile.gettempdir()) / ...` not found any more "
                                  "(the model places the emitter's error log in the system temp dir)")
    names = {"s_init": "__init__.py", "s_core": "core", "s_auth": "auth", "s_pytyped": "py.typed", "s_readme": "README.md",
             "s_config": "config.py", "s_aliases": "exception_aliases.py", "s_registry": ".exception_registry.json",
             "s_models": "models", "s_endpoints": "endpoints", "s_mocks": "mocks", "s_client_py": "client.py",
             "s_mock_client": "mock_client.py", "s_mock_": "mock_", "s_dot_py": ".py", "s_dot_tmp": ".tmp",
             "s_ruff_cache": ".ruff_cache", "s_error_log": "pyopenapi_gen_error.log",
             "s_mocks_error_log": "pyopenapi_gen_mocks_error.log"}
    lines = ["(* GENERATED by harness/tables_C10.py from emitters/core_emitter.py etc. — do not edit *)",
             "From PG Require Import Lib.Strs.", ""]
    for k, s in names.items():
        lines.append(f"Definition {k} : str := {cstr(s)}.  (* {s} *)")
    # command line entry: defaults of --force / --no-postprocess and the argument mapping
    cli = _parse("cli.py")
    main = next((n for n in cli.body if isinstance(n, ast.FunctionDef) and n.name == "main"), None)
    if main is None:
        raise TranslatorError("cli.py: main() not found")
    names_ = [a.arg for a in main.args.args]
    defaults = dict(zip(names_[len(names_) - len(main.args.defaults):], main.args.defaults))
    cli_defaults = {}
    for opt in ("force", "no_postprocess"):
        d = defaults.get(opt)
        if not (isinstance(d, ast.Call) and ast.unparse(d.func) == "typer.Option" and d.args
                and isinstance(d.args[0], ast.Constant) and isinstance(d.args[0].value, bool)):
            raise TranslatorError(f"cli.py: default of `{opt}` is not typer.Option(<bool literal>, ...)")
        cli_defaults[opt] = d.args[0].value
    d = defaults.get("core_package")
    if not (isinstance(d, ast.Call) and d.args and isinstance(d.args[0], ast.Constant) and d.args[0].value is None):
        raise TranslatorError("cli.py: default of `core_package` is not typer.Option(None, ...)")
    gcall = next((n for n in ast.walk(main) if isinstance(n, ast.Call) and isinstance(n.func, ast.Attribute)
                  and n.func.attr == "generate"), None)
    kw = {k.arg: ast.unparse(k.value) for k in gcall.keywords} if gcall is not None else {}
    for k in ("force", "no_postprocess", "core_package", "output_package", "project_root"):
        if kw.get(k) != k:
            raise TranslatorError(f"cli.py: generate(...) is not called with {k}={k}")
    src = ast.unparse(main)
    if "core_package = output_package + '.core'" not in src:
        raise TranslatorError("cli.py: `core_package = output_package + \".core\"` for an omitted --core-package not found")
    lines.append("")
    lines.append("(* cli.py: typer.Option defaults *)")
    lines.append(f"Definition cli_force_default : bool := {str(cli_defaults['force']).lower()}.")
    lines.append(f"Definition cli_no_postprocess_default : bool := {str(cli_defaults['no_postprocess']).lower()}.")
    lines.append("")
    lines.append("(* CoreEmitter.RUNTIME_FILES destinations, relative to the core directory *)")
    lines.append("Definition runtime_files : list (list str) := [" +
                 "; ".join("[" + "; ".join(cstr(c) for c in rel) + "]" for rel in dests) + "].")
    return "\n".join(lines) + "\n"
