"""C05 — response fidelity: declared success bodies come back as typed values.

Three relations tie Model/Response.v to the code on every run:
  (A) function level: the real private helpers EndpointResponseHandlerGenerator._should_use_cattrs_structure and
      ._get_cattrs_deserialization_code called on rendered-type strings (arbitrary ones, and `show t` of random type
      ASTs) with a schema registry, vs should_use_cattrs / deser_code;
  (B) pipeline level: generate a real client, read the decode expression the handler uses for (status, content type)
      off the generated source, whether the module imports structure_from_dict, and the return annotation, vs
      handle / module_has_cattrs / resolve;
  (oracle) run the generated client under httpx.MockTransport answering every declared 2xx response x content type
      with a conforming body and evaluate the property's text on what comes back.
Mutation testing: VERIF_REPO_ROOT=<scratch copy of the repo> ./check C05.
"""
from __future__ import annotations

import json
import re
import shutil
import tempfile
from concurrent.futures import ThreadPoolExecutor
from pathlib import Path
from typing import Any

from framework import Check, cbool, clist, copt, cstr, load_corpus

TRUSTED = [
    "Coq 8.16.1 kernel + vm_compute (witness theorems and correspondence evaluation)",
    "hand-written Gallina model coq/Model/Response.v: the string heuristics transcribed on strings, ResponseStrategyResolver."
    "resolve, the stream flag of the response parser and the generated match; tied to the code by this run's cases",
    "abstract decode layer: json.loads / cattrs structure_from_dict / unstructure_to_dict / httpx text+bytes+line decoding are "
    "NOT modelled (C16/C14/C18 cover them); the oracle exercises them on the conforming bodies of this run",
    "reading the decode expression off the generated source with regular expressions (a reader bug shows as a mismatch)",
    "translator harness/tables_C05.py (ast, fail-closed) for the builtin/construct/not-a-model name tables, primitive alias types, "
    "binary media types and prefixes, STREAM_FORMATS, the text/json/event-stream literals; the schema registry handed to the model is "
    "read from the real parser's IR on every run",
    "domain: parameter-less GET operations in one tag; component schemas Item, Cat, Color, Pet, Items, Names, Name, When, Count; "
    "rendered types as listed in TYPE_POOL; ASCII type strings; event streams are sent in 11 equally valid wire renderings "
    "(space/no space after the colon, LF/CRLF, multi-line data, comments and event/id/retry fields, missing final blank line or "
    "newline, 1/5/7-byte chunks), NDJSON in 4, binary in 2; stream payloads never begin with whitespace (F18b belongs to C18)",
]

# ------------------------------------------------------------------ component schemas and the registry the model is given
COMPONENTS = {
    "Item": {"type": "object", "properties": {"id": {"type": "integer"}, "name": {"type": "string"}}, "required": ["id", "name"]},
    "Cat": {"type": "object", "properties": {"meow": {"type": "boolean"}}, "required": ["meow"]},
    "Color": {"type": "string", "enum": ["red", "green"]},
    "Pet": {"oneOf": [{"$ref": "#/components/schemas/Item"}, {"$ref": "#/components/schemas/Cat"}]},
    "Items": {"type": "array", "items": {"$ref": "#/components/schemas/Item"}},
    "Names": {"type": "array", "items": {"type": "string"}},
    "Name": {"type": "string"},
    "When": {"type": "string", "format": "date-time"},
    "Count": {"type": "integer"},
}
# what the handler generator's helpers read from self.schemas[name]: (named, type, has properties, has enum, items (name, type)).
# Computed from the REAL parser's IR of the component schemas on every run (registry_from_ir), never hand-maintained.
REGISTRY: list = []


def registry_from_ir() -> list:
    from pyopenapi_gen.core.loader.loader import load_ir_from_spec
    ir = load_ir_from_spec(build_document([[RESP("200", e_json(k=0))]]))
    reg = []
    for n in COMPONENTS:
        sc = ir.schemas[n]
        it = getattr(sc, "items", None)
        items = None if not it else ((it.name if getattr(it, "name", None) else None),
                                     (str(it.type) if hasattr(it, "type") else None))
        reg.append((n, (bool(getattr(sc, "name", None)), getattr(sc, "type", None), bool(getattr(sc, "properties", None)),
                        bool(getattr(sc, "enum", None)), items)))
    return reg


ITEM, ITEM2, CAT = {"id": 1, "name": "n"}, {"id": 2, "name": "m"}, {"meow": True}


def C(n): return ["class", n]
def P(p): return ["prim", p]
def LIB(n): return ["lib", n]


T_ITEM, T_CAT, T_COLOR, T_PET = C("Item"), C("Cat"), C("Color"), C("Pet")
T_ITEMS, T_NAMES = ["aarr", "Items", T_ITEM], ["aarr", "Names", P("str")]
T_NAME, T_WHEN, T_COUNT = ["aprim", "Name", False], ["aprim", "When", True], ["aprim", "Count", False]
# (type AST, schema, conforming body)
TYPE_POOL: list[tuple[list, dict, Any]] = [
    (T_ITEM, {"$ref": "#/components/schemas/Item"}, ITEM),
    (T_CAT, {"$ref": "#/components/schemas/Cat"}, CAT),
    (T_COLOR, {"$ref": "#/components/schemas/Color"}, "red"),
    (T_PET, {"$ref": "#/components/schemas/Pet"}, CAT),
    (T_ITEMS, {"$ref": "#/components/schemas/Items"}, [ITEM, ITEM2]),
    (T_NAMES, {"$ref": "#/components/schemas/Names"}, ["a", "b"]),
    (T_NAME, {"$ref": "#/components/schemas/Name"}, "nm"),
    (T_COUNT, {"$ref": "#/components/schemas/Count"}, 3),
    (T_WHEN, {"$ref": "#/components/schemas/When"}, "2020-01-02T03:04:05+00:00"),
    (["list", T_ITEM], {"type": "array", "items": {"$ref": "#/components/schemas/Item"}}, [ITEM]),
    (["list", P("str")], {"type": "array", "items": {"type": "string"}}, ["x"]),
    (["list", P("int")], {"type": "array", "items": {"type": "integer"}}, [1, 2]),
    (["list", LIB("datetime")], {"type": "array", "items": {"type": "string", "format": "date-time"}}, ["2020-01-02T03:04:05+00:00"]),
    (P("str"), {"type": "string"}, "s"),
    (P("int"), {"type": "integer"}, 7),
    (P("bool"), {"type": "boolean"}, True),
    (LIB("datetime"), {"type": "string", "format": "date-time"}, "2020-01-02T03:04:05+00:00"),
    (LIB("date"), {"type": "string", "format": "date"}, "2020-01-02"),
    (["opt", ["list", T_ITEM]], {"type": "array", "items": {"$ref": "#/components/schemas/Item"}, "nullable": True}, [ITEM]),
    (["opt", P("str")], {"type": "string", "nullable": True}, "s"),
]
JSON_MEDIA = ["application/json", "application/json", "application/json", "application/vnd.api+json"]
TEXT_BODY = "hello wörld {not json".encode()
BIN_BODY = b"\x89PNG\x00\x01\xfe"
SSE_BODY = b'data: {"id": 1, "name": "n"}\n\ndata: {"id": 2, "name": "m"}\n\n'
NDJSON_BODY = b'{"id": 1, "name": "n"}\n{"id": 2, "name": "m"}\n'


def E(media: str, ty: list | None, schema: dict | None, body: Any, binfmt: bool = False) -> dict:
    return {"media": media, "type": ty if ty is not None else ["any"], "schema": schema, "binfmt": binfmt, "body": body}


def e_json(rng=None, k: int | None = None, media: str = "application/json") -> dict:
    t, s, b = TYPE_POOL[k if k is not None else rng.randrange(len(TYPE_POOL))]
    return E(media, t, s, {"json": b})


def e_text(media="text/plain", schema=True): return E(media, P("str") if schema else None, {"type": "string"} if schema else None, {"text": True})
def e_octet(): return E("application/octet-stream", P("bytes"), {"type": "string", "format": "binary"}, {"bin": True}, True)
def e_pdf(): return E("application/pdf", P("bytes"), {"type": "string", "format": "binary"}, {"bin": True}, True)
def e_png(): return E("image/png", None, None, {"bin": True})
def e_sse(): return E("text/event-stream", T_ITEM, {"$ref": "#/components/schemas/Item"}, {"sse": True})
def e_ndjson(): return E("application/x-ndjson", T_ITEM, {"$ref": "#/components/schemas/Item"}, {"ndjson": True})
def e_jsonseq(): return E("application/json-seq", T_ITEM, {"$ref": "#/components/schemas/Item"}, {"jsonseq": True})


def RESP(code: str, *entries: dict) -> dict:
    return {"code": code, "content": list(entries)}


def fixed_modules() -> list[list[list[dict]]]:
    mods = [[[RESP("200", e_json(k=k))]] for k in range(len(TYPE_POOL))]
    mods += [
        [[RESP("204")]],
        [[RESP("200", e_text())]],                                             # F05c primary text
        [[RESP("200", e_text(schema=False))]],
        [[RESP("200", e_png())]],
        [[RESP("200", e_octet())]], [[RESP("200", e_pdf())]],
        [[RESP("200", e_sse())]],
        [[RESP("200", e_ndjson())]],                                           # fixed part of F05f: read with iter_ndjson
        [[RESP("200", e_jsonseq())]],                                          # F05f (json-seq still read with the SSE parser)
        [[RESP("200", e_ndjson()), RESP("201", e_json(k=0)), RESP("204")]],
        [[RESP("2XX", e_json(k=0))]],                                          # F05g
        [[RESP("200", e_json(k=0)), RESP("201", e_json(k=1)), RESP("202"), RESP("404", e_json(k=0))]],
        [[RESP("200", e_json(k=0)), RESP("201", e_text())]],                   # F05c secondary text
        [[RESP("204"), RESP("206", e_json(k=0))]],                             # F05e NameError
        [[RESP("204"), RESP("206", e_json(k=0))], [RESP("200", e_json(k=1))]], # same, import present through a sibling
        [[RESP("200", e_json(k=13)), RESP("201", e_json(k=0))]],               # primary cast, secondary structure
        [[RESP("200", e_json(k=0), e_text())]],                                # content-type switch
        [[RESP("200", e_text(), e_json(k=0))]],
        [[RESP("200", e_json(k=0), e_text(), e_text("text/csv"), e_png())]],
        [[RESP("200", e_text(), e_text("text/csv"))]],                         # collapses to str -> response.json()
        [[RESP("200", e_json(k=0), e_json(k=0, media="application/xml"))]],    # collapses to Item
        [[RESP("200", e_json(k=0), e_pdf())]],                                 # binary format makes the whole response a byte stream
        [[RESP("201", e_json(k=4)), RESP("200", e_json(k=9))]],
        [[RESP("200", e_json(k=0)), RESP("default", e_json(k=0))]],
        [[RESP("200", e_json(k=13), e_png())]],                                # JSON string served through response.text
        # component responses ($ref under components.responses) shared by operations under different / equal 2xx codes
        [[CREF("PetBody", "200", e_json(k=0))], [CREF("PetBody", "201", e_json(k=0))]],
        [[CREF("PetBody", "200", e_json(k=0))], [CREF("PetBody", "200", e_json(k=0)), RESP("404")]],
        [[CREF("ListBody", "200", e_json(k=9))], [CREF("ListBody", "201", e_json(k=9)), RESP("202")], [CREF("ListBody", "206", e_json(k=9))]],
        [[CREF("TextBody", "201", e_text())], [CREF("TextBody", "200", e_text())]],
        [[CREF("Empty", "204")], [CREF("Empty", "202")], [RESP("200", e_json(k=1)), CREF("Empty", "204")]],
        [[RESP("200", e_json(k=0)), CREF("PetBody", "201", e_json(k=0))], [CREF("PetBody", "200", e_json(k=0))]],
        # a "2XX" range next to concrete NON-priority 2xx codes (no 200/201/202/204), different schemas, both orders:
        # every copy of _get_primary_response must pick the same primary, or the handler decodes with the wrong type
        [[RESP("2XX", e_json(k=0)), RESP("203", e_json(k=1))]],
        [[RESP("203", e_json(k=1)), RESP("2XX", e_json(k=0))]],
        [[RESP("2XX", e_json(k=0)), RESP("206", e_json(k=1)), RESP("299")]],
        [[RESP("299", e_json(k=4)), RESP("2XX", e_json(k=1)), RESP("205", e_json(k=0))]],
        [[RESP("2XX", e_text()), RESP("226", e_json(k=0))]],
        [[RESP("2XX"), RESP("203", e_json(k=0))]],
        [[RESP("404", e_json(k=0)), RESP("2XX", e_json(k=1)), RESP("207", e_json(k=0)), RESP("default")]],
    ]
    return mods


def gen_resp(rng, code: str) -> dict:
    r = rng.random()
    if r < 0.12:
        return RESP(code)
    if r < 0.62:
        return RESP(code, e_json(rng, media=rng.choice(JSON_MEDIA)))
    if r < 0.70:
        return RESP(code, e_text(rng.choice(["text/plain", "text/csv", "text/html"]), rng.random() < 0.7))
    if r < 0.75:
        return RESP(code, rng.choice([e_octet, e_pdf, e_png])())
    if r < 0.80:
        return RESP(code, rng.choice([e_sse, e_ndjson, e_ndjson, e_jsonseq])())
    # several content types on one response
    pool = [lambda: e_json(rng), lambda: e_text(), lambda: e_text("text/csv"), e_png,
            lambda: e_json(rng, media="application/vnd.api+json"), e_pdf]
    picks = rng.sample(pool, rng.choice([2, 2, 3]))
    ents, seen = [], set()
    for p in picks:
        e = p()
        if e["media"] not in seen:
            seen.add(e["media"])
            ents.append(e)
    return RESP(code, *ents)


NON_PRIORITY_2XX = ["203", "205", "206", "207", "226", "299"]


def gen_op(rng) -> list[dict]:
    if rng.random() < 0.12:
        # the range key together with concrete non-priority codes only (the primary is then decided by declaration order)
        codes = rng.sample(NON_PRIORITY_2XX, rng.choice([1, 1, 2])) + ["2XX"]
    else:
        codes = rng.sample(["200", "201", "202", "204", "206", "299"], rng.choice([1, 1, 2, 2, 3]))
        if rng.random() < 0.06:
            codes.append("2XX")
    extra = rng.sample(["400", "404", "500", "default"], rng.choice([0, 0, 1, 2]))
    rs = [gen_resp(rng, c) for c in codes] + [RESP(c, *([e_json(k=0)] if rng.random() < 0.5 else [])) for c in extra]
    rng.shuffle(rs)
    return rs


def CREF(name: str, code: str, *entries: dict) -> dict:
    """a response declared under components.responses[name] and referenced with $ref under `code`"""
    return {"code": code, "content": list(entries), "cref": name}


def gen_module(rng) -> list[list[dict]]:
    mod = [gen_op(rng) for _ in range(rng.choice([1, 1, 2, 3]))]
    if rng.random() < 0.15:
        # one component response referenced from several operations under different (and equal) 2xx codes.
        # Body schemas: $ref, or inline array/primitive (inline OBJECT bodies are promoted under per-operation names, which
        # this harness's type ASTs do not predict)
        body = rng.choice([[], [e_json(rng)], [e_json(rng)], [e_text()], [e_json(k=9)], [e_json(k=0), e_text()]])
        codes = [rng.choice(["200", "201", "202", "206"]) for _ in range(rng.choice([2, 3]))]
        for c in codes:
            extra = [RESP("404")] if rng.random() < 0.5 else []
            mod.append([CREF("SharedBody", c, *json.loads(json.dumps(body)))] + extra)
    return mod


def build_document(mod: list[list[dict]]) -> dict:
    paths = {}
    shared: dict = {}
    for i, op in enumerate(mod):
        responses = {}
        for r in op:
            node: dict = {"description": "d"}
            if r["content"]:
                node["content"] = {e["media"]: ({"schema": e["schema"]} if e["schema"] is not None else {}) for e in r["content"]}
            if r.get("cref"):    # declared once under components.responses and referenced from the operation
                shared[r["cref"]] = node
                node = {"$ref": "#/components/responses/" + r["cref"]}
            responses[r["code"]] = node
        paths[f"/o{i}"] = {"get": {"operationId": f"op{i}", "tags": ["t"], "responses": responses}}
    comps: dict = {"schemas": COMPONENTS}
    if shared:
        comps["responses"] = shared
    return {"openapi": "3.0.3", "info": {"title": "T", "version": "1.0"}, "paths": paths, "components": comps}


def _sse_wires() -> dict[str, tuple[bytes, int]]:
    """equally valid wire renderings of the SAME two events (payloads never begin with whitespace: stripping of leading
    payload whitespace is C18's F18b) -> (bytes, chunk size; 0 = one chunk)"""
    j1, j2 = json.dumps(ITEM), json.dumps(ITEM2)
    c1, c2 = json.dumps(ITEM, separators=(",", ":")), json.dumps(ITEM2, separators=(",", ":"))

    def ev(lines: list[str], nl: str) -> str:
        return "".join(l + nl for l in lines) + nl
    w: dict[str, tuple[bytes, int]] = {}
    w["sp_lf"] = (SSE_BODY, 0)
    w["nosp_lf"] = ((ev([f"data:{c1}"], "\n") + ev([f"data:{c2}"], "\n")).encode(), 0)
    w["sp_crlf"] = ((ev([f"data: {j1}"], "\r\n") + ev([f"data: {j2}"], "\r\n")).encode(), 0)
    w["nosp_crlf"] = ((ev([f"data:{c1}"], "\r\n") + ev([f"data:{c2}"], "\r\n")).encode(), 0)
    w["multiline"] = ((ev(['data: {"id": 1,', 'data: "name": "n"}'], "\n") + ev(['data:{"id": 2,', 'data:"name": "m"}'], "\n")).encode(), 0)
    w["fields"] = ((": keepalive\n" + ev(["event: update", "id: 7", "retry: 100", f"data: {j1}"], "\n") + ":x\n\n"
                    + ev(["id:8", "event:update", f"data:{c2}", ": trailing comment"], "\n")).encode(), 0)
    w["no_final_blank"] = ((ev([f"data: {j1}"], "\n") + f"data:{c2}\n").encode(), 0)
    w["no_final_newline"] = ((ev([f"data:{c1}"], "\n") + f"data: {j2}").encode(), 0)
    w["chunk1"] = (w["nosp_crlf"][0], 1)
    w["chunk7"] = (w["fields"][0], 7)
    w["chunk5_sp"] = (SSE_BODY, 5)
    return w


SSE_WIRES = _sse_wires()
NDJSON_WIRES: dict[str, tuple[bytes, int]] = {
    "lf": (NDJSON_BODY, 0),
    "no_final_newline": (NDJSON_BODY.rstrip(b"\n"), 0),
    "crlf": (NDJSON_BODY.replace(b"\n", b"\r\n"), 0),
    "compact_chunk3": (b'{"id":1,"name":"n"}\n{"id":2,"name":"m"}\n', 3),
}
JSONSEQ_WIRES: dict[str, tuple[bytes, int]] = {
    "rs_lf": (b'\x1e{"id": 1, "name": "n"}\n\x1e{"id": 2, "name": "m"}\n', 0),
}
BIN_WIRES: dict[str, tuple[bytes, int]] = {"whole": (BIN_BODY, 0), "chunk2": (BIN_BODY, 2)}


def wires_of(e: dict | None) -> dict[str, tuple[bytes, int]] | None:
    if e is None:
        return None
    b = e["body"]
    return (SSE_WIRES if "sse" in b else NDJSON_WIRES if "ndjson" in b else JSONSEQ_WIRES if "jsonseq" in b
            else BIN_WIRES if "bin" in b else None)


def body_bytes(e: dict | None, wire: str | None = None) -> bytes:
    if e is None:
        return b""
    b = e["body"]
    if "json" in b:
        return json.dumps(b["json"]).encode()
    ws = wires_of(e)
    if ws is not None:
        return ws[wire or next(iter(ws))][0]
    return TEXT_BODY


def chunk_of(e: dict | None, wire: str | None) -> int:
    ws = wires_of(e)
    return ws[wire or next(iter(ws))][1] if ws is not None else 0


def declared_2xx(mod: list[list[dict]]) -> list[dict]:
    """one input per declared 2xx response x content entry"""
    out = []
    for oi, op in enumerate(mod):
        for ri, r in enumerate(op):
            c = r["code"]
            if not (c.startswith("2") and (c.isdigit() and 200 <= int(c) <= 299 or c.upper() == "2XX")):
                continue
            for ei in (range(len(r["content"])) if r["content"] else [None]):
                ws = wires_of(r["content"][ei]) if ei is not None else None
                for wire in (ws if ws is not None else [None]):   # every equally valid wire rendering of a stream
                    out.append({"module": mod, "op": oi, "resp": ri, "entry": ei, "wire": wire})
    return out


# ------------------------------------------------------------------ driver (fresh interpreter)
DRIVER = r'''
import asyncio, importlib, httpx, dataclasses, enum, datetime, uuid, inspect

def main(arg):
    out = {}
    for job in arg["jobs"]:
        pkg = job["pkg"]
        try:
            cm = importlib.import_module(pkg + ".client")
            cfgm = importlib.import_module(pkg + ".core.config")
            conv = importlib.import_module(pkg + ".core.cattrs_converter")
        except BaseException as e:
            out[pkg] = {"import_error": type(e).__name__ + ": " + str(e)[:300]}
            continue
        out[pkg] = {"rows": asyncio.run(run(cm, cfgm, conv, job["calls"]))}
    return out

def enc(v, conv):
    if dataclasses.is_dataclass(v) and not isinstance(v, type):
        return conv.unstructure_to_dict(v)
    if isinstance(v, enum.Enum):
        return v.value
    if isinstance(v, (datetime.datetime, datetime.date)):
        return v.isoformat()
    if isinstance(v, uuid.UUID):
        return str(v)
    if isinstance(v, (list, tuple)):
        return [enc(x, conv) for x in v]
    if isinstance(v, dict):
        return {k: enc(x, conv) for k, x in v.items()}
    if isinstance(v, bytes):
        return {"$bytes": v.hex()}
    return v

def tt(v):
    if dataclasses.is_dataclass(v) and not isinstance(v, type) or isinstance(v, enum.Enum):
        return {"c": type(v).__name__}
    if isinstance(v, list):
        return {"l": [tt(x) for x in v]}
    if isinstance(v, dict):
        return {"d": {k: tt(x) for k, x in v.items()}}
    return {"b": type(v).__name__}

async def run(cm, cfgm, conv, calls):
    cur = {}
    def handler(req):
        body = bytes.fromhex(cur["body"])
        if cur["chunk"]:
            n = cur["chunk"]
            async def chunks():
                for i in range(0, len(body), n):
                    yield body[i:i + n]
            content = chunks()      # delivered at arbitrary byte boundaries
        else:
            content = body
        return httpx.Response(cur["st"], content=content,
                              headers=({"content-type": cur["ct"]} if cur["ct"] else {}))
    api = cm.APIClient(cfgm.ClientConfig(base_url="http://srv.test"))
    await api.transport._client.aclose()
    api.transport._client = httpx.AsyncClient(base_url="http://srv.test", transport=httpx.MockTransport(handler))
    rows = []
    for op_i, st, ct, body, chunk in calls:
        cur.update(st=st, ct=ct, body=body, chunk=chunk)
        try:
            v = getattr(api.t, "op%d" % op_i)()
            if hasattr(v, "__aiter__"):
                items = [x async for x in v]
                rows.append(["stream", [tt(x) for x in items], [enc(x, conv) for x in items]])
            else:
                v = await v
                rows.append(["ret", tt(v), enc(v, conv)])
        except BaseException as e:
            rows.append(["exc", type(e).__name__, str(e)[:160]])
    await api.close()
    return rows
'''


# ------------------------------------------------------------------ reading the decode path off the generated source
def method_blocks(src: str) -> dict[str, tuple[str, dict[str, list[str]]]]:
    """method name -> (return annotation, {case label: [stripped statement lines]}) of the client class"""
    out = {}
    cls = src[src.index("\nclass T"):]
    cls = cls[cls.index("Protocol):") :]
    for m in re.finditer(r"\n    async def (op\d+)\(\s*self,?\s*\) -> ([^\n]*):\n(.*?)(?=\n    async def |\Z)", cls, re.S):
        name, ann, body = m.group(1), m.group(2).strip(), m.group(3)
        if "match response.status_code:" not in body:
            continue
        mt = body[body.index("match response.status_code:"):]
        mt = mt[: mt.index("# All paths above")]
        cases: dict[str, list[str]] = {}
        label = None
        for line in mt.splitlines()[1:]:
            s = line.strip()
            if not s:
                continue
            m2 = re.match(r"case ([^:]+):", s)
            if m2 and line.startswith(" " * 12 + "case "):
                label = m2.group(1).strip()
                cases.setdefault(label, [])   # a duplicate label never matches again: keep the first
                if cases[label]:
                    label = None
                continue
            if label is not None:
                cases[label].append(s)
        out[name] = (ann, cases)
    return out


def stmt_path(s: str) -> list:
    if s == "return None":
        return ["PNone"]
    if s.startswith("return  # Explicit return for async generator"):
        return ["PEndIter"]
    if s == "return response.text":
        return ["PText"]
    if s == "return response.content":
        return ["PContent"]
    if s.startswith("return cast("):
        return ["PCast"]
    if s.startswith("return structure_from_dict("):
        return ["PStructure", s[len("return "):]]
    if s.startswith("raise "):
        return ["PRaiseHTTP"]
    return ["?", s]


def block_path(lines: list[str], ct: str) -> list:
    if not lines:
        return ["?", "empty"]
    if lines[0] == "if 200 <= response.status_code < 300:":      # default response with content (statuses here are 2xx)
        return block_path(lines[1:], ct)
    if lines[0].startswith("if 400 <= response.status_code < 500:"):   # range-aware raise of `case _`
        return ["PRaiseHTTP"]
    if lines[0].startswith("content_type = response.headers.get("):
        i = 1
        while i < len(lines):
            h = lines[i]
            m = re.match(r'(?:if|elif) content_type == "([^"]*)":', h)
            if m:
                if m.group(1) == ct:
                    return stmt_path(lines[i + 1])
            elif h.startswith("else:"):
                return stmt_path(lines[i + 1])
            else:
                return ["?", h]
            i += 2
        return ["?", "no branch"]
    if lines[0].startswith("async for chunk in iter_bytes(response)"):
        return ["PStreamBytes"]
    if lines[0].startswith("async for chunk in iter_sse_events_text(response)"):
        return ["PStreamSse"]
    if lines[0].startswith("async for item in iter_ndjson(response)"):
        if len(lines) > 1 and lines[1] == "yield item":
            return ["PStreamNdjson", False]
        if len(lines) > 1 and lines[1].startswith("yield structure_from_dict(item, "):
            return ["PStreamNdjson", True]
        return ["?", lines[1] if len(lines) > 1 else "empty"]
    return stmt_path(lines[0])


def source_obs(src: str, op_i: int, st: int, ct: str) -> tuple[list, bool, str]:
    ann, cases = method_blocks(src)[f"op{op_i}"]
    lines = cases.get(str(st))
    if lines is None:
        rng_label = next((k for k in cases if k.startswith("_ if ")), None)   # case _ if 200 <= response.status_code < 300:
        if rng_label == "_ if 200 <= response.status_code < 300" and 200 <= st < 300:
            lines = cases[rng_label]
        else:
            lines = cases.get("_", [])
    imported = bool(re.search(r"^from \S+cattrs_converter import .*\bstructure_from_dict\b", src, re.M))
    return block_path(lines, ct), imported, ann


# ------------------------------------------------------------------ the property's own oracle
def type_ok(tree: dict, t: list) -> bool:
    k = t[0]
    if k == "any":
        return True
    if k == "none":
        return tree == {"b": "NoneType"}
    if k == "prim":
        return tree == {"b": t[1]}
    if k == "lib":
        return tree == {"b": t[1]}
    if k == "class":
        if t[1] == "Pet":
            return tree in ({"c": "Item"}, {"c": "Cat"})
        return tree == {"c": t[1]}
    if k == "aprim":
        return tree == {"b": {"Name": "str", "When": "datetime", "Count": "int"}[t[1]]}
    if k in ("aarr", "list"):
        return "l" in tree and all(type_ok(x, t[2] if k == "aarr" else t[1]) for x in tree["l"])
    if k == "dict":
        return "d" in tree and all(type_ok(x, t[1]) for x in tree["d"].values())
    if k == "opt":
        return tree == {"b": "NoneType"} or type_ok(tree, t[1])
    if k == "union":
        return any(type_ok(tree, x) for x in t[1])
    return False


KNOWN_NAMES = {"str": P("str"), "int": P("int"), "bool": P("bool"), "float": P("float"), "bytes": P("bytes"), "Any": ["any"],
               "None": ["none"], "datetime": LIB("datetime"), "date": LIB("date"), "UUID": LIB("UUID"),
               "Item": T_ITEM, "Cat": T_CAT, "Color": T_COLOR, "Pet": T_PET, "Items": T_ITEMS, "Names": T_NAMES,
               "Name": T_NAME, "When": T_WHEN, "Count": T_COUNT}


def split_top(s: str, sep: str) -> list[str]:
    out, depth, cur, i = [], 0, "", 0
    while i < len(s):
        if s[i] == "[":
            depth += 1
        elif s[i] == "]":
            depth -= 1
        if depth == 0 and s.startswith(sep, i):
            out.append(cur)
            cur = ""
            i += len(sep)
            continue
        cur += s[i]
        i += 1
    return out + [cur]


def parse_ann(s: str) -> list:
    """the method's return annotation (a string read off the generated source) as a type AST; ["any"] if unreadable"""
    s = s.strip()
    parts = split_top(s, " | ")
    if len(parts) > 1:
        non_none = [x for x in parts if x != "None"]
        inner = parse_ann(non_none[0]) if len(non_none) == 1 else ["union", [parse_ann(x) for x in non_none]]
        return ["opt", inner] if "None" in parts else inner
    for pre, k in (("List[", "list"), ("list[", "list"), ("AsyncIterator[", "aiter")):
        if s.startswith(pre) and s.endswith("]"):
            return [k, parse_ann(s[len(pre):-1])]
    if s.startswith("dict[str, ") and s.endswith("]"):
        return ["dict", parse_ann(s[len("dict[str, "):-1])]
    if s.startswith("Union[") and s.endswith("]"):
        return ["union", [parse_ann(x) for x in split_top(s[6:-1], ", ")]]
    return KNOWN_NAMES.get(s, ["any"])


def same_instant(a: Any, b: Any) -> bool:
    """re-serialisation equality; ISO date-times are compared as instants"""
    if isinstance(a, str) and isinstance(b, str) and a != b:
        from datetime import datetime
        try:
            return datetime.fromisoformat(a.replace("Z", "+00:00")) == datetime.fromisoformat(b.replace("Z", "+00:00"))
        except ValueError:
            return False
    if isinstance(a, list) and isinstance(b, list):
        return len(a) == len(b) and all(same_instant(x, y) for x, y in zip(a, b))
    if isinstance(a, dict) and isinstance(b, dict):
        return a.keys() == b.keys() and all(same_instant(a[k], b[k]) for k in a)
    return type(a) is type(b) and a == b


def oracle(inp: dict, run: list, annotation: str = "Any") -> list[str]:
    op = inp["module"][inp["op"]]
    r = op[inp["resp"]]
    e = r["content"][inp["entry"]] if inp["entry"] is not None else None
    if run[0] == "generator_error":
        return [f"generator failed: {run[1][:120]}"]
    if run[0] == "import_error":
        return [f"generated package cannot be imported: {run[1][:120]}"]
    what = f"{r['code']} {e['media'] if e else '(no content)'}" + (f" [wire syntax {inp['wire']}]" if inp.get("wire") else "")
    if run[0] == "exc":
        return [f"{what}: the call raised {run[1]}"]
    if e is None:
        # "a declared response without content returns None"; when the method is an async generator (streaming
        # operation) the reading is: the iteration yields nothing and ends
        ok = (run[0] == "ret" and run[2] is None) or (run[0] == "stream" and run[2] == [])
        return [] if ok else [f"{what}: expected None / an empty iteration, got {run[1]}"]
    b = e["body"]
    if "sse" in b or "ndjson" in b or "jsonseq" in b:
        if run[0] != "stream":
            return [f"{what}: not an async iterator"]
        return [] if run[2] == [ITEM, ITEM2] else [f"{what}: stream yielded {len(run[2])} item(s), the server sent 2"]
    if "bin" in b:
        sent = body_bytes(e, inp.get("wire")).hex()
        if run[0] == "stream":
            ok = all(t == {"b": "bytes"} for t in run[1]) and "".join(x["$bytes"] for x in run[2]) == sent
            return [] if ok else [f"{what}: streamed chunks differ from the bytes sent"]
        return [] if run[2] == {"$bytes": sent} else [f"{what}: did not return the bytes sent"]
    if "text" in b and run[0] != "stream":
        return [] if run[0] == "ret" and run[2] == TEXT_BODY.decode() else [f"{what}: did not return the text sent"]
    # JSON or text body
    if run[0] == "stream":
        # the response as a whole is a byte stream (another content type is binary): the bytes sent must come back
        ok = "".join(x["$bytes"] for x in run[2] if isinstance(x, dict) and "$bytes" in x) == body_bytes(e, inp.get("wire")).hex()
        return [] if ok else [f"{what}: streamed chunks differ from the bytes sent"]
    fails = []
    if not same_instant(run[2], b["json"]):
        fails.append(f"{what}: value re-serialises to {json.dumps(run[2])[:80]}, body was {json.dumps(b['json'])[:80]}")
    if not type_ok(run[1], e["type"]):
        fails.append(f"{what}: returned {json.dumps(run[1])[:60]}, not a value of the declared type {show_py(e['type'])}")
    elif not type_ok(run[1], parse_ann(annotation)):
        fails.append(f"{what}: returned {json.dumps(run[1])[:60]}, not a value of the annotated return type {annotation}")
    return fails


# ------------------------------------------------------------------ printers
def show_py(t: list) -> str:
    k = t[0]
    if k == "none":
        return "None"
    if k == "any":
        return "Any"
    if k in ("prim", "lib", "class", "aprim", "aarr"):
        return t[1]
    if k == "list":
        return f"List[{show_py(t[1])}]"
    if k == "dict":
        return f"dict[str, {show_py(t[1])}]"
    if k == "opt":
        return f"{show_py(t[1])} | None"
    if k == "union":
        return "Union[" + ", ".join(show_py(x) for x in t[1]) + "]"
    if k == "aiter":
        return f"AsyncIterator[{show_py(t[1])}]"
    raise ValueError(t)


PRIMS = {"str": "PStr", "int": "PInt", "float": "PFloat", "bool": "PBool", "bytes": "PBytesT"}


def c_ty(t: list) -> str:
    k = t[0]
    if k == "none":
        return "TNone"
    if k == "any":
        return "TAny"
    if k == "prim":
        return f"(TPrim {PRIMS[t[1]]})"
    if k == "lib":
        return f"(TLib {cstr(t[1])})"
    if k == "class":
        return f"(TClass {cstr(t[1])})"
    if k == "aprim":
        return f"(TAliasPrim {cstr(t[1])} {cbool(t[2])})"
    if k == "aarr":
        return f"(TAliasArr {cstr(t[1])} {c_ty(t[2])})"
    if k in ("list", "dict", "opt", "aiter"):
        return f"({ {'list': 'TList', 'dict': 'TDict', 'opt': 'TOpt', 'aiter': 'TAsyncIter'}[k]} {c_ty(t[1])})"
    if k == "union":
        return f"(TUnion {clist(c_ty(x) for x in t[1])})"
    raise ValueError(t)


def c_sinfo(i: tuple) -> str:
    named, ty, props, enum, items = i
    its = "None" if items is None else f"(Some ({copt(items[0], cstr)}, {copt(items[1], cstr)}))"
    return (f"{{| si_named := {cbool(named)}; si_type := {copt(ty, cstr)}; si_props := {cbool(props)}; "
            f"si_enum := {cbool(enum)}; si_items := {its} |}}")


def c_registry(reg: list) -> str:
    return clist(f"({cstr(n)}, {c_sinfo(i)})" for n, i in reg)


def c_code(code: str) -> str:
    if code == "default":
        return "Default"
    if code.isdigit():
        return f"(Num {int(code)})"
    return f"(Other {cstr(code)})"


def c_cop(op: list[dict]) -> str:
    return clist("{| cr_code := %s; cr_content := %s |}" % (
        c_code(r["code"]), clist(f"{{| c_media := {cstr(e['media'])}; c_type := {c_ty(e['type'])}; c_binfmt := {cbool(e['binfmt'])} |}}"
                                 for e in r["content"])) for r in op)


def c_path(p: list) -> str:
    if p[0] == "PStructure":
        return f"(PStructure {cstr(p[1])})"
    if p[0] == "PStreamNdjson":
        return f"(PStreamNdjson {cbool(p[1])})"
    if p[0] == "?":
        return "PGenError"
    return p[0]


def c_dcase(inp: dict) -> str:
    return (f"{{| d_reg := REG; d_module := {clist(c_cop(o) for o in inp['module'])}; d_op := {inp['op']}%nat; "
            f"d_resp := {inp['resp']}%nat; d_entry := {copt(inp['entry'], lambda n: f'{n}%nat')} |}}")


# ------------------------------------------------------------------ (A) function-level cases
NAME_POOL = ["Item", "Cat", "Color", "Pet", "Items", "Names", "Name", "When", "Count", "item", "models.Item", "UUID", "datetime",
             "date", "Foo", "Dict", "List", "Tuple", "Union", "Optional", "tuple", "X1", "_Priv"]
RAW_STRINGS = ["Optional[Item]", "Optional[List[Item]]", "Item|None", "Item| None", "List[Item]| None", "list[Item]", "list[str]",
               "Dict[str, Item]", "Tuple[int, Item]", "tuple[Item, int]", "Item | None | None", "List[List[Item]]",
               "dict[str, Item]", "dict[str, Any]", "List[dict[str, Any]]", "Union[dict[str, Any], Item]", "Union[Item, str]",
               "Union[str, Item]", "AsyncIterator[Item]", "List[Item] | None", "Items | None", "Names | None", "Items[int]",
               "Name[x]", "a.b.C", "List[a.b.C]", "bytes", "None", "Any", "object", "List[ Item ]", "List[Item ]", "str | None",
               "List[str] | None", "When | None", "List[When]", "Item]x[", "A, B", "List[A, B]"]


def rand_ty(rng, depth=0) -> list:
    r = rng.random()
    if depth >= 3 or r < 0.45:
        k = rng.random()
        if k < 0.25:
            return P(rng.choice(list(PRIMS)))
        if k < 0.3:
            return ["any"]
        if k < 0.33:
            return ["none"]
        n = rng.choice(NAME_POOL)
        return rng.choice([C(n), LIB(n)])
    if r < 0.6:
        return ["list", rand_ty(rng, depth + 1)]
    if r < 0.68:
        return ["dict", rand_ty(rng, depth + 1)]
    if r < 0.82:
        return ["opt", rand_ty(rng, depth + 1)]
    if r < 0.94:
        return ["union", [rand_ty(rng, depth + 1) for _ in range(rng.choice([2, 2, 3]))]]
    return ["aiter", rand_ty(rng, depth + 1)]


def rand_registry(rng) -> list:
    reg = list(REGISTRY)
    if rng.random() < 0.5:
        extra = []
        for n in rng.sample(["Foo", "item", "X1", "UUID", "List", "Dict", "Item"], rng.choice([1, 2, 3])):
            ty = rng.choice([None, "object", "array", "string", "integer", "number", "boolean"])
            items = None
            if ty == "array" and rng.random() < 0.8:
                items = rng.choice([("Item", "object"), (None, "string"), ("Foo", None), (None, "integer"), ("Color", "string")])
            extra.append((n, (rng.random() < 0.9, ty, rng.random() < 0.3, rng.random() < 0.2, items)))
        names = {n for n, _ in extra}
        reg = extra + [x for x in reg if x[0] not in names]
    return reg


def real_helpers(reg: list):
    from pyopenapi_gen import IRSchema
    from pyopenapi_gen.visit.endpoint.generators.response_handler_generator import EndpointResponseHandlerGenerator
    schemas = {}
    for n, (named, ty, props, enum, items) in reg:
        it = None
        if items is not None:
            it = IRSchema(name=items[0], type=items[1])
        schemas[n] = IRSchema(name=n if named else None, type=ty, properties={"p": IRSchema(name=None, type="string")} if props else {},
                              enum=["a"] if enum else None, items=it)
    return EndpointResponseHandlerGenerator(schemas)


def call_helpers(gen, s: str):
    """(should_use, deser code | None for ValueError); None when Python raises IndexError (outside the modelled domain)"""
    import logging
    logging.disable(logging.CRITICAL)
    try:
        try:
            use = bool(gen._should_use_cattrs_structure(s))
        except IndexError:
            return None
        try:
            code = gen._get_cattrs_deserialization_code(s, "response.json()")
        except ValueError:
            code = None
        return [use, code]
    finally:
        logging.disable(logging.NOTSET)


# ------------------------------------------------------------------ pipeline runner
def run_modules(mods: list[list[list[dict]]]) -> list[dict]:
    from pipeline import SCRATCH, drive, generate
    SCRATCH.mkdir(parents=True, exist_ok=True)
    root = Path(tempfile.mkdtemp(prefix="c05_", dir=SCRATCH))
    jobs = []
    try:
        gens = []
        for j, mod in enumerate(mods):
            pkg = f"p{j:04d}"
            g = generate(build_document(mod), package=pkg, root=root)
            inputs = declared_2xx(mod)
            calls = []
            for inp in inputs:
                r = mod[inp["op"]][inp["resp"]]
                e = r["content"][inp["entry"]] if inp["entry"] is not None else None
                if r["code"].isdigit():
                    st = int(r["code"])
                else:   # range key "2XX": the first 2xx status the operation does not also declare numerically
                    taken = {int(x["code"]) for x in mod[inp["op"]] if x["code"].isdigit()}
                    st = next((n for n in range(200, 300) if n not in taken), 200)
                calls.append([inp["op"], st, e["media"] if e else None, body_bytes(e, inp.get("wire")).hex(),
                              chunk_of(e, inp.get("wire"))])
            src = (root / pkg / "endpoints" / "t.py").read_text() if g.ok else ""
            jobs.append({"pkg": pkg, "mod": mod, "inputs": inputs, "calls": calls, "gen_error": None if g.ok else g.error, "src": src})
            gens.append(g)
        batches = [jobs[i:i + 10] for i in range(0, len(jobs), 10)]

        def one(batch):
            arg = {"jobs": [{"pkg": j["pkg"], "calls": j["calls"]} for j in batch if j["gen_error"] is None]}
            r = drive(gens[0], DRIVER, arg, timeout=600)
            if not r["ok"]:
                raise RuntimeError(f"driver failed: {r['error']}\n{r.get('traceback', '')}")
            return r["result"]
        results: dict = {}
        with ThreadPoolExecutor(max_workers=8) as ex:
            for res in ex.map(one, batches):
                results.update(res)
    finally:
        shutil.rmtree(root, ignore_errors=True)
    cases = []
    for job in jobs:
        res = results.get(job["pkg"])
        for k, inp in enumerate(job["inputs"]):
            call = job["calls"][k]
            if job["gen_error"] is not None:
                run, sobs = ["generator_error", job["gen_error"]], (["?", "generator error"], False, "")
            else:
                run = ["import_error", res["import_error"]] if "import_error" in res else res["rows"][k]
                try:
                    sobs = source_obs(job["src"], call[0], call[1], (call[2] or "").lower())
                except Exception as ex:  # noqa: BLE001 — an unreadable source is an observation (mismatch), not a crash
                    sobs = (["?", f"unreadable: {ex}"], False, "")
            cases.append({"input": inp, "obs": {"path": sobs[0], "imported": sobs[1], "annotation": sobs[2], "run": run},
                          "oracle_fail": oracle(inp, run, sobs[2])})
    return cases


def slim(inp: dict) -> dict:
    return inp


# ------------------------------------------------------------------ entry
def main(chk: Check, replay: dict | None = None) -> int:
    if replay is not None:
        i = replay["input"]
        cs = [c for c in run_modules([i["module"]]) if (c["input"]["op"], c["input"]["resp"], c["input"]["entry"]) == (i["op"], i["resp"], i["entry"])
              and c["input"].get("wire") == i.get("wire", c["input"].get("wire"))]
        print(json.dumps(cs[0]["obs"], indent=1))
        if cs[0]["oracle_fail"]:
            print(f"VIOLATION property=C05 replay=(replayed) : {cs[0]['oracle_fail']}")
            return 1
        return 0
    chk.prove()
    rng = chk.rng
    REGISTRY[:] = registry_from_ir()
    chk.cov["registry_from_ir"] = [[n, list(i[:4]), list(i[4]) if i[4] else None] for n, i in REGISTRY]
    mods = [c["input"]["module"] for c in load_corpus("C05")] + fixed_modules()
    mods += [gen_module(rng) for _ in range(300 if chk.thorough else 90)]
    cases = run_modules(mods)
    chk.cov["evaluations"] = len(cases)
    chk.cov["distinct_nontrivial"] = len({json.dumps(c["input"], sort_keys=True) for c in cases
                                          if c["input"]["entry"] is not None})
    dist: dict[str, int] = {}
    for c in cases:
        k = c["obs"]["path"][0] + "/" + c["obs"]["run"][0]
        dist[k] = dist.get(k, 0) + 1
    media: dict[str, int] = {}
    for c in cases:
        i = c["input"]
        r = i["module"][i["op"]][i["resp"]]
        m = r["content"][i["entry"]]["media"] if i["entry"] is not None else "(none)"
        media[m] = media.get(m, 0) + 1
    wires: dict[str, int] = {}
    for c in cases:
        if c["input"].get("wire"):
            i = c["input"]
            m = i["module"][i["op"]][i["resp"]]["content"][i["entry"]]["media"]
            wires[f"{m}:{i['wire']}"] = wires.get(f"{m}:{i['wire']}", 0) + 1
    chk.cov["input_distribution"] = {"stream_wire_syntaxes": wires, "modules": len(mods), "operations": sum(len(m) for m in mods), "path/run": dist, "media": media,
                                     "secondary_2xx": sum(1 for c in cases if c["obs"]["path"][0] != "?" and len(
                                         [r for r in c["input"]["module"][c["input"]["op"]] if r["code"].startswith("2")]) > 1),
                                     "oracle_failures": sum(1 for c in cases if c["oracle_fail"])}
    for c in cases[:2] + cases[-2:]:
        chk.sample({"input": {k: v for k, v in c["input"].items() if k != "module"}, "obs": c["obs"]})
    codes = None
    imports = "From PG Require Import Lib.Strs Model.Dispatch Model.Response Corr.C05."
    prelude = f"Definition REG : registry := {c_registry(REGISTRY)}."
    if chk.model_ok:
        codes = chk.coq_eval(imports, "dcase * pobs",
                             [f"({c_dcase(c['input'])}, ({c_path(c['obs']['path'])}, {cbool(c['obs']['imported'])}, {cstr(c['obs']['annotation'])}))"
                              for c in cases], "run", shard=150, prelude=prelude)
    if chk.model_ok:
        # hypothesis of C05_partial: every generated case is a well-formed dcase (reported, and a broken check if not)
        wf = chk.coq_eval(imports, "dcase", [c_dcase(c["input"]) for c in cases], "run_wf", shard=150, prelude=prelude, tag="wf")
        if wf is not None:
            bad = [c["input"] for c, w in zip(cases, wf) if w != 1]
            chk.cov["input_distribution"]["cases_not_wf_dcase"] = len(bad)
            if bad:
                chk.broken.append({"kind": "domain", "name": "wf_dcase false on a generated case (outside C05_partial's hypothesis)",
                                   "first": {k: v for k, v in bad[0].items() if k != "module"}})
    chk.decide(cases, codes, {1: "F05b", 2: "F05c", 3: "F05f", 4: "F05i"},
               "Corr.C05.run: handle/module_has_cattrs/resolve (model) = decode expression, import and annotation in the generated source")
    # (A) function level
    n = 4000 if chk.thorough else 900
    fcases, scases = [], []
    for k in range(n):
        reg = rand_registry(rng) if k % 3 else list(REGISTRY)
        gen = real_helpers(reg)
        if k < len(RAW_STRINGS):
            s = RAW_STRINGS[k]
            o = call_helpers(gen, s)
            if o is not None:
                fcases.append((reg, s, o))
        else:
            t = rand_ty(rng)
            s = show_py(t)
            o = call_helpers(gen, s)
            if o is not None:
                scases.append((reg, t, s, o))
    chk.cov["evaluations"] += len(fcases) + len(scases)
    chk.cov["input_distribution"]["helper_cases"] = {"raw_strings": len(fcases), "show_of_ast": len(scases),
                                                     "use_cattrs_true": sum(1 for x in scases if x[3][0]),
                                                     "deser_valueerror": sum(1 for x in scases if x[3][1] is None)}
    if chk.model_ok:
        def c_fobs(o): return f"({cbool(o[0])}, {copt(o[1], cstr)})"
        fc = chk.coq_eval(imports, "(registry * str) * fobs",
                          [f"(({c_registry(reg)}, {cstr(s)}), {c_fobs(o)})" for reg, s, o in fcases], "run_f", shard=200, tag="helpers")
        chk.decide([{"input": {"registry": reg, "type_string": s}, "obs": o, "oracle_fail": []} for reg, s, o in fcases], fc, {},
                   "Corr.C05.run_f: should_use_cattrs/deser_code = _should_use_cattrs_structure/_get_cattrs_deserialization_code")
        sc = chk.coq_eval(imports, "(registry * rty) * (str * fobs)",
                          [f"(({c_registry(reg)}, {c_ty(t)}), ({cstr(s)}, {c_fobs(o)}))" for reg, t, s, o in scases], "run_show",
                          shard=200, tag="show")
        chk.decide([{"input": {"registry": reg, "type": t}, "obs": [s, o], "oracle_fail": []} for reg, t, s, o in scases], sc, {},
                   "Corr.C05.run_show: show t = rendered string and the helpers on it agree with the model")
    return chk.finish(TRUSTED,
                      rule="corpus + fixed response shapes + seeded random modules (1-3 operations; 1-3 declared 2xx incl. wildcard; "
                           "json/vendor-json/text/binary/event-stream/ndjson/several content types; 20 rendered types) — one case per "
                           "declared 2xx response x content type; non-trivial = has content; plus helper-function cases on raw strings "
                           "and on show(random AST) with random registries")
