(* Shared string / association-list library.  Python [str] = list of code points. *)
From Coq Require Export List NArith Bool Lia.
Export ListNotations.
Open Scope N_scope.

Definition str := list N.

(* ---------- equality ---------- *)
Fixpoint str_eqb (a b : str) : bool :=
  match a, b with
  | [], [] => true
  | x :: a', y :: b' => N.eqb x y && str_eqb a' b'
  | _, _ => false
  end.

Lemma str_eqb_eq : forall a b, str_eqb a b = true <-> a = b.
Proof.
  induction a as [|x a IH]; destruct b as [|y b]; simpl; split; intro H;
    try reflexivity; try discriminate.
  - apply andb_true_iff in H. destruct H as [H1 H2].
    apply N.eqb_eq in H1. apply IH in H2. subst. reflexivity.
  - inversion H; subst. apply andb_true_iff. split.
    + apply N.eqb_refl.
    + apply IH. reflexivity.
Qed.

Lemma str_eqb_refl : forall a, str_eqb a a = true.
Proof. intro a. apply str_eqb_eq. reflexivity. Qed.

Lemma str_eqb_neq : forall a b, str_eqb a b = false <-> a <> b.
Proof.
  intros a b. split.
  - intros H E. apply str_eqb_eq in E. congruence.
  - intro H. destruct (str_eqb a b) eqn:E; [apply str_eqb_eq in E; contradiction | reflexivity].
Qed.

Definition str_eq_dec (a b : str) : {a = b} + {a <> b}.
Proof. decide equality. apply N.eq_dec. Defined.

Fixpoint mem_str (s : str) (l : list str) : bool :=
  match l with
  | [] => false
  | x :: l' => str_eqb s x || mem_str s l'
  end.

Lemma mem_str_In : forall s l, mem_str s l = true <-> In s l.
Proof.
  induction l as [|x l IH]; simpl.
  - split; [discriminate | tauto].
  - rewrite orb_true_iff, IH, str_eqb_eq. split; intros [H|H]; auto.
Qed.

(* ---------- ASCII classes (exact for every code point: non-ASCII is in no class) ---------- *)
Definition is_upper (c : N) : bool := (65 <=? c) && (c <=? 90).
Definition is_lower (c : N) : bool := (97 <=? c) && (c <=? 122).
Definition is_digit (c : N) : bool := (48 <=? c) && (c <=? 57).
Definition is_alpha (c : N) : bool := is_upper c || is_lower c.
Definition is_alnum (c : N) : bool := is_alpha c || is_digit c.
Definition is_ident_start (c : N) : bool := is_alpha c || (c =? 95).
Definition is_ident_char (c : N) : bool := is_alnum c || (c =? 95).
Definition is_ascii (c : N) : bool := c <? 128.

Definition lower_ascii (c : N) : N := if is_upper c then c + 32 else c.
Definition upper_ascii (c : N) : N := if is_lower c then c - 32 else c.

Definition is_ident (s : str) : bool :=
  match s with
  | [] => false
  | c :: r => is_ident_start c && forallb is_ident_char r
  end.

(* ---------- prefix / suffix / search ---------- *)
Fixpoint prefixb (p s : str) : bool :=
  match p, s with
  | [], _ => true
  | x :: p', y :: s' => N.eqb x y && prefixb p' s'
  | _, [] => false
  end.

Definition suffixb (p s : str) : bool := prefixb (rev p) (rev s).

Fixpoint containsb_fuel (fuel : nat) (p s : str) : bool :=
  match fuel with
  | O => prefixb p s
  | S f => prefixb p s || match s with [] => false | _ :: s' => containsb_fuel f p s' end
  end.
Definition containsb (p s : str) : bool := containsb_fuel (length s) p s.

(* ---------- Python-dict-like association lists (insertion ordered) ---------- *)
Section Assoc.
  Context {V : Type}.
  Fixpoint alookup (k : str) (d : list (str * V)) : option V :=
    match d with
    | [] => None
    | (k', v) :: d' => if str_eqb k k' then Some v else alookup k d'
    end.
  (* d[k] = v : replace in place when present, else append *)
  Fixpoint aset (d : list (str * V)) (k : str) (v : V) : list (str * V) :=
    match d with
    | [] => [(k, v)]
    | (k', v') :: d' => if str_eqb k k' then (k', v) :: d' else (k', v') :: aset d' k v
    end.
  Definition aupdate (d e : list (str * V)) : list (str * V) :=
    fold_left (fun acc kv => aset acc (fst kv) (snd kv)) e d.
  Definition akeys (d : list (str * V)) : list str := map fst d.
End Assoc.

(* dict(...) built from a literal / list of pairs: later duplicates win, first position kept *)
Definition dict_of {V} (l : list (str * V)) : list (str * V) := aupdate [] l.

Lemma alookup_aset_same : forall {V} (d : list (str * V)) k v, alookup k (aset d k v) = Some v.
Proof.
  induction d as [|[k' v'] d IH]; intros k v; simpl.
  - rewrite str_eqb_refl. reflexivity.
  - destruct (str_eqb k k') eqn:E; simpl; rewrite E; auto.
Qed.

Lemma alookup_aset_other : forall {V} (d : list (str * V)) k k' v,
  k' <> k -> alookup k' (aset d k v) = alookup k' d.
Proof.
  induction d as [|[k0 v0] d IH]; intros k k' v Hne; simpl.
  - apply str_eqb_neq in Hne. rewrite Hne. reflexivity.
  - destruct (str_eqb k k0) eqn:E; simpl.
    + apply str_eqb_eq in E. subst k0.
      apply str_eqb_neq in Hne. rewrite Hne. reflexivity.
    + destruct (str_eqb k' k0); auto.
Qed.

(* ---------- misc ---------- *)
Definition opt_eqb {A} (eqb : A -> A -> bool) (a b : option A) : bool :=
  match a, b with
  | None, None => true
  | Some x, Some y => eqb x y
  | _, _ => false
  end.

Fixpoint list_eqb {A} (eqb : A -> A -> bool) (a b : list A) : bool :=
  match a, b with
  | [], [] => true
  | x :: a', y :: b' => eqb x y && list_eqb eqb a' b'
  | _, _ => false
  end.

Definition pair_eqb {A B} (ea : A -> A -> bool) (eb : B -> B -> bool) (a b : A * B) : bool :=
  ea (fst a) (fst b) && eb (snd a) (snd b).

Definition join (sep : str) (l : list str) : str :=
  match l with
  | [] => []
  | x :: r => x ++ concat (map (fun y => sep ++ y) r)
  end.
