(* C02 — schema-to-model structure fidelity (no silently lost fields).
   Only statements, [exact], and Print Assumptions live here. *)
From PG Require Import Lib.Strs Model.AllOf Model.Parser Proofs.AllOf Proofs.Parser Gen.T_C02.

(* The allOf merge is exactly the declared semantics over flat parents, for ALL member lists and ALL property lists:
   the value of a key is the one of the first member that defines it, every key appears once and in order of first
   appearance, and `required` is the union. *)
Theorem allof_merge_exact : forall (V : Type) (ms : list (@member V)),
  (forall k, alookup k (merge_props ms) = first_def k ms)
  /\ map fst (merge_props ms) = declared_keys ms
  /\ NoDup (map fst (merge_props ms))
  /\ (forall own k, In k (merge_req own ms) <-> In k own \/ exists m, In m ms /\ In k (snd m)).
Proof. exact (@Proofs.AllOf.allof_merge_exact). Qed.
Print Assumptions allof_merge_exact.

(* The declared semantics is a function of the document alone (independent of the fuel it is computed with). *)
Theorem declared_functional : forall f g S n d1 d2,
  declared_f f S n = Some d1 -> declared_f g S n = Some d2 -> d1 = d2.
Proof. exact declared_f_functional. Qed.
Print Assumptions declared_functional.

Theorem C02_refuted_F02a :
  guard_F02a (parse_doc default_max_depth spec_F02a) = false
  /\ ~ faithful spec_F02a (parse_doc default_max_depth spec_F02a) sUser
  /\ faithful_b (rev spec_F02a) (parse_doc default_max_depth (rev spec_F02a)) sUser = true.
Proof. exact refuted_F02a. Qed.
Print Assumptions C02_refuted_F02a.

Theorem C02_refuted_F02b :
  guard_F02b spec_F02b = false /\ ~ faithful spec_F02b (parse_doc default_max_depth spec_F02b) sUserGroup.
Proof. exact refuted_F02b. Qed.
Print Assumptions C02_refuted_F02b.

Theorem C02_refuted_F02c :
  guard_F02c (parse_doc default_max_depth spec_F02c) = false
  /\ ~ faithful spec_F02c (parse_doc default_max_depth spec_F02c) sChild
  /\ faithful_b (rev spec_F02c) (parse_doc default_max_depth (rev spec_F02c)) sChild = true.
Proof. exact refuted_F02c. Qed.
Print Assumptions C02_refuted_F02c.

Theorem C02_refuted_F02d :
  guard_F02d (parse_doc 3 spec_F02d) = false /\ ~ faithful spec_F02d (parse_doc 3 spec_F02d) (sS 3).
Proof. exact refuted_F02d. Qed.
Print Assumptions C02_refuted_F02d.

Theorem C02_refuted_F02f :
  guard_F02f (parse_doc default_max_depth spec_F02f) = false
  /\ ~ faithful spec_F02f (parse_doc default_max_depth spec_F02f) sTree.
Proof. exact refuted_F02f. Qed.
Print Assumptions C02_refuted_F02f.
