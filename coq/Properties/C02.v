(* C02 — schema-to-model structure fidelity (no silently lost fields).
   Only statements, [exact], and Print Assumptions live here. *)
From PG Require Import Lib.Strs Model.AllOf Model.Parser Model.ModelKind Proofs.AllOf Proofs.Parser Proofs.ModelKind Gen.T_C02.
From Coq Require Import Permutation.

(* The allOf merge is exactly the declared semantics over flat parents, for ALL member lists and ALL property lists:
   the value of a key is the one of the first member that defines it, every key appears once and in order of first
   appearance, and `required` is the union. *)
Theorem allof_merge_exact : forall (V : Type) (ms : list (@member V)),
  (forall k, alookup k (merge_props ms) = first_def k ms)
  /\ map fst (merge_props ms) = declared_keys ms
  /\ NoDup (map fst (merge_props ms))
  /\ (forall own k, In k (merge_req own ms) <-> In k own \/ exists m, In m ms /\ In k (snd m)).
Proof. exact (@Proofs.AllOf.allof_merge_exact). Qed.
Print Assumptions allof_merge_exact.

(* The declared semantics is a function of the document alone (independent of the fuel it is computed with). *)
Theorem declared_functional : forall f g S n d1 d2,
  declared_f f S n = Some d1 -> declared_f g S n = Some d2 -> d1 = d2.
Proof. exact declared_f_functional. Qed.
Print Assumptions declared_functional.

(* PARTIAL (the fragment is restricted, the quantifier is not).  For EVERY document of the core fragment
   ([core_spec]: properties are $refs / primitives / arrays of ($ref | primitive | enum); schemas are such objects,
   allOf over ($ref | such object | primitive | enum), primitives, enums, arrays, maps and oneOf/anyOf of ($ref | primitive | enum); names unique, fixed by the sanitiser, no property key
   equal to a schema name) whose references are acyclic ([ranked_b] with a rank witness rk) and whose deepest $ref
   chain fits the depth limit ([depth_ok]) - any number of schemas, any declaration order, any depth of $ref / allOf
   chains - every declared schema has exactly one model, the model is not a placeholder, and its fields are exactly the
   declared ones: own + inherited through allOf, each with its JSON key, required flag and type reference.
   NOT proved (stated as the goal): the same conclusion for all node shapes (inline objects, maps, unions; needs
   [no_capture]) and for cyclic documents under  guard_F02a && guard_F02b && guard_F02c && guard_F02d. *)
Theorem C02_partial : forall md S rk,
  core_spec S = true -> ranked_b rk S = true -> depth_ok rk S md = true ->
  forall n, In n (map fst S) -> faithful S (parse_doc md S) n.
Proof. exact C02_acyclic. Qed.
Print Assumptions C02_partial.

(* ... and the schema's own model has the structural kind the document gives it: object for objects and allOf,
   list of the item type for arrays, map of the value type, the primitive, enum (same guards as C02_partial). *)
Theorem C02_partial_kind : forall md S rk,
  core_spec S = true -> ranked_b rk S = true -> depth_ok rk S md = true ->
  forall n nd, alookup n S = Some nd ->
  exists e, alookup n (parsed (parse_doc md S)) = Some e /\ kind_ok nd e.
Proof. exact C02_acyclic_kind. Qed.
Print Assumptions C02_partial_kind.

(* On such documents the run takes none of the loss-relevant branches, does not run out of fuel and registers
   every declared schema (so the dynamic guards of the correspondence driver are all true). *)
Theorem C02_acyclic_runs_clean : forall md S rk,
  core_spec S = true -> ranked_b rk S = true -> depth_ok rk S md = true ->
  let s := parse_doc md S in events s = [] /\ oof s = false /\ all_present S s = true.
Proof. exact acyclic_clean. Qed.
Print Assumptions C02_acyclic_runs_clean.

(* Dynamic form (no acyclicity witness needed), on the WIDER fragment [inl_spec]: the properties of a top-level object
   schema may also be inline objects (of core properties), which the parser promotes to the schema <Parent><Prop>;
   the guard contains the executable negation of name capture (all names of the name table [nt] - declared schemas and
   promoted inline objects - are distinct and no property key is one of them) and "every $ref is declared".  Whenever
   the run of the model fires no loss-relevant branch, every declared schema has exactly its declared fields, where an
   inline object property denotes the reference to its promoted schema (ty_of_prop).
   NOT proved for this wider fragment: the static part (acyclic => the run is clean), see the manifest. *)
Theorem C02_partial_clean_runs : forall md S,
  inl_spec S = true ->
  let s := parse_doc md S in
  events s = [] -> oof s = false -> all_present S s = true ->
  forall n, In n (map fst S) -> faithful S s n.
Proof. exact C02_core. Qed.
Print Assumptions C02_partial_clean_runs.

(* The only ways a schema of the core fragment loses fidelity are the logged branches (cycle placeholder stored /
   returned, depth placeholder, early return of an existing or placeholder schema, overwrite, dangling $ref). *)
Theorem C02_loss_only_by_events : forall md S,
  inl_spec S = true ->
  let s := parse_doc md S in
  oof s = false -> all_present S s = true ->
  forall n, In n (map fst S) -> ~ faithful S s n -> events s <> [].
Proof. exact loss_only_by_events. Qed.
Print Assumptions C02_loss_only_by_events.

Theorem C02_guard_nonvacuous :
  (core_spec spec_ok = true /\ ranked_b rk_ok spec_ok = true /\ depth_ok rk_ok spec_ok default_max_depth = true) /\
  core_spec spec_ok = true /\ events (parse_doc default_max_depth spec_ok) = []
  /\ oof (parse_doc default_max_depth spec_ok) = false /\ all_present spec_ok (parse_doc default_max_depth spec_ok) = true
  /\ model_fields (parse_doc default_max_depth spec_ok) sPet
     = Some [(sident, true, TPrim PInteger); (skind, false, TRef sKind); (stag, true, TRef sTag); (snames, false, TList (TPrim PString))].
Proof. exact (conj static_guard_nonvacuous guard_nonvacuous). Qed.
Print Assumptions C02_guard_nonvacuous.

(* Non-vacuity of the wider guard: a document with an inline object property meets inl_spec (not core_spec), its run
   is clean, and the property denotes the promoted schema UserGroup, which carries the inline object's fields. *)
Theorem C02_inl_guard_nonvacuous :
  inl_spec spec_inl = true /\ core_spec spec_inl = false
  /\ events (parse_doc default_max_depth spec_inl) = [] /\ oof (parse_doc default_max_depth spec_inl) = false
  /\ all_present spec_inl (parse_doc default_max_depth spec_inl) = true
  /\ faithful_b spec_inl (parse_doc default_max_depth spec_inl) sUser = true
  /\ model_fields (parse_doc default_max_depth spec_inl) sUser
     = Some [(sgroup, true, TRef sUserGroup); (sname, false, TPrim PString)]
  /\ model_fields (parse_doc default_max_depth spec_inl) sUserGroup
     = Some [(sxx, true, TPrim PString); (sowner, false, TRef sAccount)].
Proof. exact inl_guard_nonvacuous. Qed.
Print Assumptions C02_inl_guard_nonvacuous.

(* core_spec with declared references is an instance of inl_spec *)
Theorem C02_core_is_inl : forall S,
  core_spec S = true -> (forall n nd, In (n, nd) S -> forall m, In m (refs nd) -> In m (map fst S)) -> inl_spec S = true.
Proof. exact core_inl. Qed.
Print Assumptions C02_core_is_inl.

(* Non-vacuity of the widened fragment (top-level map, top-level oneOf/anyOf, allOf with a primitive member). *)
Theorem C02_wide_guard_nonvacuous :
  (core_spec spec_wide = true /\ ranked_b rk_wide spec_wide = true /\ depth_ok rk_wide spec_wide default_max_depth = true)
  /\ model_fields (parse_doc default_max_depth spec_wide) sMixed
     = Some [(sident, true, TPrim PInteger); (slabel, true, TPrim PString); (snote, true, TList TEnum)]
  /\ model_fields (parse_doc default_max_depth spec_wide) sIndex = Some [].
Proof. exact wide_guard_nonvacuous. Qed.
Print Assumptions C02_wide_guard_nonvacuous.

(* Non-vacuity for allOf branches WITHOUT properties (allOf:[{$ref: Base}, {required:[label, owner]}]): the document
   meets the guard of C02_partial, and the inherited properties come out required through two allOf levels. *)
Theorem C02_required_only_branch :
  (core_spec spec_strict = true /\ ranked_b rk_strict spec_strict = true /\ depth_ok rk_strict spec_strict default_max_depth = true)
  /\ model_fields (parse_doc default_max_depth spec_strict) sLeaf
     = Some [(sident, true, TPrim PInteger); (slabel, true, TPrim PString); (sowner, true, TRef sAccount); (snote, false, TPrim PString)]
  /\ declared spec_strict sLeaf = model_fields (parse_doc default_max_depth spec_strict) sLeaf.
Proof. exact required_only_branch. Qed.
Print Assumptions C02_required_only_branch.

(* Regression for the fixed finding F02e (commit 635317b): top-level pure aliases (chained, declared before or after
   the target) get a model with exactly the target's declared fields, and the run fires no loss-relevant branch. *)
Theorem C02_alias_regression :
  all_present spec_alias (parse_doc default_max_depth spec_alias) = true
  /\ events (parse_doc default_max_depth spec_alias) = []
  /\ faithful_b spec_alias (parse_doc default_max_depth spec_alias) sAlias = true
  /\ faithful_b spec_alias (parse_doc default_max_depth spec_alias) sAliasTwo = true
  /\ faithful_b (rev spec_alias) (parse_doc default_max_depth (rev spec_alias)) sAliasTwo = true
  /\ model_fields (parse_doc default_max_depth spec_alias) sAliasTwo
     = Some [(sident, true, TPrim PInteger); (slabel, false, TPrim PString)].
Proof. exact alias_regression. Qed.
Print Assumptions C02_alias_regression.

Theorem C02_refuted_F02a :
  guard_F02a (parse_doc default_max_depth spec_F02a) = false
  /\ ~ faithful spec_F02a (parse_doc default_max_depth spec_F02a) sUser
  /\ faithful_b (rev spec_F02a) (parse_doc default_max_depth (rev spec_F02a)) sUser = true.
Proof. exact refuted_F02a. Qed.
Print Assumptions C02_refuted_F02a.

Theorem C02_refuted_F02b :
  guard_F02b spec_F02b = false /\ ~ faithful spec_F02b (parse_doc default_max_depth spec_F02b) sUserGroup.
Proof. exact refuted_F02b. Qed.
Print Assumptions C02_refuted_F02b.

Theorem C02_refuted_F02c :
  guard_F02c (parse_doc default_max_depth spec_F02c) = false
  /\ ~ faithful spec_F02c (parse_doc default_max_depth spec_F02c) sChild
  /\ faithful_b (rev spec_F02c) (parse_doc default_max_depth (rev spec_F02c)) sChild = true.
Proof. exact refuted_F02c. Qed.
Print Assumptions C02_refuted_F02c.

(* F02d is narrowed by the fix of build_schemas (declared schemas cut off at the limit are re-parsed from depth 0):
   regression - every schema of the $ref chain with depth limit 3 now has exactly its declared fields ... *)
Theorem C02_regression_F02d :
  forallb (fun p => faithful_b spec_F02d (parse_doc 3 spec_F02d) (fst p)) spec_F02d = true.
Proof. exact regression_F02d. Qed.
Print Assumptions C02_regression_F02d.

(* ... what is left: an inline object nested deeper than the limit stays a depth placeholder without fields *)
Theorem C02_refuted_F02d :
  guard_F02d (parse_doc 2 spec_F02d_inline) = false
  /\ exists e, alookup sNodeAlphaBeta (parsed (parse_doc 2 spec_F02d_inline)) = Some e
               /\ flags_of e = 4 /\ fields_of e = [].
Proof. exact refuted_F02d. Qed.
Print Assumptions C02_refuted_F02d.

(* F02f fixed: regression - the array schema whose inline item refers back to it is a real model *)
Theorem C02_regression_F02f :
  faithful_b spec_F02f (parse_doc default_max_depth spec_F02f) sTree = true
  /\ has_ev EvMarked (parse_doc default_max_depth spec_F02f) = false.
Proof. exact regression_F02f. Qed.
Print Assumptions C02_regression_F02f.

(* Order independence (needed by C19): for documents of the fragment of C02_partial, permuting the declarations does not
   change any schema's model fields - for EVERY name n (declared names: both sides equal `declared`; other names: no
   entry on either side).  The guards are required of both orders, as a permutation changes neither of them in
   substance (core_spec, acyclicity and the depth bound do not depend on the order; the rank witness may be reused). *)
Theorem C02_order_independent : forall md S S' rk rk',
  core_spec S = true -> ranked_b rk S = true -> depth_ok rk S md = true ->
  core_spec S' = true -> ranked_b rk' S' = true -> depth_ok rk' S' md = true ->
  Permutation S S' ->
  forall n, model_fields (parse_doc md S) n = model_fields (parse_doc md S') n.
Proof. exact order_independent. Qed.
Print Assumptions C02_order_independent.

(* The visitor's kind decision (Model/ModelKind.v transcribes visit_IRSchema): on the fragment of C02_partial every
   declared object / allOf schema is rendered as a DATACLASS (it is object-typed, carries no oneOf/anyOf of its own, is
   not an enum) whose IR fields are exactly the declared ones.  The rendering of the fields themselves (wire key,
   required, annotation) is NOT modelled: it is checked by the oracle on the emitted modules only. *)
Theorem C02_objects_are_dataclasses : forall md S rk,
  core_spec S = true -> ranked_b rk S = true -> depth_ok rk S md = true ->
  forall n nd, alookup n S = Some nd ->
  (exists ps rq, nd = Obj ps rq) \/ (exists l, nd = AllOf l) ->
  exists e, alookup n (parsed (parse_doc md S)) = Some e /\ model_kind e = KDataclass
            /\ faithful S (parse_doc md S) n.
Proof. exact acyclic_objects_are_dataclasses. Qed.
Print Assumptions C02_objects_are_dataclasses.
