(* C15 - spec text can never alter the structure of generated code: per rendering site, on the lexical
   model Model/Escape.v (CPython string-literal / comment lexer + one function per site + the escapers).
   Only statements, [exact], and Print Assumptions live here.
   After the fix wave every text site of the inventory Gen/T_C15.v has a FULL theorem for all strings of the stated
   domain (F15a-l all repaired). *)
From PG Require Import Lib.Strs Model.Escape Proofs.Escape Gen.T_C15.

(* ---- the lexer: a run of ordinary characters is read back verbatim; json.dumps escaping is read back verbatim *)
Theorem C15_lexer_plain_run : forall tq s X, forallb (plain tq) s = true ->
  lex_go tq Nrm (s ++ X) = prepend s (lex_go tq Nrm X).
Proof. exact run_plain. Qed.
Print Assumptions C15_lexer_plain_run.

Theorem C15_lexer_json_escape : forall tq t X, safe_default t = true ->
  lex_go tq Nrm (json_esc t ++ X) = prepend t (lex_go tq Nrm X).
Proof. exact lex_json_esc. Qed.
Print Assumptions C15_lexer_json_escape.

(* ---- value-carrying sites: the literal evaluates to exactly the original text and ends where the site's text ends *)
(* json.dumps: inert for every string of BMP code points (quotes, backslashes, controls, NUL, lone surrogates included) *)

(* ---- REPAIRED value-carrying sites (fix: commits for F15a/b/i/h/f/j): FULL statements.
   Model files use json.dumps(x, ensure_ascii=False): inert for every string of Unicode scalar values (what a UTF-8
   document can contain).  Endpoint files use python_string_literal (ASCII-only escapes): inert for every string. *)
Theorem C15_lexer_json_raw : forall tq t X, scalar t = true ->
  lex_go tq Nrm (json_raw t ++ X) = prepend t (lex_go tq Nrm X).
Proof. exact lex_json_raw. Qed.
Print Assumptions C15_lexer_json_raw.
Theorem C15_site_enum_value : forall t rest, scalar t = true -> hd_not_quote rest ->
  lex_str (site_enum_value t ++ rest) = Some (t, rest).
Proof. exact json_raw_inert. Qed.
Print Assumptions C15_site_enum_value.
Theorem C15_site_meta_key : forall t rest, scalar t = true -> hd_not_quote rest ->
  lex_str (site_meta_key t ++ rest) = Some (t, rest).
Proof. exact json_raw_inert. Qed.
Print Assumptions C15_site_meta_key.
Theorem C15_site_disc_prop : forall t rest, scalar t = true -> hd_not_quote rest ->
  lex_str (site_disc_prop t ++ rest) = Some (t, rest).
Proof. exact json_raw_inert. Qed.
Print Assumptions C15_site_disc_prop.
Theorem C15_site_disc_value : forall t rest, scalar t = true -> hd_not_quote rest ->
  lex_str (site_disc_value t ++ rest) = Some (t, rest).
Proof. exact json_raw_inert. Qed.
Print Assumptions C15_site_disc_value.
Theorem C15_site_default : forall t rest, scalar t = true -> hd_not_quote rest ->
  lex_str (site_default t ++ rest) = Some (t, rest).
Proof. exact json_raw_inert. Qed.
Print Assumptions C15_site_default.
Theorem C15_site_query_key : forall t rest, in_range t = true -> hd_not_quote rest ->
  lex_str (site_query_key t ++ rest) = Some (t, rest).
Proof. exact ascii_lit_inert. Qed.
Print Assumptions C15_site_query_key.
Theorem C15_site_header_key : forall t rest, in_range t = true -> hd_not_quote rest ->
  lex_str (site_header_key t ++ rest) = Some (t, rest).
Proof. exact ascii_lit_inert. Qed.
Print Assumptions C15_site_header_key.
Theorem C15_site_media_type : forall t rest, in_range t = true -> hd_not_quote rest ->
  lex_str (site_media_type t ++ rest) = Some (t, rest).
Proof. exact ascii_lit_inert. Qed.
Print Assumptions C15_site_media_type.
(* repr(str) (the !r site added by the F04g fix): whatever quote repr chooses and whatever Python's Unicode data base
   classifies as printable above ASCII (oracle pr, with pr_ok: printable => not a surrogate / line separator / out of range) *)
Theorem C15_site_media_repr : forall pr t rest, pr_ok pr -> in_range t = true ->
  match rest with c :: _ => c <> 34 /\ c <> 39 | [] => True end ->
  lex_lit (site_media_repr pr t ++ rest) = Some (t, rest).
Proof. exact media_repr_inert. Qed.
Print Assumptions C15_site_media_repr.
Theorem C15_site_field_comment : forall t, scalar t = true -> single_physical_line (site_field_comment t) = true.
Proof. exact field_comment_inert. Qed.
Print Assumptions C15_site_field_comment.
(* regression: the former witnesses of F15a, F15e, F15f, F15h, F15j now meet the statement *)
Theorem C15_fixed_witnesses :
  lex_str (site_enum_value w_quote ++ []) = Some (w_quote, []) /\ lex_str (site_enum_value w_escn ++ []) = Some (w_escn, []) /\
  single_physical_line (site_field_comment w_cr) = true /\
  lex_str (site_query_key w_quote ++ []) = Some (w_quote, []) /\ lex_str (site_header_key w_ff ++ []) = Some (w_ff, []) /\
  lex_str (site_default w_astral ++ []) = Some (w_astral, []) /\
  lex_str (site_media_type (w_quote ++ w_astral) ++ []) = Some (w_quote ++ w_astral, []).
Proof. repeat split. Qed.
Print Assumptions C15_fixed_witnesses.
Theorem C15_guard_nonvacuous :
  scalar (ex_text ++ [34; 92; 10; 13; 0; 127; 133; 8232; 128512]) = true /\
  in_range (ex_text ++ [34; 39; 92; 10; 0; 55296; 128512]) = true.
Proof. exact guards_nonvacuous. Qed.
Print Assumptions C15_guard_nonvacuous.

(* ---- REPAIRED docstring sites (fix: commits for F15c/d/g/k): the text stays inside one string literal, for every
   string of Unicode scalar values.  escape_docstring_text = NUL -> space, backslash doubled, triple quotes escaped. *)
Theorem C15_site_alias_doc : forall t rest, scalar t = true ->
  site_alias_doc t = [] \/ exists v, lex_str (site_alias_doc t ++ rest) = Some (v, rest).
Proof. exact alias_doc_inert. Qed.
Print Assumptions C15_site_alias_doc.
(* DocumentationWriter: relational (textwrap only edits white space; every line is then escaped) *)
Theorem C15_site_docwriter : forall t out rest, scalar t = true -> site_docwriter_rel t out = true ->
  exists v, lex_str (out ++ rest) = Some (v, rest).
Proof. exact docwriter_inert. Qed.
Print Assumptions C15_site_docwriter.
(* hand-written docstring templates: fixed text pre (no quote/backslash), the escaped value, then a character that is
   neither quote nor backslash and fixed text whose quotes are isolated *)
Theorem C15_site_block_doc : forall pre sep post t rest,
  safe_doc_raw pre = true -> scalar t = true -> sep_ok sep = true -> isoq post = true ->
  exists v, lex_str (site_block_doc pre (sep :: post) t ++ rest) = Some (v, rest).
Proof. exact block_doc_inert. Qed.
Print Assumptions C15_site_block_doc.
Theorem C15_site_block_line : forall t rest, scalar t = true ->
  exists v, lex_str (site_block_line t ++ rest) = Some (v, rest).
Proof. exact block_line_inert. Qed.
Print Assumptions C15_site_block_line.
Theorem C15_site_tag_doc : forall t rest, scalar t = true ->
  exists v, lex_str (site_tag_doc t ++ rest) = Some (v, rest).
Proof. exact tag_doc_inert. Qed.
Print Assumptions C15_site_tag_doc.
Theorem C15_site_client_title : forall version t rest, scalar version = true -> scalar t = true ->
  exists v, lex_str (site_client_title version t ++ rest) = Some (v, rest).
Proof. exact client_title_inert. Qed.
Print Assumptions C15_site_client_title.
(* ---- NOT PROVED (statement kept visible): the client description (site 16, exact functional model
   Escape.site_client_desc = rstrip_q (blank_norm (strip_sp (client_esc t))), validated against the real code on every run):

     (statement) C15_site_client_desc : forall t rest, scalar t = true ->
       exists v, lex_str (q3 ++ 10 :: site_client_desc t ++ 10 :: q3 ++ rest) = Some (v, rest).

   Missing lemmas: (L1) a string with paired backslashes, no NUL/surrogate and no three adjacent quotes, followed by LF,
   stays inside a triple-quoted literal (the analogue of alias_run for an arbitrary such string); (L2) client_esc t is such
   a string (repl3c 34 [39] leaves no three adjacent quotes; repl3c 39 [39] and dbl_bs preserve that); (L3) strip_sp,
   blank_norm and rstrip_q preserve the three conditions (they only delete white space at the ends, blanks of blank-only
   lines, and trailing quotes).  Until then the site is decided by the executable prediction in Corr.C15.site_pred 16
   (the lexer run on the modelled text) against the pipeline oracle, and by the site-level oracle. *)

(* ---- value-carrying forms: the docstring EVALUATES to the documented text, so an escaping bug that changes the text
   without changing the structure is a proof failure.  Stated for texts without a carriage return (a raw CR in a literal
   reads as LF; the layout produced by DocumentationWriter never contains one). *)
Theorem C15_site_docwriter_value : forall t out rest, scalar t = true -> site_docwriter_rel t out = true ->
  exists o, layoutb (nul_sp t) o = true /\ lex_str (out ++ rest) = Some (o, rest).
Proof. exact docwriter_value. Qed.
Print Assumptions C15_site_docwriter_value.
Theorem C15_site_block_doc_value : forall pre sep post t rest,
  safe_doc_raw pre = true -> nocr pre = true -> scalar t = true -> nocr t = true ->
  sep_ok sep = true -> (sep =? 13) = false -> isoq post = true -> nocr post = true ->
  lex_str (site_block_doc pre (sep :: post) t ++ rest) = Some (pre ++ nul_sp t ++ sep :: post, rest).
Proof. exact block_doc_value. Qed.
Print Assumptions C15_site_block_doc_value.
Theorem C15_site_alias_doc_value : forall t rest, t <> [] -> scalar t = true -> nocr t = true ->
  lex_str (site_alias_doc t ++ rest) = Some (s_alias_for ++ nul_sp t, rest).
Proof. exact alias_doc_value. Qed.
Print Assumptions C15_site_alias_doc_value.
(* regression: the former witnesses of F15c, F15d, F15g, F15k *)
Theorem C15_fixed_doc_witnesses :
  (exists v, lex_str (site_alias_doc w_endq ++ []) = Some (v, [])) /\
  (site_docwriter_rel q3 (q3 ++ [10] ++ esc_q3 ++ [10] ++ q3) = true /\
   exists v, lex_str ((q3 ++ [10] ++ esc_q3 ++ [10] ++ q3) ++ []) = Some (v, [])) /\
  (exists v, lex_str (site_client_title [49;46;48] q3 ++ []) = Some (v, [])) /\
  (exists v, lex_str (site_tag_doc q3 ++ []) = Some (v, [])) /\
  (exists v, lex_str (site_block_line w_bsx ++ []) = Some (v, [])).
Proof. exact (conj fixed_F15c (conj fixed_F15d (conj fixed_F15g fixed_F15k))). Qed.
Print Assumptions C15_fixed_doc_witnesses.

(* ---- enum-typed default after the fix of F15l: Name(<literal>) - the literal evaluates to exactly the text *)
Theorem C15_site_enum_default : forall t rest, scalar t = true -> hd_not_quote rest ->
  lex_str (site_enum_default t ++ rest) = Some (t, rest).
Proof. exact json_raw_inert. Qed.
Print Assumptions C15_site_enum_default.
Theorem C15_fixed_F15l : lex_str (site_enum_default w_quote ++ [41]) = Some (w_quote, [41]).
Proof. exact fixed_F15l. Qed.
Print Assumptions C15_fixed_F15l.

(* ---- comment site *)


(* ---- guards are met by non-trivial text (non-ASCII, braces, %; quotes/backslashes/controls where the site escapes) *)

(* ---- every inventoried interpolation site (regenerated from the source on every run) is either not free text (0)
   or one of the modelled sites; bound: the list Gen.T_C15.site_inventory *)
Theorem C15_inventory_modelled :
  forall s, In s site_inventory -> fst s = 0 \/ In (fst s) modelled_sites.
Proof. exact inventory_modelled. Qed.
Print Assumptions C15_inventory_modelled.
