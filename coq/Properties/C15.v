(* C15 — spec text can never alter the structure of generated code (per rendering site). *)
From PG Require Import Lib.Strs Model.Escape Proofs.Escape.

Theorem C15_refuted_F15a : safe_dq_raw w_quote = false /\ lex_str (site_enum_value w_quote ++ []) <> Some (w_quote, []).
Proof. exact dq_raw_refuted. Qed.
Print Assumptions C15_refuted_F15a.
