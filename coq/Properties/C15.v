(* C15 — spec text can never alter the structure of generated code: per rendering site, on the lexical
   model Model/Escape.v (CPython string-literal / comment lexer + one function per site).
   Only statements, [exact], and Print Assumptions live here.
   Every site of the inventory Gen/T_C15.v is refuted at full strength on the unchanged tree (F15a-k) and proved
   under the site's executable guard (the characters that are harmless there), for ALL strings. *)
From PG Require Import Lib.Strs Model.Escape Proofs.Escape Gen.T_C15.

(* ---- the lexer: a run of ordinary characters is read back verbatim; json.dumps escaping is read back verbatim *)
Theorem C15_lexer_plain_run : forall tq s X, forallb (plain tq) s = true ->
  lex_go tq Nrm (s ++ X) = prepend s (lex_go tq Nrm X).
Proof. exact run_plain. Qed.
Print Assumptions C15_lexer_plain_run.

Theorem C15_lexer_json_escape : forall tq t X, safe_default t = true ->
  lex_go tq Nrm (json_esc t ++ X) = prepend t (lex_go tq Nrm X).
Proof. exact lex_json_esc. Qed.
Print Assumptions C15_lexer_json_escape.

(* ---- value-carrying sites: the literal evaluates to exactly the original text and ends where the site's text ends *)
Theorem C15_site_enum_value_partial : forall t rest, safe_dq_raw t = true -> hd_not_quote rest ->
  lex_str (site_enum_value t ++ rest) = Some (t, rest).
Proof. exact dq_raw_inert. Qed.
Print Assumptions C15_site_enum_value_partial.
Theorem C15_site_meta_key_partial : forall t rest, safe_dq_raw t = true -> hd_not_quote rest ->
  lex_str (site_meta_key t ++ rest) = Some (t, rest).
Proof. exact dq_raw_inert. Qed.
Print Assumptions C15_site_meta_key_partial.
Theorem C15_site_disc_prop_partial : forall t rest, safe_dq_raw t = true -> hd_not_quote rest ->
  lex_str (site_disc_prop t ++ rest) = Some (t, rest).
Proof. exact dq_raw_inert. Qed.
Print Assumptions C15_site_disc_prop_partial.
Theorem C15_site_disc_value_partial : forall t rest, safe_dq_raw t = true -> hd_not_quote rest ->
  lex_str (site_disc_value t ++ rest) = Some (t, rest).
Proof. exact dq_raw_inert. Qed.
Print Assumptions C15_site_disc_value_partial.
Theorem C15_site_query_key_partial : forall t rest, safe_dq_block t = true -> hd_not_quote rest ->
  lex_str (site_query_key t ++ rest) = Some (t, rest).
Proof. exact dq_block_inert. Qed.
Print Assumptions C15_site_query_key_partial.
Theorem C15_site_header_key_partial : forall t rest, safe_dq_block t = true -> hd_not_quote rest ->
  lex_str (site_header_key t ++ rest) = Some (t, rest).
Proof. exact dq_block_inert. Qed.
Print Assumptions C15_site_header_key_partial.
Theorem C15_site_media_type_partial : forall t rest, safe_dq_block t = true -> hd_not_quote rest ->
  lex_str (site_media_type t ++ rest) = Some (t, rest).
Proof. exact dq_block_inert. Qed.
Print Assumptions C15_site_media_type_partial.
(* json.dumps: inert for every string of BMP code points (quotes, backslashes, controls, NUL, lone surrogates included) *)
Theorem C15_site_default_partial : forall t rest, safe_default t = true -> hd_not_quote rest ->
  lex_str (site_default t ++ rest) = Some (t, rest).
Proof. exact default_inert. Qed.
Print Assumptions C15_site_default_partial.

(* ---- docstring sites: the text stays inside one string literal *)
Theorem C15_site_alias_doc_partial : forall t rest, safe_alias_doc t = true ->
  site_alias_doc t = [] \/ exists v, lex_str (site_alias_doc t ++ rest) = Some (v, rest).
Proof. exact alias_doc_inert. Qed.
Print Assumptions C15_site_alias_doc_partial.
Theorem C15_site_docwriter_partial : forall t out rest, safe_doc_raw t = true -> site_docwriter_rel t out = true ->
  exists v, lex_str (out ++ rest) = Some (v, rest).
Proof. exact docwriter_inert. Qed.
Print Assumptions C15_site_docwriter_partial.
Theorem C15_site_block_doc_partial : forall pre post t rest,
  safe_doc_raw pre = true -> safe_doc_raw t = true -> isoq post = true ->
  exists v, lex_str (site_block_doc pre post t ++ rest) = Some (v, rest).
Proof. exact block_doc_inert_isoq. Qed.
Print Assumptions C15_site_block_doc_partial.
Theorem C15_site_block_line_partial : forall t rest, safe_doc_raw t = true ->
  exists v, lex_str (site_block_line t ++ rest) = Some (v, rest).
Proof. exact block_line_inert. Qed.
Print Assumptions C15_site_block_line_partial.
Theorem C15_site_tag_doc_partial : forall t rest, safe_doc_raw t = true ->
  exists v, lex_str (site_tag_doc t ++ rest) = Some (v, rest).
Proof. exact tag_doc_inert. Qed.
Print Assumptions C15_site_tag_doc_partial.
Theorem C15_site_client_title_partial : forall version t rest, safe_doc_raw version = true -> safe_doc_raw t = true ->
  exists v, lex_str (site_client_title version t ++ rest) = Some (v, rest).
Proof. exact client_title_inert. Qed.
Print Assumptions C15_site_client_title_partial.

(* ---- enum-typed default: the text is used UNQUOTED as an attribute name; it is an identifier for text made of
   ASCII letters, digits, underscore, dash, space that does not start with a digit *)
Theorem C15_site_enum_default_partial : forall t, safe_enum_default t = true -> is_ident (site_enum_default t) = true.
Proof. exact enum_default_ident. Qed.
Print Assumptions C15_site_enum_default_partial.
Theorem C15_refuted_F15l : safe_enum_default w_quote = false /\ is_ident (site_enum_default w_quote) = false.
Proof. exact enum_default_refuted. Qed.
Print Assumptions C15_refuted_F15l.

(* ---- comment site *)
Theorem C15_site_field_comment_partial : forall t, safe_field_comment t = true ->
  single_physical_line (site_field_comment t) = true.
Proof. exact field_comment_inert. Qed.
Print Assumptions C15_site_field_comment_partial.

(* ---- the full statement is false at every site: witnesses (each replays on the real generator) *)
Theorem C15_refuted_F15a : safe_dq_raw w_quote = false /\ lex_str (site_enum_value w_quote ++ []) <> Some (w_quote, []).
Proof. exact dq_raw_refuted. Qed.
Print Assumptions C15_refuted_F15a.
Theorem C15_refuted_F15a_value : safe_dq_raw w_escn = false /\ lex_str (site_enum_value w_escn ++ []) = Some ([99; 10], []).
Proof. exact dq_raw_refuted_value. Qed.
Print Assumptions C15_refuted_F15a_value.
Theorem C15_refuted_F15b : safe_dq_raw w_quote = false /\ lex_str (site_meta_key w_quote ++ []) <> Some (w_quote, []).
Proof. exact dq_raw_refuted. Qed.
Print Assumptions C15_refuted_F15b.
Theorem C15_refuted_F15c : safe_alias_doc w_endq = false /\ site_alias_doc w_endq <> [] /\
  forall v, lex_str (site_alias_doc w_endq ++ []) <> Some (v, []).
Proof. exact alias_refuted. Qed.
Print Assumptions C15_refuted_F15c.
Theorem C15_refuted_F15d : safe_doc_raw q3 = false /\ site_docwriter_rel q3 w_docw_out = true /\
  forall v, lex_str (w_docw_out ++ []) <> Some (v, []).
Proof. exact docwriter_refuted. Qed.
Print Assumptions C15_refuted_F15d.
Theorem C15_refuted_F15d_escape : safe_doc_raw w_bsx = false /\ site_docwriter_rel w_bsx w_docw_out_bsx = true /\
  lex_str (w_docw_out_bsx ++ []) = None.
Proof. exact docwriter_refuted_bsx. Qed.
Print Assumptions C15_refuted_F15d_escape.
Theorem C15_refuted_F15e : safe_field_comment w_cr = false /\ single_physical_line (site_field_comment w_cr) = false.
Proof. exact comment_refuted. Qed.
Print Assumptions C15_refuted_F15e.
Theorem C15_refuted_F15f : safe_dq_block w_quote = false /\ lex_str (site_query_key w_quote ++ []) <> Some (w_quote, []).
Proof. exact dq_block_refuted. Qed.
Print Assumptions C15_refuted_F15f.
Theorem C15_refuted_F15f_formfeed : safe_dq_block w_ff = false /\ safe_dq_raw w_ff = true /\ lex_str (site_header_key w_ff ++ []) = None.
Proof. exact dq_block_refuted_ff. Qed.
Print Assumptions C15_refuted_F15f_formfeed.
Theorem C15_refuted_F15g : safe_doc_raw q3 = false /\ forall v, lex_str (site_client_title [49;46;48] q3 ++ []) <> Some (v, []).
Proof. exact client_title_refuted. Qed.
Print Assumptions C15_refuted_F15g.
Theorem C15_refuted_F15h : safe_default w_astral = false /\ lex_str (site_default w_astral ++ []) = Some ([55357; 56832], []).
Proof. exact default_refuted. Qed.
Print Assumptions C15_refuted_F15h.
Theorem C15_refuted_F15i : safe_dq_raw w_quote = false /\ lex_str (site_disc_prop w_quote ++ []) <> Some (w_quote, []).
Proof. exact dq_raw_refuted. Qed.
Print Assumptions C15_refuted_F15i.
Theorem C15_refuted_F15j : safe_dq_block w_quote = false /\ lex_str (site_media_type w_quote ++ []) <> Some (w_quote, []).
Proof. exact dq_block_refuted. Qed.
Print Assumptions C15_refuted_F15j.
Theorem C15_refuted_F15k : safe_doc_raw q3 = false /\ forall v, lex_str (site_tag_doc q3 ++ []) <> Some (v, []).
Proof. exact tag_doc_refuted. Qed.
Print Assumptions C15_refuted_F15k.
Theorem C15_refuted_F15k_escape : safe_doc_raw w_bsx = false /\ lex_str (site_block_line w_bsx ++ []) = None.
Proof. exact block_line_refuted. Qed.
Print Assumptions C15_refuted_F15k_escape.

(* ---- guards are met by non-trivial text (non-ASCII, braces, %; quotes/backslashes/controls where the site escapes) *)
Theorem C15_guard_nonvacuous :
  safe_dq_raw ex_text = true /\ safe_dq_block ex_text = true /\ safe_default (ex_text ++ [34; 92; 10; 0; 127; 55296]) = true /\
  safe_doc_raw (ex_text ++ [10; 13; 9]) = true /\ safe_field_comment (ex_text ++ [34; 92; 10; 12; 8232]) = true /\
  safe_alias_doc (ex_text ++ [34; 34; 34; 34; 92; 34; 92; 110; 13; 10; 120]) = true.
Proof. exact guards_nonvacuous. Qed.
Print Assumptions C15_guard_nonvacuous.

(* ---- every inventoried interpolation site (regenerated from the source on every run) is either not free text (0)
   or one of the modelled sites; bound: the list Gen.T_C15.site_inventory *)
Theorem C15_inventory_modelled :
  forall s, In s site_inventory -> fst s = 0 \/ In (fst s) modelled_sites.
Proof. exact inventory_modelled. Qed.
Print Assumptions C15_inventory_modelled.
