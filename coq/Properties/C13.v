(* C13 — endpoint clients, their Protocols and their mocks have identical surfaces.
   Only statements, [exact], and Print Assumptions live here. *)
From PG Require Import Lib.Strs Model.Tags Model.Surface Proofs.Tags Proofs.Surface.

(* For EVERY well-formed signature (any name without "(", any number of arguments whose text has no
   surrounding white space, does not start with ")" and does not end in ":" "," or ": ...", any return
   annotation), any list of well-formed @overload blocks before it and ANY body after it:
   the Protocol scanner outputs the overload stubs verbatim followed by one block that declares exactly
   the same name, argument texts (names, order, annotations, defaults) and return annotation, as a stub,
   `async def` for a coroutine and plain `def` for an async generator.  FULL on the line-level model. *)
Theorem C13_stub_exact : forall ovs s body, wf_sig s = true -> forallb wf_args ovs = true ->
  exists blk,
    extract_protocol (render_method ovs s body) = flat_map stripped_overload ovs ++ blk ++ [[]]
    /\ read_sig blk = Some (proto_view s).
Proof. exact stub_exact. Qed.
Print Assumptions C13_stub_exact.

(* ... and the mock scanner outputs the same overload stubs, the very signature block (`async def`, same
   arguments, same return), and a body that raises NotImplementedError, with an unreachable `yield`
   exactly when the signature text mentions AsyncIterator.  FULL on the line-level model. *)
Theorem C13_mock_exact : forall who ovs s body, wf_sig s = true -> forallb wf_args ovs = true ->
  exists blk,
    to_mock who (render_method ovs s body) = flat_map stripped_overload ovs ++ blk ++ mock_body who (mock_gen s)
    /\ read_sig blk = Some (mock_view s)
    /\ In (k_raise_pre ++ who ++ k_raise_post) (mock_body who (mock_gen s))
    /\ (In k_yield (mock_body who (mock_gen s)) <-> mock_gen s = true).
Proof. exact mock_exact. Qed.
Print Assumptions C13_mock_exact.

(* line-for-line versions *)
Theorem C13_protocol_lines : forall ovs s body, forallb wf_args ovs = true -> wf_args s = true ->
  extract_protocol (render_method ovs s body)
  = flat_map stripped_overload ovs ++ sig_lines (proto_kw s) k_stub_end s ++ [[]].
Proof. exact extract_protocol_exact. Qed.
Print Assumptions C13_protocol_lines.

Theorem C13_mock_lines : forall who ovs s body, forallb wf_args ovs = true -> wf_args s = true ->
  to_mock who (render_method ovs s body)
  = flat_map stripped_overload ovs ++ sig_lines k_async_def k_colon s ++ mock_body who (mock_gen s).
Proof. exact to_mock_exact. Qed.
Print Assumptions C13_mock_lines.

Theorem C13_wf_nonvacuous : wf_sig sig_stream = true /\ wf_sig sig_star = true /\ proto_kw sig_stream = k_def
  /\ mock_gen sig_stream = true /\ mock_gen sig_star = false.
Proof. exact wf_nonvacuous. Qed.
Print Assumptions C13_wf_nonvacuous.

(* F13c fixed: for EVERY signature the two scanners agree on "async generator" (both test the closing line for
   ") -> AsyncIterator["), and the old witnesses keep `async def` / get no `yield`. *)
Theorem C13_scanners_agree : forall s, mock_gen s = proto_gen s.
Proof. exact scanners_agree. Qed.
Print Assumptions C13_scanners_agree.

Theorem C13_fixed_F13c :
  wf_sig sig_ai_ret = true /\ proto_kw sig_ai_ret = k_async_def /\ mock_gen sig_ai_ret = false
  /\ wf_sig sig_disagree = true /\ proto_kw sig_disagree = k_async_def /\ mock_gen sig_disagree = false.
Proof. exact fixed_F13c. Qed.
Print Assumptions C13_fixed_F13c.

(* Grouping.  Under single_tag and tags_spelled_uniformly, for ALL operation lists and all
   normalisation / scoring functions: the mock groups are the endpoint groups (same keys up to
   normalisation, same operations, same order), the canonical tag chosen for each key by the emitter —
   and hence by ClientVisitor (C07_clients_mirror) — is the raw tag MocksEmitter uses, and every mock
   group is found under its key.  The equality of the two property-name sets is C13_same_tags_partial below. *)
Theorem C13_partial : forall tag_key score l,
  guard_F13a l = true -> guard_F13b tag_key l = true ->
  keyify tag_key (mock_groups l) = group tag_key l
  /\ emitter_tags tag_key score l = map (fun tg => (tag_key (fst tg), fst tg)) (mock_groups l)
  /\ same_methods tag_key l.
Proof.
  intros tk sc l Ha Hb. pose proof (guard_F13a_single l Ha) as S. pose proof (guard_F13b_uniform tk l Hb) as U.
  split; [exact (groups_agree tk l S U) | split; [exact (tags_agree tk sc l S U) | exact (same_methods_partial tk l S U)]].
Qed.
Print Assumptions C13_partial.

(* MockAPIClient and APIClient expose the same tag properties: for every operation list, under single_tag
   [F13a], tags_spelled_uniformly [F13b] and pairwise distinct identifier module names (the C07 guard,
   negation of F07e), both files are importable and the two property-name sets are equal.  FULL on the
   model (sorting = permutation, no overwrite, identifier checks included). *)
Theorem C13_same_tags_partial : forall mn tk ta tc sc pid l,
  guard_F13a l = true -> guard_F13b tk l = true ->
  modules_ok tk ta sc pid (emitted_ops mn l) = true ->
  same_tags mn tk ta tc sc pid l.
Proof. exact same_tags_partial. Qed.
Print Assumptions C13_same_tags_partial.

Theorem C13_guard_nonvacuous :
  single_tag ops_ok13 /\ uniform key_F07c (map first_tag ops_ok13) /\ length (mock_groups ops_ok13) = 2%nat.
Proof. exact grouping_guard_nonvacuous. Qed.
Print Assumptions C13_guard_nonvacuous.

Theorem C13_refuted_F13a :
  guard_F13a ops_F13a = false
  /\ mock_props idf key_F07c ident_any ops_F13a = Some [s_users]
  /\ client_props idf key_F07c key_F07c idf no_score ident_any ops_F13a = Some [s_admin; s_users]
  /\ ~ same_tags idf key_F07c key_F07c idf no_score ident_any ops_F13a.
Proof. exact refuted_F13a. Qed.
Print Assumptions C13_refuted_F13a.

Theorem C13_refuted_F13b :
  guard_F13a ops_F13b = true /\ guard_F13b key_F07c ops_F13b = false
  /\ mock_props idf key_F07c ident_any ops_F13b = None
  /\ mock_files idf key_F07c idf ops_F13b = [(s_users, (k_Mock ++ s_users ++ s_Client, [s_b]))]
  /\ ~ same_methods key_F07c ops_F13b.
Proof. exact refuted_F13b. Qed.
Print Assumptions C13_refuted_F13b.

Theorem C13_fixed_F01e :
  mock_props idf idf ident_any [] = Some [] /\ client_props idf idf idf idf no_score ident_any [] = Some []
  /\ same_tags idf idf idf idf no_score ident_any [].
Proof. exact fixed_F01e. Qed.
Print Assumptions C13_fixed_F01e.
