From PG Require Import Lib.Strs Model.Tags Model.Surface Proofs.Surface.
Theorem C13_placeholder : strip [32;97;32] = [97].
Proof. exact placeholder. Qed.
Print Assumptions C13_placeholder.
