(* C13 — endpoint clients, their Protocols and their mocks have identical surfaces.
   Only statements, [exact], and Print Assumptions live here. *)
From PG Require Import Lib.Strs Model.Tags Model.Surface Proofs.Tags Proofs.Surface.

(* For EVERY well-formed signature (any name without "(", any number of arguments whose text has no
   surrounding white space, does not start with ")" and does not end in ":" "," or ": ...", any return
   annotation), any list of well-formed @overload blocks before it and ANY body after it:
   the Protocol scanner outputs the overload stubs verbatim followed by one block that declares exactly
   the same name, argument texts (names, order, annotations, defaults) and return annotation, as a stub,
   `async def` for a coroutine and plain `def` for an async generator.  FULL on the line-level model. *)
Theorem C13_stub_exact : forall ovs s body, wf_sig s = true -> forallb wf_args ovs = true ->
  exists blk,
    extract_protocol (render_method ovs s body) = flat_map stripped_overload ovs ++ blk ++ [[]]
    /\ read_sig blk = Some (proto_view s).
Proof. exact stub_exact. Qed.
Print Assumptions C13_stub_exact.

(* ... and the mock scanner outputs the same overload stubs, the very signature block (`async def`, same
   arguments, same return), and a body that raises NotImplementedError, with an unreachable `yield`
   exactly when the signature text mentions AsyncIterator.  FULL on the line-level model. *)
Theorem C13_mock_exact : forall who ovs s body, wf_sig s = true -> forallb wf_args ovs = true ->
  exists blk,
    to_mock who (render_method ovs s body) = flat_map stripped_overload ovs ++ blk ++ mock_body who (mock_gen s)
    /\ read_sig blk = Some (mock_view s)
    /\ In (k_raise_pre ++ who ++ k_raise_post) (mock_body who (mock_gen s))
    /\ (In k_yield (mock_body who (mock_gen s)) <-> mock_gen s = true).
Proof. exact mock_exact. Qed.
Print Assumptions C13_mock_exact.

(* line-for-line versions *)
Theorem C13_protocol_lines : forall ovs s body, forallb wf_args ovs = true -> wf_args s = true ->
  extract_protocol (render_method ovs s body)
  = flat_map stripped_overload ovs ++ sig_lines (proto_kw s) k_stub_end s ++ [[]].
Proof. exact extract_protocol_exact. Qed.
Print Assumptions C13_protocol_lines.

Theorem C13_mock_lines : forall who ovs s body, forallb wf_args ovs = true -> wf_args s = true ->
  to_mock who (render_method ovs s body)
  = flat_map stripped_overload ovs ++ sig_lines k_async_def k_colon s ++ mock_body who (mock_gen s).
Proof. exact to_mock_exact. Qed.
Print Assumptions C13_mock_lines.

Theorem C13_wf_nonvacuous : wf_sig sig_stream = true /\ wf_sig sig_star = true /\ proto_kw sig_stream = k_def
  /\ mock_gen sig_stream = true /\ mock_gen sig_star = false.
Proof. exact wf_nonvacuous. Qed.
Print Assumptions C13_wf_nonvacuous.

(* F13c fixed: for EVERY signature the two scanners agree on "async generator" (both test the closing line for
   ") -> AsyncIterator["), and the old witnesses keep `async def` / get no `yield`. *)
Theorem C13_scanners_agree : forall s, mock_gen s = proto_gen s.
Proof. exact scanners_agree. Qed.
Print Assumptions C13_scanners_agree.

Theorem C13_fixed_F13c :
  wf_sig sig_ai_ret = true /\ proto_kw sig_ai_ret = k_async_def /\ mock_gen sig_ai_ret = false
  /\ wf_sig sig_disagree = true /\ proto_kw sig_disagree = k_async_def /\ mock_gen sig_disagree = false.
Proof. exact fixed_F13c. Qed.
Print Assumptions C13_fixed_F13c.

(* Grouping (after the fix of F13a/F13b: MocksEmitter takes its groups from ClientVisitor.tag_tuples).
   FULL, for ALL operation lists and all normalisation / scoring functions: the filter MocksEmitter applies
   for a key is exactly the endpoint group of that key; no canonical tag repeats and no mock group is empty,
   so the mock groups are one per tag key in ClientVisitor's order; every mock group is the endpoint group of
   its tag (same operations, same order). *)
Theorem C13_full_ops_of_key : forall tag_key l k,
  ops_of_key tag_key k l = alookup_l k (group tag_key l).
Proof. intros tk l k. exact (ops_of_key_group idf tk idf idf no_score (fun _ => true) l k). Qed.
Print Assumptions C13_full_ops_of_key.

Theorem C13_full_groups : forall tag_key score l,
  mock_groups tag_key score l = map (mg_entry tag_key l) (sort_by_key (emitter_tags tag_key score l)).
Proof. intros tk sc l. exact (mock_groups_eq idf tk idf idf sc (fun _ => true) l). Qed.
Print Assumptions C13_full_groups.

Theorem C13_full_methods : forall tag_key score l, same_methods tag_key score l.
Proof. intros tk sc l. exact (same_methods_full idf tk idf idf sc (fun _ => true) l). Qed.
Print Assumptions C13_full_methods.

(* MockAPIClient and APIClient expose the same tag properties: for every operation list whose canonical module
   names are pairwise distinct identifiers (modules_ok: the C07 guard, negation of the open finding F07e) both
   files are importable and the two property-name sets are equal.  No F13 guard is left. *)
Theorem C13_full_tags : forall mn tk ta tc sc pid l,
  modules_ok tk ta sc pid (emitted_ops mn l) = true ->
  same_tags mn tk ta tc sc pid l.
Proof. exact same_tags_full. Qed.
Print Assumptions C13_full_tags.

(* regressions of the fixed findings: the old witnesses meet the spec *)
Theorem C13_fixed_F13a :
  mock_props idf key_F07c key_F07c no_score ident_any ops_F13a = Some [s_admin; s_users]
  /\ client_props idf key_F07c key_F07c idf no_score ident_any ops_F13a = Some [s_admin; s_users]
  /\ map (fun tg => (fst tg, map o_id (snd tg))) (mock_groups key_F07c no_score ops_F13a) = [(s_admin, [s_a]); (s_Users, [s_a])].
Proof. exact fixed_F13a. Qed.
Print Assumptions C13_fixed_F13a.

Theorem C13_fixed_F13b :
  mock_props idf key_F07c key_F07c no_score ident_any ops_F13b = Some [s_users]
  /\ client_props idf key_F07c key_F07c idf no_score ident_any ops_F13b = Some [s_users]
  /\ map (fun tg => map o_id (snd tg)) (mock_groups key_F07c no_score ops_F13b) = [[s_a; s_b]]
  /\ mock_files idf key_F07c key_F07c idf no_score ops_F13b = [(s_users, (k_Mock ++ s_users ++ s_Client, [s_a; s_b]))].
Proof. exact fixed_F13b. Qed.
Print Assumptions C13_fixed_F13b.

Theorem C13_fixed_F01e :
  mock_props idf idf idf no_score ident_any [] = Some [] /\ client_props idf idf idf idf no_score ident_any [] = Some []
  /\ same_tags idf idf idf idf no_score ident_any [].
Proof. exact fixed_F01e. Qed.
Print Assumptions C13_fixed_F01e.

