(* C07 — every operation is reachable exactly once per tag; none silently dropped.
   Only statements, [exact], and Print Assumptions live here.  Every theorem of the first block
   is quantified over ALL name-sanitisation functions (method_name, tag_key, …): nothing is
   assumed about NameSanitizer. *)
From PG Require Import Lib.Strs Model.Tags Proofs.Tags.

(* The two hand-copied tag groupings (EndpointsEmitter.emit / ClientVisitor.visit) choose the same
   canonical tag for the same keys, in the same order, for every operation list; ClientVisitor's
   max() never sees an empty candidate list.  FULL. *)
Theorem C07_clients_mirror : forall tag_key score l,
  client_tags tag_key score l = Some (emitter_tags tag_key score l).
Proof. exact clients_mirror. Qed.
Print Assumptions C07_clients_mirror.

(* A document whose operations are well typed (mapping nodes, named parameters, mapping response nodes under any key, list tags, non-empty derived id) loses no operation in parse_operations.  FULL on the model
   of the explicit raise conditions. *)
Theorem C07_none_dropped : forall method_name clean_id st doc,
  typed_doc method_name clean_id st doc ->
  parse method_name clean_id st doc = map (mk_op method_name clean_id st) (ops doc)
  /\ length (parse method_name clean_id st doc) = length (ops doc).
Proof. exact none_dropped. Qed.
Print Assumptions C07_none_dropped.

(* F07f fixed.  FULL: for every document, if some operation cannot be represented (is skipped by the parser)
   generation fails instead of omitting it. *)
Theorem C07_visible_failure : forall mn tk ta tc cl sc pid st doc,
  visible_failure mn tk ta tc cl sc pid st doc.
Proof. exact visible_failure_full. Qed.
Print Assumptions C07_visible_failure.

(* EndpointsEmitter's grouping, characterised for all operation lists: the group of key k lists every
   operation once per tag of it that normalises to k, in document order *)
Theorem C07_group_lookup : forall tag_key l k,
  alookup_l k (group tag_key l) = flat_map (contrib tag_key k) l.
Proof. exact group_lookup. Qed.
Print Assumptions C07_group_lookup.

(* method names already unique => the de-dup pass changes nothing (so the second emit() is harmless) *)
Theorem C07_dedup_fix : forall method_name l,
  NoDup (map (fun o => method_name (o_id o)) l) -> dedup_ops method_name l = l.
Proof. exact dedup_fix. Qed.
Print Assumptions C07_dedup_fix.

(* F07a fixed.  For EVERY operation list: whenever the suffix search succeeds within the model bound
   (|used|+1 candidates; it always does when different suffixes sanitise to different names), the
   de-duplicated method names are pairwise distinct, and the pass is idempotent, so the second emit()
   of the direct path changes nothing. *)
Theorem C07_names_unique : forall method_name l, dedup_total method_name l = true ->
  emitted_ops method_name l = dedup_ops method_name l
  /\ NoDup (map (fun o => method_name (o_id o)) (emitted_ops method_name l)).
Proof. exact emitted_unique. Qed.
Print Assumptions C07_names_unique.

(* F07c fixed.  FULL: for every operation list with distinct (METHOD, path) pairs and every
   normalisation function, each operation is exactly once in the group of each of its tags, however the
   tags are spelled; and globally unique method names are unique per client. *)
Theorem C07_once_per_tag : forall tag_key l, distinct_ops l -> once_per_tag tag_key l.
Proof. exact once_per_tag_full. Qed.
Print Assumptions C07_once_per_tag.

Theorem C07_names_unique_per_client : forall method_name tag_key e,
  NoDup (map (fun o => method_name (o_id o)) e) -> names_unique method_name tag_key e.
Proof. exact names_unique_full. Qed.
Print Assumptions C07_names_unique_per_client.

(* names follow the strategy: position by position, an emitted operation is the parsed one with
   id = derive_id strategy op, followed by at most two "_<k>" suffixes (one per de-dup pass) *)
Theorem C07_strategy : forall method_name clean_id st doc,
  exists mid,
    Forall2 suffixed (map (mk_op method_name clean_id st)
                          (filter (parse_op_ok method_name clean_id st) (ops doc))) mid
    /\ Forall2 suffixed mid (emitted_ops method_name (parse method_name clean_id st doc)).
Proof. exact strategy_shape. Qed.
Print Assumptions C07_strategy.

(* The property on the model under the guard: (METHOD, path) pairs distinct, no operation skipped
   [F07f], the de-dup search stays within the model bound  ==>  no operation is lost, each is exactly once in the group of each of its tags, method
   names are unique per client, and APIClient's tag table equals the emitter's.
   The last step groups -> files/properties is C07_files_exact / C07_reachable below (guard F07e). *)
Theorem C07_partial : forall method_name tag_key clean_id score st doc,
  doc_distinct doc ->
  guard_F07f method_name clean_id st doc = true ->
  dedup_total method_name (parse method_name clean_id st doc) = true ->
  let e := emitted_ops method_name (parse method_name clean_id st doc) in
  length e = length (ops doc)
  /\ once_per_tag tag_key e
  /\ names_unique method_name tag_key e
  /\ client_tags tag_key score e = Some (emitter_tags tag_key score e).
Proof. exact partial. Qed.
Print Assumptions C07_partial.

(* Groups -> files on disk -> APIClient properties (the step C07_partial leaves out).  For EVERY operation
   list and all sanitiser functions, under the guard "the module names of the canonical tags are pairwise
   distinct Python identifiers" (modules_ok; it follows from the check's guards F07e and F07d by
   C07_guards_modules_ok): every group is written to its own endpoints file (nothing is overwritten),
   client.py is importable, APIClient's tag properties are — up to sorting — exactly one (module, class)
   per group with pairwise distinct names, and each group's property names the module whose file defines
   exactly that group's methods.  FULL on the model. *)
Theorem C07_files_exact : forall mn tk ta tc sc pid l, let e := emitted_ops mn l in
  modules_ok tk ta sc pid e = true ->
  files_of mn tk ta tc sc l = map (file_of mn tk ta tc sc e) (group tk e) /\ NoDup (map fst (files_of mn tk ta tc sc l)).
Proof. exact files_exact. Qed.
Print Assumptions C07_files_exact.

Theorem C07_reachable : forall mn tk ta tc sc pid l, let e := emitted_ops mn l in
  modules_ok tk ta sc pid e = true ->
  exists t,
    props_of mn tk ta tc sc pid l = Some t
    /\ Permutation.Permutation t (map (prop_of ta tc) (emitter_tags tk sc e))
    /\ NoDup (map fst t)
    /\ forall k g, In (k, g) (group tk e) ->
         let c := canonical_of (emitter_tags tk sc e) k in
         In (ta c, class_of tc c) t
         /\ alookup (ta c) (files_of mn tk ta tc sc l) = Some (class_of tc c, map (fun o => mn (o_id o)) g).
Proof. exact reachable. Qed.
Print Assumptions C07_reachable.

Theorem C07_guards_modules_ok : forall tk ta tc sc pid l,
  guard_F07e tk ta tc l = true -> guard_F07d ta pid l = true -> modules_ok tk ta sc pid l = true.
Proof. exact guards_modules_ok. Qed.
Print Assumptions C07_guards_modules_ok.

Theorem C07_guard_nonvacuous :
  doc_distinct doc_ok
  /\ guard_F07f idf no_clean SOpId doc_ok = true
  /\ dedup_total idf (parse idf no_clean SOpId doc_ok) = true
  /\ length (ops doc_ok) = 2%nat
  /\ map o_id (emitted_ops idf (parse idf no_clean SOpId doc_ok)) = [s_a; s_a ++ [95;50]].
Proof. exact guard_nonvacuous. Qed.
Print Assumptions C07_guard_nonvacuous.

(* ---------- refutations of the unguarded statement (witnesses replayed on the code each run) ---------- *)
(* regressions of the two fixed findings: the old witnesses now meet the spec *)
Theorem C07_fixed_F07a :
  map o_id (dedup_ops idf ids_F07a1) = [s_foo; s_foo_2; s_foo_2_2]
  /\ dedup_ops idf (dedup_ops idf ids_F07a1) = dedup_ops idf ids_F07a1
  /\ map o_id (emitted_ops idf ids_F07a) = [s_foo; s_foo_2; s_foo_2_2; s_foo_2_2 ++ [95;50]]
  /\ dedup_total idf ids_F07a = true
  /\ NoDup (map (fun o => idf (o_id o)) (emitted_ops idf ids_F07a)).
Proof. exact fixed_F07a. Qed.
Print Assumptions C07_fixed_F07a.

Theorem C07_fixed_F07b :
  guard_F07f idf no_clean SOpId doc_F07b = true
  /\ length (parse idf no_clean SOpId doc_F07b) = length (ops doc_F07b)
  /\ length (ops doc_F07b) = 2%nat.
Proof. exact fixed_F07b. Qed.
Print Assumptions C07_fixed_F07b.

Theorem C07_fixed_F07f :
  guard_F07f idf no_clean SOpId doc_F07f = false
  /\ generate idf idf idf idf no_clean no_score (fun _ => true) SOpId doc_F07f = Failed.
Proof. exact fixed_F07f. Qed.
Print Assumptions C07_fixed_F07f.

Theorem C07_fixed_F07c :
  group key_F07c [op_F07c] = [(s_users, [op_F07c])]
  /\ candidates key_F07c [op_F07c] = [(s_users, [s_Users; s_users])]
  /\ once_per_tag key_F07c [op_F07c].
Proof. exact fixed_F07c. Qed.
Print Assumptions C07_fixed_F07c.

Theorem C07_fixed_F07d :
  guard_F07d attr_F07d ident_F07d ops_F07d = true
  /\ props idf key_F07d attr_F07d class_F07d no_score ident_F07d ops_F07d
     = Some [(s_unnamed, s_UnnamedClass ++ s_Client); (s_default, s_default ++ s_Client)].
Proof. exact fixed_F07d. Qed.
Print Assumptions C07_fixed_F07d.

Theorem C07_refuted_F07e_unnamed :
  guard_F07e key_F07d attr_F07d class_F07d ops_F07e2 = false
  /\ length (group key_F07d (emitted_ops idf ops_F07e2)) = 2%nat
  /\ length (files idf key_F07d attr_F07d class_F07d no_score ops_F07e2) = 1%nat.
Proof. exact refuted_F07e_unnamed. Qed.
Print Assumptions C07_refuted_F07e_unnamed.

Theorem C07_refuted_F07e :
  guard_F07e idf attr_F07e class_F07e ops_F07e = false
  /\ length (group idf (emitted_ops idf ops_F07e)) = 2%nat
  /\ files idf idf attr_F07e class_F07e no_score ops_F07e = [(s_caf, (s_Caf ++ s_Client, [s_b]))].
Proof. exact refuted_F07e. Qed.
Print Assumptions C07_refuted_F07e.
