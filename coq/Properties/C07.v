(* C07 — every operation is reachable exactly once per tag; none silently dropped. *)
From PG Require Import Lib.Strs Model.Tags Proofs.Tags.

Theorem C07_refuted_F07a_single :
  ~ NoDup (map (fun o => idf (o_id o)) (dedup_ops idf ids_F07a)).
Proof. exact refuted_F07a_single. Qed.
Print Assumptions C07_refuted_F07a_single.
