(* C14 — union values are decoded as the right variant, never lossily.
   Only statements, [exact], and Print Assumptions live here. *)
From PG Require Import Lib.Strs Model.Union Proofs.Union.
From Coq Require Import ZArith.

(* With a discriminator whose mapping sends the payload's discriminator value d to V, the result IS
   the structuring of V (a V or an error) — whatever the other variants and their order are. *)
Theorem C14_disc_exact : forall p m vs kv d V,
  NoDup (map fst m) -> In (d, V) m -> alookup p kv = Some (JStr d) ->
  structure_union (Some (p, m)) vs (JObj kv) = structure V (JObj kv).
Proof. exact disc_exact. Qed.
Print Assumptions C14_disc_exact.

(* A discriminator value (of any JSON kind) outside a non-empty mapping is an error, not a guess. *)
Theorem C14_disc_unknown : forall p m vs kv dv,
  m <> [] -> alookup p kv = Some dv ->
  (forall s, dv = JStr s -> ~ In s (map fst m)) ->
  structure_union (Some (p, m)) vs (JObj kv) = Err.
Proof. exact disc_unknown. Qed.
Print Assumptions C14_disc_unknown.

(* A payload whose mapped variant fails to decode is reported; no other variant is tried. *)
Theorem C14_no_retry : forall p m vs kv d V,
  NoDup (map fst m) -> In (d, V) m -> alookup p kv = Some (JStr d) ->
  structure V (JObj kv) = Err ->
  structure_union (Some (p, m)) vs (JObj kv) = Err.
Proof. exact no_retry. Qed.
Print Assumptions C14_no_retry.

(* C14_lossless (full statement, kept for reference — it is FALSE on the faithful model, see the
   C14_refuted_* witnesses below):
     forall d vs k j, conforms (nth k vs TNone) j = true -> lossless (TUnion d vs) j.
   What holds: the full conclusion (decode succeeds and the re-encoding carries every key/value of
   the payload) for EVERY type and payload — unions nested in lists, maps, fields, Optional, other
   unions, with or without discriminator — under the executable, hereditary guard [safe], which at
   each union node demands that the first variant of the tried category whose SHAPE may accept the
   payload (all required keys present / primitive or container kind coercible) is a variant the
   payload safely conforms to, that a mapped discriminator value leads to such a variant, and that
   a dict payload that no dataclass variant may accept reaches a raw-dict / typed-map variant it safely conforms to. *)
Theorem C14_lossless_partial : forall t j, safe t j = true -> lossless t j.
Proof. exact safe_lossless. Qed.
Print Assumptions C14_lossless_partial.

(* the guard in the "separated" form of the design: an object payload of the dataclass variant at
   position k is decoded losslessly when every earlier dataclass variant lacks one of its required
   keys in the payload ... *)
Theorem C14_lossless_separated_obj : forall vs k n fs kv,
  nth_error vs k = Some (TObj n fs) ->
  safe (TObj n fs) (JObj kv) = true ->
  (forall i n' fs', (i < k)%nat -> nth_error vs i = Some (TObj n' fs') -> required_present fs' kv = false) ->
  lossless (TUnion None vs) (JObj kv).
Proof. exact lossless_separated_obj. Qed.
Print Assumptions C14_lossless_separated_obj.

(* ... a scalar / array payload of the variant at position k when no earlier non-dataclass variant
   can coerce that kind of payload ... *)
Theorem C14_lossless_separated_other : forall vs k v j,
  j <> JNull -> (forall kv, j <> JObj kv) ->
  nth_error vs k = Some v -> is_other v = true -> safe v j = true ->
  (forall i w, (i < k)%nat -> nth_error vs i = Some w -> is_other w = true -> may_accept w j = false) ->
  lossless (TUnion None vs) j.
Proof. exact lossless_separated_other. Qed.
Print Assumptions C14_lossless_separated_other.

(* ... and with a mapping, the payload of the variant its discriminator value names — in any
   variant order and whatever the other variants are. *)
Theorem C14_lossless_mapped : forall p m vs kv d V,
  NoDup (map fst m) -> In (d, V) m -> alookup p kv = Some (JStr d) ->
  safe V (JObj kv) = true ->
  lossless (TUnion (Some (p, m)) vs) (JObj kv).
Proof. exact lossless_mapped. Qed.
Print Assumptions C14_lossless_mapped.

Theorem C14_guard_nonvacuous :
  exists t j, safe t j = true /\ (exists d vs, t = TUnion d vs /\ (length vs >= 4)%nat) /\ j <> JNull.
Proof. exact guard_nonvacuous. Qed.
Print Assumptions C14_guard_nonvacuous.

Theorem C14_refuted_F14a :
  conforms (nth 1 [tA; tB] TNone) j_F14a = true /\ safe u_F14a j_F14a = false /\
  structure u_F14a j_F14a = Ok (VObj [65] [(k_x, VInt 1%Z)]) /\ ~ lossless u_F14a j_F14a.
Proof. exact refuted_F14a. Qed.
Print Assumptions C14_refuted_F14a.

Theorem C14_refuted_F14b :
  conforms (nth 1 [TStr; TInt] TNone) j_F14b = true /\ safe u_F14b j_F14b = false /\
  structure u_F14b j_F14b = Ok (VStr [53]) /\ ~ lossless u_F14b j_F14b.
Proof. exact refuted_F14b. Qed.
Print Assumptions C14_refuted_F14b.

Theorem C14_refuted_F14d :
  conforms (nth 1 [tTa; tTb] TNone) j_F14d = true /\ safe u_F14d j_F14d = false /\
  structure u_F14d j_F14d = Ok (VObj n_Ta [(k_t, VStr n_Tb); (k_x, VInt 1%Z)]) /\ ~ lossless u_F14d j_F14d.
Proof. exact refuted_F14d. Qed.
Print Assumptions C14_refuted_F14d.

(* F14e is fixed: the former witness (Union[A, dict[str,int]] with {q:1}) now meets the guard and the spec *)
Theorem C14_regression_F14e :
  conforms (nth 1 [tA; TMap TInt] TNone) j_F14e = true /\ safe u_F14e j_F14e = true /\
  structure u_F14e j_F14e = Ok (VDict [(k_q, VInt 1%Z)]) /\ approx (unstructure (VDict [(k_q, VInt 1%Z)])) j_F14e = true.
Proof. exact regression_F14e. Qed.
Print Assumptions C14_regression_F14e.

(* ===================== F14f: the converter as a state machine (Model/UnionHist.v) ===================== *)
From PG Require Import Model.UnionHist Proofs.UnionHist Model.UnionGen Proofs.UnionGen.

(* C14_history_free (full statement, FALSE on the model — see C14_refuted_F14f):
     forall rqs, history_free rqs.
   What holds: for every process (any number of calls, any payloads) in which no two container types
   with the same order-insensitive key (typing's Union equality) but a different member order are
   used, every call returns exactly what it returns in a fresh process. *)
Theorem C14_history_free_partial : forall rqs, consistent (map fst rqs) -> history_free rqs.
Proof. exact history_free_partial. Qed.
Print Assumptions C14_history_free_partial.

(* the same under the executable guard evaluated by the correspondence run *)
Theorem C14_history_free_partial_b : forall rqs, consistentb (map fst rqs) = true -> history_free rqs.
Proof. exact history_free_partial_b. Qed.
Print Assumptions C14_history_free_partial_b.

Theorem C14_refuted_F14f :
  consistentb (map fst h_F14f) = false
  /\ structure (TList u_is) (JArr [JInt 5%Z]) = Ok (VList [VInt 5%Z])
  /\ safe (TList u_is) (JArr [JInt 5%Z]) = true
  /\ UnionHist.run empty_state h_F14f = [Ok (VList [VStr [53]]); Ok (VList [VStr [53]])]
  /\ ~ history_free h_F14f.
Proof. exact refuted_F14f. Qed.
Print Assumptions C14_refuted_F14f.

Theorem C14_hist_guard_nonvacuous :
  consistentb (map fst [(TList u_is, JArr [JInt 5%Z]); (TMap (TList u_is), JObj [([97], JArr [JStr [98]])]);
                        (TList (TUnion None [TBool; TStr; TNone]), JArr [JNull])]) = true.
Proof. exact hist_guard_nonvacuous. Qed.
Print Assumptions C14_hist_guard_nonvacuous.

(* ===================== generator side (Model/UnionGen.v) ===================== *)
(* C14_collect (full statement, FALSE — see C14_refuted_F14g / F14h): forall us, spec_collect us.
   What holds: after DiscriminatorEnumCollector ran over any list of discriminated unions, every
   payload that a union's own mapping sends to one of its variants is accepted by that variant's
   discriminator field, provided no variant belongs to two discriminated unions and no variant is the
   target of two discriminator values. *)
Theorem C14_collect_partial : forall us,
  guard_F14g us = true -> guard_F14h us = true -> spec_collect us.
Proof. exact collect_partial. Qed.
Print Assumptions C14_collect_partial.

Theorem C14_refuted_F14g :
  guard_F14g [u_Pet; u_Zoo] = false /\ guard_F14h [u_Pet; u_Zoo] = true /\
  alookup n_Cat (collect [u_Pet; u_Zoo]) = Some [v_kat; v_fox] /\ ~ spec_collect [u_Pet; u_Zoo].
Proof. exact refuted_F14g. Qed.
Print Assumptions C14_refuted_F14g.

Theorem C14_refuted_F14h :
  guard_F14g [u_Pet2] = true /\ guard_F14h [u_Pet2] = false /\
  alookup n_Cat (collect [u_Pet2]) = Some [v_kitty; v_dog] /\ ~ spec_collect [u_Pet2].
Proof. exact refuted_F14h. Qed.
Print Assumptions C14_refuted_F14h.

Theorem C14_collect_guard_nonvacuous :
  guard_F14g [u_Pet; {| du_name := [90]; du_variants := [n_Fox]; du_mapping := [(v_fox, n_Fox)] |}] = true /\
  guard_F14h [u_Pet; {| du_name := [90]; du_variants := [n_Fox]; du_mapping := [(v_fox, n_Fox)] |}] = true.
Proof. exact collect_guard_nonvacuous. Qed.
Print Assumptions C14_collect_guard_nonvacuous.

(* _resolve_one_of/_resolve_any_of (full): the emitted Union lists the members in spec order — the first
   occurrence of each, no duplicates, none lost — and a nullable union is that text followed by " | None". *)
Theorem C14_resolver_order : forall m1 m2 ms nullable,
  alias_type (m1 :: m2 :: ms) nullable
  = s_Union_open ++ join [44;32] (first_occurrences [] (m1 :: m2 :: ms)) ++ [93]
    ++ (if nullable then s_or_None else [])
  /\ NoDup (first_occurrences [] (m1 :: m2 :: ms))
  /\ (forall x, In x (first_occurrences [] (m1 :: m2 :: ms)) <-> In x (m1 :: m2 :: ms)).
Proof. exact resolve_union_spec. Qed.
Print Assumptions C14_resolver_order.

(* ===================== exactness of the guard of C14_lossless_partial ===================== *)
(* [safe] is sufficient, not necessary: the acceptance test inside it is exact for primitive variants
   (C14_guard_exact_prims) but a shape-level over-approximation for dataclass variants
   (C14_lossless_not_safe).
   NOT PROVED (conjecture, stated for the exact guard safe_x := safe with [may_accept v j] replaced by
   "structure v j succeeds"):
     C14_safe_exact : forall t j, wf_ty t -> wf_json j -> (lossless t j <-> safe_x t j = true).
   The -> direction needs the inverse of every relational lemma of Proofs/Union.v (kv_rel, fs_rel,
   first_safe_try) — about as long again as safe_lossless; see the manifest. *)
Theorem C14_guard_exact_prims :
  safe (TUnion None [TInt; TStr]) (JStr [97]) = true /\ safe (TUnion None [TInt; TStr]) (JStr [55]) = false.
Proof. exact safe_int_str_nondigit. Qed.
Print Assumptions C14_guard_exact_prims.

Theorem C14_lossless_not_safe :
  safe (TUnion None [tA; tS]) (JObj [(k_x, JStr [113])]) = false /\
  lossless (TUnion None [tA; tS]) (JObj [(k_x, JStr [113])]).
Proof. exact lossless_not_safe. Qed.
Print Assumptions C14_lossless_not_safe.
