(* C14 — union values are decoded as the right variant, never lossily. *)
From PG Require Import Lib.Strs Model.Union Proofs.Union.
From Coq Require Import ZArith.

Theorem C14_refuted_F14a :
  conforms tB j_F14a = true /\ safe u_F14a j_F14a = false /\
  structure u_F14a j_F14a = Ok (VObj [65] [(k_x, VInt 1%Z)]) /\ ~ lossless u_F14a j_F14a.
Proof. exact refuted_F14a. Qed.
Print Assumptions C14_refuted_F14a.
