(* C14 — union values are decoded as the right variant, never lossily.
   Only statements, [exact], and Print Assumptions live here. *)
From PG Require Import Lib.Strs Model.Union Proofs.Union.
From Coq Require Import ZArith.

(* With a discriminator whose mapping sends the payload's discriminator value d to V, the result IS
   the structuring of V (a V or an error) — whatever the other variants and their order are. *)
Theorem C14_disc_exact : forall p m vs kv d V,
  NoDup (map fst m) -> In (d, V) m -> alookup p kv = Some (JStr d) ->
  structure_union (Some (p, m)) vs (JObj kv) = structure V (JObj kv).
Proof. exact disc_exact. Qed.
Print Assumptions C14_disc_exact.

(* A discriminator value (of any JSON kind) outside a non-empty mapping is an error, not a guess. *)
Theorem C14_disc_unknown : forall p m vs kv dv,
  m <> [] -> alookup p kv = Some dv ->
  (forall s, dv = JStr s -> ~ In s (map fst m)) ->
  structure_union (Some (p, m)) vs (JObj kv) = Err.
Proof. exact disc_unknown. Qed.
Print Assumptions C14_disc_unknown.

(* A payload whose mapped variant fails to decode is reported; no other variant is tried. *)
Theorem C14_no_retry : forall p m vs kv d V,
  NoDup (map fst m) -> In (d, V) m -> alookup p kv = Some (JStr d) ->
  structure V (JObj kv) = Err ->
  structure_union (Some (p, m)) vs (JObj kv) = Err.
Proof. exact no_retry. Qed.
Print Assumptions C14_no_retry.

Theorem C14_refuted_F14a :
  conforms (nth 1 [tA; tB] TNone) j_F14a = true /\ safe u_F14a j_F14a = false /\
  structure u_F14a j_F14a = Ok (VObj [65] [(k_x, VInt 1%Z)]) /\ ~ lossless u_F14a j_F14a.
Proof. exact refuted_F14a. Qed.
Print Assumptions C14_refuted_F14a.

Theorem C14_refuted_F14b :
  conforms (nth 1 [TStr; TInt] TNone) j_F14b = true /\ safe u_F14b j_F14b = false /\
  structure u_F14b j_F14b = Ok (VStr [53]) /\ ~ lossless u_F14b j_F14b.
Proof. exact refuted_F14b. Qed.
Print Assumptions C14_refuted_F14b.

Theorem C14_refuted_F14d :
  conforms (nth 1 [tTa; tTb] TNone) j_F14d = true /\ safe u_F14d j_F14d = false /\
  structure u_F14d j_F14d = Ok (VObj n_Ta [(k_t, VStr n_Tb); (k_x, VInt 1%Z)]) /\ ~ lossless u_F14d j_F14d.
Proof. exact refuted_F14d. Qed.
Print Assumptions C14_refuted_F14d.

Theorem C14_refuted_F14e :
  conforms (nth 1 [tA; TMap TInt] TNone) j_F14e = true /\ safe u_F14e j_F14e = false /\
  structure u_F14e j_F14e = Err /\ ~ lossless u_F14e j_F14e.
Proof. exact refuted_F14e. Qed.
Print Assumptions C14_refuted_F14e.
