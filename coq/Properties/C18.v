(* C18 — stream decoders are independent of how the bytes are chunked.
   Only statements, [exact], and Print Assumptions live here.

   Model (Model/Streaming.v): a chunk list [cs : list bytes] is what the network delivers.  [aiter_text],
   [aiter_lines] model httpx (ByteChunker/TextChunker, CPython's incremental UTF-8 decoder, LineDecoder with its
   buffer / trailing_cr state, str.splitlines) — these ARE chunk-sensitive, state is carried from chunk to chunk;
   [iter_sse], [iter_sse_events_text], [iter_ndjson], [iter_bytes] model streaming_helpers.py on top of them.
   The UTF-8 layer is CPython's incremental decoder with errors="replace" (what httpx TextDecoder uses): ill-formed
   input is INSIDE the model, every theorem below holds for arbitrary bytes, including where the U+FFFD go.
   [py_int] (int()) and [json_loads] are arbitrary functions. *)
From PG Require Import Lib.Strs Model.Streaming Proofs.Streaming.

(* ---- chunk independence: FULL (every chunk list, empty chunks included, no bound on sizes) ---- *)

(* httpx LineDecoder fed ANY sequence of text chunks yields exactly str.splitlines of their concatenation *)
Theorem C18_ld_chunk_independent : forall ts : list str, ld_run ts = splitlines (concat ts).
Proof. exact ld_chunk_independent. Qed.
Print Assumptions C18_ld_chunk_independent.

(* the text chunks decoded from any chunking concatenate to the decoding of the whole stream *)
Theorem C18_utf8 : forall cs : list bytes, concat (aiter_text cs) = utf8_decode (concat cs).
Proof. exact utf8_chunk_independent. Qed.
Print Assumptions C18_utf8.

(* the lines are a function of the stream alone *)
Theorem C18_lines : forall cs : list bytes, aiter_lines cs = splitlines (utf8_decode (concat cs)).
Proof. exact aiter_lines_stream. Qed.
Print Assumptions C18_lines.

Theorem C18_sse : forall py_int cs1 cs2, concat cs1 = concat cs2 -> iter_sse py_int cs1 = iter_sse py_int cs2.
Proof. exact sse_indep. Qed.
Print Assumptions C18_sse.

(* ... in particular equal to the unsplit stream's *)
Theorem C18_sse_whole : forall py_int cs, iter_sse py_int cs = iter_sse py_int [concat cs].
Proof. exact sse_whole. Qed.
Print Assumptions C18_sse_whole.

Theorem C18_sse_events_text : forall py_int cs1 cs2, concat cs1 = concat cs2 ->
  iter_sse_events_text py_int cs1 = iter_sse_events_text py_int cs2.
Proof. exact sse_text_indep. Qed.
Print Assumptions C18_sse_events_text.

Theorem C18_ndjson : forall (J : Type) (json_loads : str -> option J) cs1 cs2, concat cs1 = concat cs2 ->
  iter_ndjson J json_loads cs1 = iter_ndjson J json_loads cs2.
Proof. exact ndjson_indep. Qed.
Print Assumptions C18_ndjson.

(* what users run: the generated client reads the whole body before the helper iterates it ([read_all]); its items are
   those of the streaming path on the same stream, so they are independent of the server's chunking.
   text/event-stream operations: json.loads of iter_sse_events_text's items *)
Theorem C18_e2e : forall py_int (J : Type) (json_loads : str -> option J) cs,
  e2e_events py_int J json_loads cs = loads_all J json_loads (iter_sse_events_text py_int cs).
Proof. exact e2e_events_stream. Qed.
Print Assumptions C18_e2e.

(* generated application/x-ndjson operations (since F05f): the items of iter_ndjson on the same stream *)
Theorem C18_e2e_ndjson : forall (J : Type) (json_loads : str -> option J) cs,
  e2e_ndjson J json_loads cs = iter_ndjson J json_loads cs.
Proof. exact e2e_ndjson_stream. Qed.
Print Assumptions C18_e2e_ndjson.

(* whichever helper the generated operation calls (read off the generated code): independent of the server's chunking *)
Theorem C18_e2e_indep : forall py_int (J : Type) (json_loads : str -> option J) h cs1 cs2, concat cs1 = concat cs2 ->
  e2e_items py_int J json_loads h cs1 = e2e_items py_int J json_loads h cs2.
Proof. exact e2e_items_indep. Qed.
Print Assumptions C18_e2e_indep.

Theorem C18_e2e_bytes : forall cs, e2e_bytes cs = match concat cs with [] => [] | b => [b] end.
Proof. exact e2e_bytes_whole. Qed.
Print Assumptions C18_e2e_bytes.

(* on well-formed streams the replace decoder invents nothing: it equals strict decoding *)
Theorem C18_utf8_wf_strict : forall bs p s, u_strict [] bs = Some (p, s) -> utf8_decode bs = s ++ u_flush p.
Proof. exact utf8_wf_strict. Qed.
Print Assumptions C18_utf8_wf_strict.

(* iter_bytes yields the chunks themselves: only their concatenation can be (and is) chunk independent *)
Theorem C18_bytes : forall cs : list bytes, concat (iter_bytes cs) = concat cs.
Proof. exact iter_bytes_concat. Qed.
Print Assumptions C18_bytes.

(* ---- the functional half: PARTIAL (under the executable guard; refuted without it) ---- *)

(* The three equations that pin down [splitlines] (the scanner of the model) as str.splitlines on the lines a
   sender writes: *)
Theorem C18_splitlines_spec :
  splitlines [] = [] /\
  (forall l, clean l -> l <> [] -> splitlines l = [l]) /\
  (forall t l r, clean l -> term_ok t r -> splitlines (l ++ term_s t ++ r) = l :: splitlines r).
Proof. exact (conj splitlines_nil (conj splitlines_one splitlines_line)). Qed.
Print Assumptions C18_splitlines_spec.

(* For every list of blocks (lines "data: v" / "event: v" / "id: v" / "retry: n" / ":comment"), terminator LF, CRLF
   or CR, stream ending after the blank line / after the last line's terminator / right after the last line, and
   EVERY chunking of its UTF-8 encoding: one event per block, data lines joined by "\n", comments ignored, last
   event/id/retry wins — provided [guard]: no CR/LF inside a line and retry all digits (domain of the format),
   none of U+000B, U+000C, U+001C-1E, U+0085, U+2028, U+2029 in a line [F18a].
   [spec_events bs] = one [expected] event per block that has a field line (comment-only blocks carry none: F18c, fixed).  (Field values may start with white
   space: F18b is fixed, see C18_regression_F18b.)  [py_int] is any function that reads digit strings as Python's int() does. *)
Theorem C18_partial : forall (py_int : str -> option Z),
  (forall ds, ds <> [] -> forallb is_digit ds = true -> py_int ds = Some (digits_val ds)) ->
  forall t k bs cs, guard bs = true ->
  utf8_decode (concat cs) = encode t k bs ->
  iter_sse py_int cs = spec_events bs /\
  iter_sse_events_text py_int cs = filter nonemptyb (map e_data (spec_events bs)).
Proof. exact sse_roundtrip. Qed.
Print Assumptions C18_partial.

(* the decoder model inverts the standard UTF-8 encoding of every string of Unicode scalar values, so the hypothesis
   of C18_partial is satisfiable for every such text, and the statement can be made about chunkings of the encoded
   bytes themselves *)
Theorem C18_utf8_decode_encode : forall s, forallb valid_cp s = true -> utf8_decode (utf8_encode s) = s.
Proof. exact utf8_decode_encode. Qed.
Print Assumptions C18_utf8_decode_encode.

Theorem C18_partial_bytes : forall (py_int : str -> option Z),
  (forall ds, ds <> [] -> forallb is_digit ds = true -> py_int ds = Some (digits_val ds)) ->
  forall t k bs cs, guard bs = true -> forallb valid_cp (encode t k bs) = true ->
  concat cs = utf8_encode (encode t k bs) ->
  iter_sse py_int cs = spec_events bs /\
  iter_sse_events_text py_int cs = filter nonemptyb (map e_data (spec_events bs)).
Proof. exact sse_roundtrip_bytes. Qed.
Print Assumptions C18_partial_bytes.

(* the int() hypothesis of C18_partial is met by the model of CPython's int() on ASCII strings (which the run compares
   with the real int() on every ASCII candidate of every case) *)
Theorem C18_int_ascii : forall ds, ds <> [] -> forallb is_digit ds = true -> py_int_ascii ds = Some (digits_val ds).
Proof. exact py_int_ascii_digits. Qed.
Print Assumptions C18_int_ascii.

Theorem C18_ndjson_roundtrip : forall (J : Type) (jl : str -> option J) (recs : list (str * J)) t cs,
  all_clean (map fst recs) ->
  (forall l j, In (l, j) recs -> strip l <> [] /\ jl (strip l) = Some j) ->
  utf8_decode (concat cs) = enc_lines t (map fst recs) ->
  iter_ndjson J jl cs = (map snd recs, false).
Proof. exact ndjson_roundtrip. Qed.
Print Assumptions C18_ndjson_roundtrip.

Theorem C18_refuted_F18a :
  guard_dom bs_F18a = true /\ guard_F18a bs_F18a = false /\
  forall py_int, sse_of_lines py_int (splitlines (encode LF TFull bs_F18a)) <> spec_events bs_F18a.
Proof. exact refuted_F18a. Qed.
Print Assumptions C18_refuted_F18a.

Theorem C18_refuted_F18a_ndjson :
  guard_nd_F18a [nd_line_F18a] = false /\ forallb no_crlf [nd_line_F18a] = true /\
  strip nd_line_F18a <> [] /\ jl_F18a (strip nd_line_F18a) = Some 1 /\
  ndjson_of_lines N jl_F18a (splitlines (enc_lines LF [nd_line_F18a])) = ([], true).
Proof. exact refuted_F18a_ndjson. Qed.
Print Assumptions C18_refuted_F18a_ndjson.

(* regression for the fixed F18c: a comment-only (keep-alive) block delivers nothing *)
Theorem C18_regression_F18c : forall py_int,
  guard bs_F18c = true /\
  sse_of_lines py_int (splitlines (encode LF TFull bs_F18c)) = spec_events bs_F18c /\
  length (spec_events bs_F18c) = 1%nat /\
  sse_of_lines py_int (splitlines (encode CRLF TLine [[IComment []]])) = [].
Proof. exact regression_F18c. Qed.
Print Assumptions C18_regression_F18c.

(* regression for the fixed F18b: leading white space of a field value is payload *)
Theorem C18_regression_F18b : forall py_int,
  guard bs_F18b = true /\ guard bs_F18b_more = true /\
  sse_of_lines py_int (splitlines (encode LF TFull bs_F18b)) = map expected bs_F18b /\
  sse_of_lines py_int (splitlines (encode CRLF TNone bs_F18b_more)) = map expected bs_F18b_more /\
  e_data (hd (expected []) (map expected bs_F18b)) = [32; 120].
Proof. exact regression_F18b. Qed.
Print Assumptions C18_regression_F18b.

Theorem C18_guard_nonvacuous :
  (guard bs_ok = true /\ length bs_ok = 2%nat) /\
  (guard [[IData [233]]] = true /\ utf8_decode (concat cs_ok) = encode CRLF TFull [[IData [233]]]).
Proof. exact (conj guard_nonvacuous roundtrip_nonvacuous). Qed.
Print Assumptions C18_guard_nonvacuous.
