(* C18 — stream decoders are independent of how the bytes are chunked.
   Only statements, [exact], and Print Assumptions live here. *)
From PG Require Import Lib.Strs Model.Streaming Proofs.Streaming.

Theorem C18_refuted_F18a :
  guard_dom bs_F18a = true /\ guard_F18a bs_F18a = false /\ guard_F18b bs_F18a = true /\
  forall py_int, sse_of_lines py_int (splitlines (encode LF TFull bs_F18a)) <> map expected bs_F18a.
Proof. exact refuted_F18a. Qed.
Print Assumptions C18_refuted_F18a.

Theorem C18_refuted_F18b :
  guard_dom bs_F18b = true /\ guard_F18a bs_F18b = true /\ guard_F18b bs_F18b = false /\
  forall py_int, sse_of_lines py_int (splitlines (encode LF TFull bs_F18b)) <> map expected bs_F18b.
Proof. exact refuted_F18b. Qed.
Print Assumptions C18_refuted_F18b.
