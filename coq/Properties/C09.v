(* C09 — generation is deterministic; re-running on unchanged input is a no-op.   PARTIAL.
   Only statements, [exact], and Print Assumptions live here.
   What these theorems cover: (1) every order-relevant set-iteration site inventoried by the translator
   (Gen/T_C09.v) is permutation invariant (full since the fix of F09a); (2) the diff decision of the
   non-force path; (3) agreement of the force path with the temp-dir path, and the rerun corollary (full since the fixes of F09c/F09d).
   NOT covered by any theorem: byte-level determinism of the whole generator (the model's emitters are
   functions, hidden state cannot show up in it) — that part is the differential oracle of prop_C09.py. *)
From PG Require Import Lib.Strs Model.Sites Model.Diff Proofs.Sites Proofs.Diff.
From Coq Require Import Permutation.

(* ---------------------------------------------------------------- (1) sites *)
(* FULL since the fix of F09a (_ensure_path_variables_as_params now iterates in template order and is listed
   as sorted-wrapped by the inventory).  [site_obligation m] is "Permutation l1 l2 -> f l1 = f l2" for the
   Gallina transcription f of site m, and False for a site name without transcription, so a new order-relevant
   site breaks this proof. *)
Theorem C09_sites_full : forall m, In m order_relevant_models -> site_obligation m.
Proof. exact sites_full. Qed.
Print Assumptions C09_sites_full.

(* file-system order: _show_diffs walks both trees with rglob(); its decision and the set of files it names are
   the same for every order in which the file system lists the entries *)
Theorem C09_fs_order_full : forall old old' new new',
  wf_tree old = true -> Permutation old old' -> Permutation new new' ->
  show_diffs old new = show_diffs old' new' /\
  Permutation (differing_g str_eqb old new) (differing_g str_eqb old' new').
Proof. exact show_diffs_fs_order. Qed.
Print Assumptions C09_fs_order_full.

(* the formerly refuted site: whatever order the set of path variables is iterated in, the signature is the same *)
Theorem C09_site1_full : forall san ps template l1 l2,
  NoDup l1 -> (forall v, In v l1 -> In v template) -> Permutation l1 l2 ->
  signature_order san ps template l1 = signature_order san ps template l2.
Proof. exact site1_full. Qed.
Print Assumptions C09_site1_full.

(* regression: the witness of the fixed F09a (two undeclared variables, two iteration orders) *)
Theorem C09_regression_F09a :
  signature_order Proofs.Sites.idS [] [v_alpha; v_beta] [v_alpha; v_beta] = [v_alpha; v_beta] /\
  signature_order Proofs.Sites.idS [] [v_alpha; v_beta] [v_beta; v_alpha] = [v_alpha; v_beta] /\
  signature_order Proofs.Sites.idS [(v_beta, false)] [v_alpha; v_beta] [v_beta; v_alpha] = [v_alpha; v_beta].
Proof. exact site1_regression_F09a. Qed.
Print Assumptions C09_regression_F09a.

(* add_typing_imports_for_type + ImportCollector.get_formatted_imports: for every classification of words,
   every stdlib predicate, every (well-formed) prior collector state *)
Theorem C09_site2_full : forall is_stdlib classify c0 l1 l2,
  wf_collector c0 = true -> Permutation l1 l2 ->
  typing_imports_render is_stdlib classify c0 l1 = typing_imports_render is_stdlib classify c0 l2.
Proof. exact site2_invariant. Qed.
Print Assumptions C09_site2_full.

(* ---------------------------------------------------------------- (2) diff decision *)
(* FULL since the fix of F09b/F09f: no differences reported => the *.py files of the existing tree are exactly
   the *.py files that would be generated now, byte for byte (missing / stale / terminator-only cases included) *)
Theorem C09_diff_sound_full : forall old new,
  show_diffs old new = false -> forall p, tlookup p (py_files old) = tlookup p (py_files new).
Proof. exact diff_sound_py_files. Qed.
Print Assumptions C09_diff_sound_full.

(* for WHOLE trees one guard remains: non-*.py files are not compared (F09g) *)
Theorem C09_diff_sound_all_partial : forall old new,
  guard_F09g old new = true -> show_diffs old new = false -> forall p, tlookup p old = tlookup p new.
Proof. exact diff_sound_partial. Qed.
Print Assumptions C09_diff_sound_all_partial.

(* an up-to-date tree is never reported as different (no guard) *)
Theorem C09_diff_complete : forall old new,
  (forall p, tlookup p old = tlookup p new) -> wf_tree new = true -> show_diffs old new = false.
Proof. exact show_diffs_complete. Qed.
Print Assumptions C09_diff_complete.

(* regression: the witnesses of the fixed F09b (missing + stale file) and F09f (CRLF / no final newline) *)
Theorem C09_regression_F09b_F09f :
  show_diffs old_F09b new_F09b = true /\ differing_g str_eqb old_F09b new_F09b = [p_models_a; p_stale] /\
  show_diffs [(p_client, t_a1)] new_F09b = true /\ show_diffs old_F09b [(p_client, t_a1)] = true /\
  show_diffs old_F09f new_F09f = true /\ differing_g str_eqb old_F09f new_F09f = [p_client; p_models_a].
Proof. exact regression_F09b_F09f. Qed.
Print Assumptions C09_regression_F09b_F09f.

Theorem C09_refuted_F09g :
  guard_F09g old_F09g new_F09g = false /\
  show_diffs old_F09g new_F09g = false /\ tlookup p_typed old_F09g <> tlookup p_typed new_F09g.
Proof. exact refuted_F09g. Qed.
Print Assumptions C09_refuted_F09g.

(* ---------------------------------------------------------------- (3) the two code paths *)
(* FULL since the fixes of F09c (rich __init__.py written on both paths) and F09d (the temp path starts from the
   existing registry): what the force path writes is what the temp-dir path regenerates from the state that force
   run left behind.  [dedup_total] is fuel adequacy of the model's suffix search (true whenever the real loop
   terminates), [wf_layout] excludes core_package = output package (two __init__.py on one path); neither is a finding. *)
Theorem C09_modes_agree_full : forall san g found,
  dedup_total san g = true ->
  tree_force san g found = tree_temp san g (existing_registry g (tree_force san g found)).
Proof. exact modes_agree. Qed.
Print Assumptions C09_modes_agree_full.

(* generate(force); generate(no force): succeeds and leaves the file system as it was *)
Theorem C09_rerun_full : forall san g found,
  dedup_total san g = true -> wf_layout san g = true ->
  run_noforce san g (tree_force san g found) = (ROk, tree_force san g found).
Proof. exact rerun_full. Qed.
Print Assumptions C09_rerun_full.

(* the same after a longer history: generate(force) of this client, then possibly the generation of ANOTHER client
   that uses the same core, then generate(no force).  FULL since the fix of F09h (the __init__.py chain of a core
   nested inside the client directory is created on every path). *)
Theorem C09_rerun_history_full : forall san g found touched,
  dedup_total san g = true -> wf_layout san g = true ->
  run_noforce san g (existing_after san g found touched) = (ROk, existing_after san g found touched).
Proof. exact rerun_history_full. Qed.
Print Assumptions C09_rerun_history_full.

Theorem C09_regression_F09h :
  dedup_total Proofs.Diff.idS g_F09h = true /\ wf_layout Proofs.Diff.idS g_F09h = true /\
  gap_inits g_F09h = [([s_c1; s_x; s_init], CEmpty)] /\
  tlookup [s_c1; s_x; s_init] (tree_force Proofs.Diff.idS g_F09h []) = Some CEmpty /\
  tlookup [s_c1; s_x; s_init] (tree_temp Proofs.Diff.idS g_F09h []) = Some CEmpty /\
  fst (run_noforce Proofs.Diff.idS g_F09h (existing_after Proofs.Diff.idS g_F09h [] true)) = ROk /\
  fst (run_noforce Proofs.Diff.idS g_F09h (existing_after Proofs.Diff.idS g_F09h [] false)) = ROk.
Proof. exact regression_F09h. Qed.
Print Assumptions C09_regression_F09h.

(* conversely a *.py file present on both sides whose text is not what would be generated now makes the
   non-force run fail (for ANY existing tree) *)
Theorem C09_rerun_detects : forall san g existing p c c',
  In (p, c) (under (g_out g) (tree_temp san g (existing_registry g existing))) -> is_py p = true ->
  tlookup p (under (g_out g) existing) = Some c' -> c' <> c ->
  fst (run_noforce san g existing) = RDifferences.
Proof. exact rerun_detects. Qed.
Print Assumptions C09_rerun_detects.

Theorem C09_rerun_detects_missing : forall san g existing p c,
  In (p, c) (under (g_out g) (tree_temp san g (existing_registry g existing))) -> is_py p = true ->
  tlookup p (under (g_out g) existing) = None ->
  fst (run_noforce san g existing) = RDifferences.
Proof. exact rerun_detects_missing. Qed.
Print Assumptions C09_rerun_detects_missing.

Theorem C09_rerun_detects_stale : forall san g existing p c,
  In (p, c) (under (g_out g) existing) -> is_py p = true ->
  tlookup p (under (g_out g) (tree_temp san g (existing_registry g existing))) = None ->
  fst (run_noforce san g existing) = RDifferences.
Proof. exact rerun_detects_stale. Qed.
Print Assumptions C09_rerun_detects_stale.

Theorem C09_regression_F09c_F09d :
  tree_force Proofs.Diff.idS g_F09c [] = tree_temp Proofs.Diff.idS g_F09c (existing_registry g_F09c (tree_force Proofs.Diff.idS g_F09c [])) /\
  tlookup [s_client; s_init] (tree_temp Proofs.Diff.idS g_F09c []) = Some (CRichInit s_client) /\
  fst (run_noforce Proofs.Diff.idS g_F09c (tree_force Proofs.Diff.idS g_F09c [])) = ROk /\
  existing_registry g_F09d (tree_force Proofs.Diff.idS g_F09d found_F09d) = [(s_cb, [409]); (s_ca, [404])] /\
  tlookup [s_shared; s_core; s_aliases_py] (tree_force Proofs.Diff.idS g_F09d found_F09d) = Some (CAliases [404; 409]) /\
  tree_force Proofs.Diff.idS g_F09d found_F09d =
    tree_temp Proofs.Diff.idS g_F09d (existing_registry g_F09d (tree_force Proofs.Diff.idS g_F09d found_F09d)) /\
  fst (run_noforce Proofs.Diff.idS g_F09d (tree_force Proofs.Diff.idS g_F09d found_F09d)) = ROk.
Proof. exact regression_F09c_F09d. Qed.
Print Assumptions C09_regression_F09c_F09d.

Theorem C09_regression_F09e :
  dedup_ops Proofs.Diff.idS [s_foo; s_foo; s_foo_2] = [s_foo; s_foo_2; s_foo_2 ++ [95;50]] /\
  dedup_ops Proofs.Diff.idS (dedup_ops Proofs.Diff.idS [s_foo; s_foo; s_foo_2]) = dedup_ops Proofs.Diff.idS [s_foo; s_foo; s_foo_2] /\
  dedup_total Proofs.Diff.idS g_F09e = true /\
  tree_force Proofs.Diff.idS g_F09e [] =
    tree_temp Proofs.Diff.idS g_F09e (existing_registry g_F09e (tree_force Proofs.Diff.idS g_F09e [])) /\
  fst (run_noforce Proofs.Diff.idS g_F09e (tree_force Proofs.Diff.idS g_F09e [])) = ROk.
Proof. exact regression_F09e. Qed.
Print Assumptions C09_regression_F09e.

(* ---------------------------------------------------------------- non-vacuity of the guards *)
Theorem C09_guard_nonvacuous :
  (wf_collector empty_collector = true /\
   add_names demo_classify empty_collector [w_List; w_Pet] <> add_names demo_classify empty_collector [w_Pet; w_List] /\
   typing_imports_render (stdlib_of [m_typing]) demo_classify empty_collector [w_List; w_Pet] <> []) /\
  (guard_F09g new_F09b new_F09b = true /\ show_diffs new_F09b new_F09b = false /\
   guard_F09g old_F09b [(p_client, t_a1 ++ t_a1); (p_stale, t_a1)] = true /\
   show_diffs old_F09b [(p_client, t_a1 ++ t_a1); (p_stale, t_a1)] = true) /\
  (dedup_total Proofs.Diff.idS g_plain = true /\ wf_layout Proofs.Diff.idS g_plain = true /\
   length (tree_force Proofs.Diff.idS g_plain []) = 15%nat /\
   dedup_total Proofs.Diff.idS g_F09d = true /\ wf_layout Proofs.Diff.idS g_F09d = true).
Proof.
  exact (conj site2_nonvacuous (conj guard_diff_nonvacuous modes_nonvacuous)).
Qed.
Print Assumptions C09_guard_nonvacuous.
