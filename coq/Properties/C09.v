(* C09 — placeholder while the proofs are being written (replaced below) *)
From PG Require Import Lib.Strs Model.Sites Model.Diff.
Example C09_placeholder : dedup_ops (fun s => s) [[102]; [102]] = [[102]; [102;95;50]].
Proof. reflexivity. Qed.
Print Assumptions C09_placeholder.
