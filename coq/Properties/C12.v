(* C12 — generated clients are self-contained (no dependency on the generator).
   Only statements, [exact], and Print Assumptions live here.
   stdlib_names, runtime_files, runtime_imports, import_sites, template_imports come from Gen/T_C12.v, which is
   regenerated from /repo's working tree on every run; theorems over them are finite-table theorems
   (bound = the number of rows at this run, see C12_tables_nonempty) lifted with forallb_forall. *)
From PG Require Import Lib.Strs Model.CoreImports Gen.T_C12 Proofs.CoreImports.
From Coq Require Import Arith.PeanoNat.

(* Every import statement (any depth, any location) of every shipped runtime file, wherever the core package is
   placed (forall core): absolute -> stdlib / httpx / cattrs; relative -> resolves by CPython's rule to a module of that
   same core package.  PARTIAL: under the guard that excludes the one `from black import …` of core/utils.py (F12a). *)
Theorem C12_runtime_partial : forall core r,
  core <> [] -> In r runtime_imports -> guard_F12a r = true -> runtime_import_ok core r.
Proof. exact runtime_allowed. Qed.
Print Assumptions C12_runtime_partial.

Theorem C12_refuted_F12a : exists r,
  In r runtime_imports /\ guard_F12a r = false /\ allowed_runtime stdlib_names core_modules r = false.
Proof. exact runtime_refuted_F12a. Qed.
Print Assumptions C12_refuted_F12a.

Theorem C12_guard_nonvacuous :
  (20 <= length (filter guard_F12a runtime_imports))%nat /\
  existsb (fun r => guard_F12a r && (0 <? ri_level r)%nat) runtime_imports = true.
Proof. exact runtime_guard_nonvacuous. Qed.
Print Assumptions C12_guard_nonvacuous.

(* Every import line found in a string template of the generator, for all package names, core package names
   and all computed tails: allowed. *)
Theorem C12_templates : forall pkg core tail k s,
  pkg <> [] -> core <> [] -> In s template_imports ->
  site_allowed stdlib_names pkg core tail k s = true.
Proof. exact templates_allowed. Qed.
Print Assumptions C12_templates.

(* Every call of the import-registration API in the generator (forall over package names, finite over sites):
   the module it can register is allowed; no site has an unclassified (unaudited computed) module argument. *)
Theorem C12_sites : forall pkg core tail k s,
  pkg <> [] -> core <> [] -> In s import_sites ->
  site_allowed stdlib_names pkg core tail k s = true.
Proof. exact sites_allowed. Qed.
Print Assumptions C12_sites.

(* The relative import written by RenderContext.calculate_relative_path_for_internal_module, resolved the way
   CPython resolves it in the importing file's package, is the intended module — for ALL file positions, targets
   and package names (induction on the common prefix). *)
Theorem C12_calc_relative_roundtrip : forall root cur_file tgt tdir i,
  root <> [] ->
  calc_relative cur_file tgt tdir = Some i ->
  resolve_name (root ++ removelast cur_file) (i_level i) (i_parts i) = Some (root ++ tgt).
Proof. exact calc_relative_roundtrip. Qed.
Print Assumptions C12_calc_relative_roundtrip.

(* import_collector.make_relative_import, for a plain module cur and any target sharing its top-level package *)
Theorem make_relative_roundtrip : forall cur tgt,
  wf_rel cur tgt ->
  resolve_relative cur false (make_relative_import cur tgt) = Some tgt.
Proof. exact make_relative_roundtrip. Qed.
Print Assumptions make_relative_roundtrip.

Theorem make_relative_roundtrip_wf_nonvacuous :
  wf_rel [w_pkg; w_sub; w_x] [w_pkg; w_x] /\
  make_relative_import [w_pkg; w_sub; w_x] [w_pkg; w_x] = mkImp 2 [w_x].
Proof. exact wf_rel_nonvacuous. Qed.
Print Assumptions make_relative_roundtrip_wf_nonvacuous.

(* emit_core copies: for any content of the shipped files, each destination holds exactly the bytes of its source *)
Theorem C12_verbatim : forall B (src : list str * str -> B) m stem dst,
  In (m, stem, dst) runtime_files ->
  lookup_path dst (emit_core runtime_files src) = Some (src (m, stem)).
Proof. exact core_verbatim. Qed.
Print Assumptions C12_verbatim.

Theorem C12_tables_nonempty :
  (8 <= length runtime_files /\ 20 <= length runtime_imports /\ 100 <= length import_sites
   /\ 20 <= length template_imports /\ 200 <= length stdlib_names)%nat.
Proof. exact tables_nonempty. Qed.
Print Assumptions C12_tables_nonempty.

Theorem C12_generator_not_allowed :
  allowed stdlib_names [w_pkg] [w_pkg; w_sub] (mkImp 0 [s_pyopenapi_gen; w_x]) = false /\
  allowed stdlib_names [w_pkg] [w_pkg; w_sub] (mkImp 0 [s_httpx]) = true /\
  allowed stdlib_names [w_pkg] [w_pkg; w_sub] (mkImp 0 [w_pkg; w_sub; w_x]) = true.
Proof. exact allowed_rejects_generator. Qed.
Print Assumptions C12_generator_not_allowed.

(* … also over histories: the previous content fs of the core directory (stale, edited, truncated, missing files)
   is irrelevant; the latest write (first match) wins *)
Theorem C12_verbatim_history : forall B (src : list str * str -> B) (fs : list (modpath * B)) m stem dst,
  In (m, stem, dst) runtime_files ->
  lookup_path dst (emit_core runtime_files src ++ fs) = Some (src (m, stem)).
Proof. exact core_verbatim_history. Qed.
Print Assumptions C12_verbatim_history.
