(* C05 — response fidelity: declared success bodies come back as typed values.  Statements only. *)
From PG Require Import Lib.Strs Model.Dispatch Model.Response Proofs.Response.

Theorem C05_refuted_F05b : guard_bits d_F05b = [false; true; true; true; true; true; true]
  /\ the_path d_F05b = PCast /\ the_want d_F05b = WJsonTyped (TLib [100;97;116;101;116;105;109;101]) /\ C05_holds d_F05b = false.
Proof. exact refuted_F05b. Qed.
Print Assumptions C05_refuted_F05b.
Theorem C05_refuted_F05c : guard_bits d_F05c = [true; false; true; true; true; true; true]
  /\ the_path d_F05c = PCast /\ the_want d_F05c = WText /\ C05_holds d_F05c = false.
Proof. exact refuted_F05c. Qed.
Print Assumptions C05_refuted_F05c.
Theorem C05_refuted_F05e : guard_bits d_F05e = [true; true; false; true; true; true; true]
  /\ the_imported d_F05e = false /\ (exists c, the_path d_F05e = PStructure c) /\ C05_holds d_F05e = false.
Proof. exact refuted_F05e. Qed.
Print Assumptions C05_refuted_F05e.
Theorem C05_refuted_F05f : guard_bits d_F05f = [true; true; true; false; true; true; true]
  /\ the_path d_F05f = PStreamSse /\ the_want d_F05f = WStreamItems /\ C05_holds d_F05f = false.
Proof. exact refuted_F05f. Qed.
Print Assumptions C05_refuted_F05f.
Theorem C05_refuted_F05g : guard_bits d_F05g = [true; true; true; true; false; true; true]
  /\ the_path d_F05g = PRaiseHTTP /\ C05_holds d_F05g = false.
Proof. exact refuted_F05g. Qed.
Print Assumptions C05_refuted_F05g.
Theorem C05_refuted_F05h : guard_bits d_F05h = [true; true; true; true; true; false; true]
  /\ module_syntax_ok (d_module d_F05h) = false /\ C05_holds d_F05h = false.
Proof. exact refuted_F05h. Qed.
Print Assumptions C05_refuted_F05h.
Theorem C05_refuted_F05i : guard_bits d_F05i = [true; true; true; true; true; true; false]
  /\ the_annotation d_F05i = [73;116;101;109] /\ the_want d_F05i = WJsonTyped (TClass [67;97;116]) /\ C05_holds d_F05i = false.
Proof. exact refuted_F05i. Qed.
Print Assumptions C05_refuted_F05i.
Theorem C05_guard_nonvacuous :
  c05_guard d_ok = true /\ C05_holds d_ok = true /\ c05_guard d_ok2 = true /\ C05_holds d_ok2 = true
  /\ c05_guard d_ok3 = true /\ the_path d_ok3 = PNone
  /\ c05_guard d_switch = true /\ the_path d_switch = PText /\ C05_holds d_switch = true.
Proof. exact guard_nonvacuous. Qed.
Print Assumptions C05_guard_nonvacuous.
