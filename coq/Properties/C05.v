(* C05 — response fidelity: declared success bodies come back as typed values.  Statements only.

   The FULL statement "for every declared 2xx response x content type the handler's decode path delivers a value of
   the annotated type re-encoding to the body / None / the text / the bytes / the stream items" — on the decision
   model:  forall d, C05_holds d = true  — is FALSE: four classes of counterexample, C05_refuted_F05b,c,f,i (F05e, F05g, F05h are fixed: C05_fixed_F05e/g/h).
   PARTIAL: C05_partial below is ONE theorem over the whole record [dcase] with an executable guard equal to the
   conjunction of the open findings; the older region theorems (C05_partial_primary_json, _class, _secondary, …) are
   kept as corollary-style statements with explicit hypotheses.  The decode layer (json.loads, cattrs) is abstract:
   C05_partial_decode.  The converse (guard exactness) does not hold: C05_guard_not_exact. *)
From PG Require Import Lib.Strs Model.Dispatch Model.Response Proofs.Response Proofs.ResponseMain Proofs.ResponseHeur.

(* THE single statement.  For every well-formed case — module (list of operations of any shape), operation, declared 2xx
   response (numeric or the "2XX" range) and one of its content entries (or none) — : if the executable guard holds (the
   conjunction of the open findings F05b, F05c, F05f, F05i) then the decode path the generated handler takes for that
   status and Content-Type delivers what the declared response calls for (None / text / bytes / stream / a value of the
   declared type, structured by structure_from_dict(response.json(), <declared type>) with the import present), and the
   method's return annotation covers the declared type.  No bound on the number of operations, responses or entries. *)
Theorem C05_partial : forall d, wf_dcase d = true -> c05_guard d = true -> C05_holds d = true.
Proof. exact guard_implies_holds. Qed.
Print Assumptions C05_partial.

(* the guard is sufficient, not exact (structuring a JSON-native type is harmless): C05_guard_exact does NOT hold *)
Theorem C05_guard_not_exact : wf_dcase d_not_exact = true /\ C05_holds d_not_exact = true /\ c05_guard d_not_exact = false.
Proof. exact guard_not_exact. Qed.
Print Assumptions C05_guard_not_exact.

Theorem C05_partial_nonvacuous :
  wf_dcase d_ok = true /\ c05_guard d_ok = true /\ wf_dcase d_ok2 = true /\ c05_guard d_ok2 = true
  /\ wf_dcase d_switch = true /\ c05_guard d_switch = true /\ wf_dcase d_F05g = true /\ c05_guard d_F05g = true
  /\ wf_dcase d_F05h_202 = true /\ c05_guard d_F05h_202 = true.
Proof. exact main_nonvacuous. Qed.
Print Assumptions C05_partial_nonvacuous.

Theorem C05_partial_primary_json : forall reg o r n e ct imported,
  cprocessed o = Some (r, n) -> cr_content r = [e] -> is_stream r = false -> json_like (c_media e) = true ->
  str_eqb (show (c_type e)) s_None = false -> prefixb (s_Union ++ s_lb) (show (c_type e)) = false ->
  heuristic_ok reg (c_type e) = true ->
  (needs_structure (c_type e) = true -> deser_direct reg (c_type e) = true /\ imported = true) ->
  delivers imported (handle reg o n ct) (ideal true r (Some e)) = true.
Proof. exact primary_single_json. Qed.
Print Assumptions C05_partial_primary_json.

Theorem C05_class_type_ok : forall reg n,
  class_name_ok n = true -> class_entry_ok reg n = true ->
  heuristic_ok reg (TClass n) = true /\ deser_direct reg (TClass n) = true.
Proof. exact class_type_ok. Qed.
Print Assumptions C05_class_type_ok.

(* the same for `List[C]` and `C | None`: the string heuristic agrees with the need for structuring and the rendered
   call targets the declared type, for every identifier-like class name C (no per-case computation) *)
Theorem C05_list_class_type_ok : forall reg n,
  class_name_ok n = true -> class_entry_ok reg n = true -> alookup s_List reg = None ->
  heuristic_ok reg (TList (TClass n)) = true /\ deser_direct reg (TList (TClass n)) = true.
Proof. exact list_class_type_ok. Qed.
Print Assumptions C05_list_class_type_ok.
Theorem C05_opt_class_type_ok : forall reg n,
  class_name_ok n = true -> reg_keys_ident reg = true ->
  heuristic_ok reg (TOpt (TClass n)) = true /\ deser_direct reg (TOpt (TClass n)) = true.
Proof. exact opt_class_type_ok. Qed.
Print Assumptions C05_opt_class_type_ok.
(* NOT proved in general (evaluated per case by vm_compute in every correspondence run): alias types
   (TAliasArr / TAliasPrim: need a consistency hypothesis between the registry's items info and the AST),
   `List[C] | None`, nested lists and dict[str, C]. *)

Theorem C05_partial_class : forall reg o r n e ct cn,
  cprocessed o = Some (r, n) -> cr_content r = [e] -> is_stream r = false -> json_like (c_media e) = true ->
  c_type e = TClass cn -> class_name_ok cn = true -> class_entry_ok reg cn = true ->
  delivers true (handle reg o n ct) (ideal true r (Some e)) = true.
Proof. exact primary_single_json_class. Qed.
Print Assumptions C05_partial_class.

Theorem C05_partial_secondary : forall reg o p n r m e ct imported,
  cprocessed o = Some (p, n) -> st_streaming (resolve o) = false -> m <> n -> find_status m (cothers o) = Some r -> lead2 m = true ->
  handler_schema (cr_content r) = Some e -> is_stream r = false -> json_like (c_media e) = true ->
  heuristic_ok reg (c_type e) = true ->
  (needs_structure (c_type e) = true -> deser_direct reg (c_type e) = true /\ imported = true) ->
  delivers imported (handle reg o m ct) (ideal false r (Some e)) = true.
Proof. exact secondary_json. Qed.
Print Assumptions C05_partial_secondary.

Theorem C05_partial_nocontent : forall reg o r n ct,
  cprocessed o = Some (r, n) -> cr_content r = [] ->
  handle reg o n ct = PNone /\ delivers (module_has_cattrs reg [o]) (handle reg o n ct) (ideal true r None) = true.
Proof. exact primary_nocontent. Qed.
Print Assumptions C05_partial_nocontent.

Theorem C05_partial_nocontent_2 : forall reg o p n r m ct imported,
  cprocessed o = Some (p, n) -> st_streaming (resolve o) = false -> m <> n -> find_status m (cothers o) = Some r -> lead2 m = true ->
  cr_content r = [] ->
  delivers imported (handle reg o m ct) (ideal false r None) = true.
Proof. exact secondary_nocontent. Qed.
Print Assumptions C05_partial_nocontent_2.

Theorem C05_partial_stream_bytes : forall reg o r n ct imported,
  cprocessed o = Some (r, n) -> cr_content r <> [] -> is_stream r = true ->
  existsb (fun e => is_binary_media (c_media e)) (cr_content r) = true ->
  handle reg o n ct = PStreamBytes
  /\ forall e, delivers imported (handle reg o n ct) (ideal true r (Some e)) = true.
Proof. exact primary_stream_bytes. Qed.
Print Assumptions C05_partial_stream_bytes.

Theorem C05_partial_stream_events : forall reg o r n ct imported,
  cprocessed o = Some (r, n) -> cr_content r <> [] -> is_stream r = true ->
  existsb (fun e => is_binary_media (c_media e)) (cr_content r) = false ->
  existsb c_binfmt (cr_content r) = false ->
  existsb (fun e => contains_s w_event_stream (c_media e)) (cr_content r) = true ->
  handle reg o n ct = PStreamSse
  /\ forall e, delivers imported (handle reg o n ct) (ideal true r (Some e)) = true.
Proof. exact primary_stream_events. Qed.
Print Assumptions C05_partial_stream_events.

(* decode layer abstract: for ANY json/value types and ANY structure/raw/unstructure satisfying the two round-trip
   laws (the subject of C16/C14/C03), a delivering JSON path yields a typed value that re-encodes to the body *)
Theorem C05_partial_decode :
  forall (json value : Type) (conforms : rty -> json -> Prop) (has_type : value -> rty -> Prop)
         (structure : rty -> json -> option value) (raw : json -> value) (unstructure : value -> json),
  (forall t j, conforms t j -> exists v, structure t j = Some v /\ has_type v t /\ unstructure v = j) ->
  (forall t j, needs_structure t = false -> conforms t j -> has_type (raw j) t /\ unstructure (raw j) = j) ->
  forall imported p t j,
  delivers imported p (want_json t) = true -> conforms t j ->
  exists v, exec_json json value structure raw p t j = Some v /\ has_type v t /\ unstructure v = j.
Proof. exact delivered_json_is_typed. Qed.
Print Assumptions C05_partial_decode.

(* ---- general (not single-witness) forms of three findings *)
(* F05b: whenever the heuristic says "cast" for a type that needs structuring, the property fails *)
Theorem C05_refuted_F05b_all : forall reg t imported,
  needs_structure t = true -> should_use_cattrs reg (show t) = false ->
  delivers imported (json_path reg t) (want_json t) = false.
Proof. exact json_path_cast_fails. Qed.
Print Assumptions C05_refuted_F05b_all.
(* F05c fixed part: a further 2xx response whose content is text only returns response.text *)
Theorem C05_partial_secondary_text : forall reg o p n r m h ct imported,
  cprocessed o = Some (p, n) -> st_streaming (resolve o) = false -> m <> n -> find_status m (cothers o) = Some r -> lead2 m = true ->
  handler_schema (cr_content r) = Some h -> raw_accessor (cr_content r) (c_type h) = Some PText ->
  handle reg o m ct = PText /\ delivers imported (handle reg o m ct) WText = true.
Proof. exact secondary_text. Qed.
Print Assumptions C05_partial_secondary_text.
(* F05g FIXED: a "2XX" range that is the primary response handles every otherwise undeclared 2xx status *)
Theorem C05_wildcard_primary : forall reg o w st ct,
  cprocessed o = None -> find_status st (cothers o) = None ->
  wildcard_resp o = Some w -> is_strategy_resp o w = true -> 200 <= st < 300 ->
  handle reg o st ct = if is_none_ret (resolve o) then PNone else strategy_path reg (nd_of o) (pc_of o) (resolve o) ct.
Proof. exact handle_wildcard_primary. Qed.
Print Assumptions C05_wildcard_primary.

Theorem C05_refuted_F05b : guard_bits d_F05b = [false; true; true; true]
  /\ the_path d_F05b = PCast /\ the_want d_F05b = WJsonTyped (TLib [100;97;116;101;116;105;109;101]) /\ C05_holds d_F05b = false.
Proof. exact refuted_F05b. Qed.
Print Assumptions C05_refuted_F05b.
Theorem C05_fixed_F05c_text : c05_guard d_F05c_text = true /\ the_path d_F05c_text = PText /\ C05_holds d_F05c_text = true
  /\ c05_guard d_F05c_text2 = true /\ the_path d_F05c_text2 = PText /\ C05_holds d_F05c_text2 = true.
Proof. exact fixed_F05c_text. Qed.
Print Assumptions C05_fixed_F05c_text.
Theorem C05_refuted_F05c : guard_bits d_F05c = [true; false; true; false]
  /\ the_path d_F05c = PStreamSse /\ the_want d_F05c = WJsonTyped (TClass [73;116;101;109]) /\ C05_holds d_F05c = false.
Proof. exact refuted_F05c. Qed.
Print Assumptions C05_refuted_F05c.
(* F05f fixed for application/x-ndjson (regression on the old witness); json-seq / multipart remain open *)
Theorem C05_fixed_F05f_ndjson : c05_guard d_F05f_ndjson = true /\ the_path d_F05f_ndjson = PStreamNdjson true
  /\ the_want d_F05f_ndjson = WStreamLines /\ the_imported d_F05f_ndjson = true /\ C05_holds d_F05f_ndjson = true.
Proof. exact fixed_F05f_ndjson. Qed.
Print Assumptions C05_fixed_F05f_ndjson.
Theorem C05_refuted_F05f : guard_bits d_F05f = [true; true; false; true]
  /\ the_path d_F05f = PStreamSse /\ the_want d_F05f = WStreamItems /\ C05_holds d_F05f = false.
Proof. exact refuted_F05f. Qed.
Print Assumptions C05_refuted_F05f.
Theorem C05_refuted_F05i : guard_bits d_F05i = [true; true; true; false]
  /\ the_annotation d_F05i = [73;116;101;109] /\ the_want d_F05i = WJsonTyped (TClass [67;97;116]) /\ C05_holds d_F05i = false.
Proof. exact refuted_F05i. Qed.
Print Assumptions C05_refuted_F05i.
(* regression: witnesses of the fixed findings *)
Theorem C05_fixed_F05e : c05_guard d_F05e = true /\ the_imported d_F05e = true /\ C05_holds d_F05e = true.
Proof. exact fixed_F05e. Qed.
Print Assumptions C05_fixed_F05e.
Theorem C05_fixed_F05g : c05_guard d_F05g = true /\ (exists c, the_path d_F05g = PStructure c) /\ C05_holds d_F05g = true.
Proof. exact fixed_F05g. Qed.
Print Assumptions C05_fixed_F05g.
Theorem C05_fixed_F05h : c05_guard d_F05h = true /\ C05_holds d_F05h = true
  /\ the_path d_F05h_202 = PEndIter /\ c05_guard d_F05h_202 = true /\ C05_holds d_F05h_202 = true.
Proof. exact fixed_F05h. Qed.
Print Assumptions C05_fixed_F05h.
(* F05h fixed in general: no operation shape makes a generated method an async generator with `return <value>` *)
Theorem C05_module_syntax_always : forall ops, module_syntax_ok ops = true.
Proof. exact module_syntax_always. Qed.
Print Assumptions C05_module_syntax_always.
Theorem C05_partial_nocontent_streaming : forall reg o p n r m ct imported,
  cprocessed o = Some (p, n) -> st_streaming (resolve o) = true -> m <> n ->
  find_status m (cothers o) = Some r -> lead2 m = true -> cr_content r = [] ->
  handle reg o m ct = PEndIter /\ delivers imported (handle reg o m ct) (ideal false r None) = true.
Proof. exact secondary_nocontent_streaming. Qed.
Print Assumptions C05_partial_nocontent_streaming.
Theorem C05_guard_nonvacuous :
  c05_guard d_ok = true /\ C05_holds d_ok = true /\ c05_guard d_ok2 = true /\ C05_holds d_ok2 = true
  /\ c05_guard d_ok3 = true /\ the_path d_ok3 = PNone
  /\ c05_guard d_switch = true /\ the_path d_switch = PText /\ C05_holds d_switch = true.
Proof. exact guard_nonvacuous. Qed.
Print Assumptions C05_guard_nonvacuous.
