(* C06 — non-2xx responses always raise a status-carrying, class-correct error.
   Only statements, [exact], and Print Assumptions live here.
   F06a-d are fixed; F06e (name shadowing in the endpoints module) is open. *)
From PG Require Import Lib.Strs Model.Dispatch Proofs.Dispatch.

(* The import NAMESPACE of the endpoints module is part of the model (call_ns): exception classes and model classes are
   both imported by name, the models last.  The FULL statement is false (C06_refuted_F06e): a model class named like an
   exception class shadows it and `raise NotFoundError(response=response)` fails with TypeError.

   C06_partial: for every transport kind, package, set of imported model class names, operation and status 100..599
   outside 200-299 — if the name the handler raises for that status is not shadowed (executable guard_F06e) — the call
   raises an exception whose class is a subclass of HTTPError carrying that status and the response; a subclass of
   ClientError for 4xx and of ServerError for 5xx. *)
Theorem C06_partial : forall k s ms o st,
  status_ok st -> guard_F06e k s ms o st = true -> C06_spec (call_ns k s ms o st) st.
Proof. exact partial_ns. Qed.
Print Assumptions C06_partial.

(* the guard is exact *)
Theorem C06_guard_exact : forall k s ms o st,
  status_ok st -> C06_spec (call_ns k s ms o st) st -> guard_F06e k s ms o st = true.
Proof. exact guard_ns_exact. Qed.
Print Assumptions C06_guard_exact.

(* the spec-level name-resolution side condition [no_shadowing] implies the guard for every operation and status *)
Theorem C06_no_shadowing_guard : forall k s ms o st,
  In o s -> no_shadowing s ms = true -> guard_F06e k s ms o st = true.
Proof. exact no_shadowing_guard. Qed.
Print Assumptions C06_no_shadowing_guard.

(* without the namespace (equivalently: no model class imported): the property holds for every input *)
Theorem C06_full_without_namespace : forall k s o st, status_ok st -> C06_spec (call k s o st) st.
Proof. exact full. Qed.
Print Assumptions C06_full_without_namespace.

Theorem C06_refuted_F06e :
  status_ok 404 /\ guard_F06e Custom [op_F06a] ms_F06e op_F06a 404 = false /\ no_shadowing [op_F06a] ms_F06e = false
  /\ call_ns Custom [op_F06a] ms_F06e op_F06a 404 = Crashed
  /\ ~ C06_spec (call_ns Custom [op_F06a] ms_F06e op_F06a 404) 404
  /\ call_ns Bundled [op_F06a] ms_F06e op_F06a 404 = Raised ClientError 404 true.
Proof. exact refuted_F06e. Qed.
Print Assumptions C06_refuted_F06e.

Theorem C06_guard_nonvacuous :
  no_shadowing [op_ok] [alias_name 410; [73;116;101;109]] = true
  /\ call_ns Custom [op_ok] [alias_name 410; [73;116;101;109]] op_ok 404 = Raised (Alias 404) 404 true.
Proof. exact guard_ns_nonvacuous. Qed.
Print Assumptions C06_guard_nonvacuous.

(* the alias import of the endpoints module can no longer fail (former F06d) *)
Theorem C06_imports_always : forall s, imports_ok s = true.
Proof. exact imports_always. Qed.
Print Assumptions C06_imports_always.

(* regression: the witnesses of the fixed findings *)
Theorem C06_fixed_F06a : call Bundled [op_F06a] op_F06a 404 = Raised ClientError 404 true
  /\ call Bundled [op_F06a] op_F06a 503 = Raised ServerError 503 true
  /\ call Bundled [op_F06a] op_F06a 302 = Raised HTTPError 302 true.
Proof. exact fixed_F06a. Qed.
Print Assumptions C06_fixed_F06a.
Theorem C06_fixed_F06b : call Custom [op_F06b] op_F06b 404 = Raised ClientError 404 true
  /\ call Custom [op_F06b] op_F06b 500 = Raised ServerError 500 true.
Proof. exact fixed_F06b. Qed.
Print Assumptions C06_fixed_F06b.
Theorem C06_fixed_F06c : call Custom [op_F06c] op_F06c 500 = Raised ServerError 500 true
  /\ call Custom [op_F06c] op_F06c 201 = Returned.
Proof. exact fixed_F06c. Qed.
Print Assumptions C06_fixed_F06c.
Theorem C06_fixed_F06d : call Custom [op_F06d] op_F06d 302 = Raised HTTPError 302 true
  /\ call Custom [op_F06d] op_F06d 404 = Raised ClientError 404 true
  /\ call Custom [op_F06d] op_F06d 200 = Returned.
Proof. exact fixed_F06d. Qed.
Print Assumptions C06_fixed_F06d.

(* the per-status aliases are still raised where declared *)
Theorem C06_alias_branch_live :
  call Custom [op_ok] op_ok 404 = Raised (Alias 404) 404 true /\ call Custom [op_ok] op_ok 503 = Raised (Alias 503) 503 true.
Proof. exact alias_branch_live. Qed.
Print Assumptions C06_alias_branch_live.

(* the three copies of _get_primary_response compute the same function *)
Theorem C06_primary_agree : forall o, primary_rs o = primary_eu o.
Proof. exact primary_agree. Qed.
Print Assumptions C06_primary_agree.

(* finite table facts, codes 400..599: alias class names pairwise distinct, none shadows HTTPError/ClientError/
   ServerError, and every 4xx/5xx code gets an alias when declared *)
Theorem C06_alias_names_sound :
  distinct_strs (map alias_name error_codes) = true
  /\ forallb (fun n => negb (mem_str (alias_name n) (map fst exc_hierarchy))) error_codes = true
  /\ forallb (fun n => alias_exists n) error_codes = true.
Proof. exact alias_names_sound. Qed.
Print Assumptions C06_alias_names_sound.
