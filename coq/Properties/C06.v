(* C06 — non-2xx responses always raise a status-carrying, class-correct error.
   Only statements, [exact], and Print Assumptions live here.

   The FULL statement
     forall kind spec op st, 100 <= st <= 599 -> ~ (200 <= st < 300) -> C06_spec (call kind spec op st) st
   is FALSE on the faithful model (and on the implementation): see C06_refuted_F06a..d below. *)
From PG Require Import Lib.Strs Model.Dispatch Proofs.Dispatch.

(* Under the executable guard, for every transport kind, every package (list of operations of any shape and
   length), every operation in it and every status 100..599 outside 200-299: the call raises an exception whose
   class is a subclass of HTTPError, carrying that status and the response, a subclass of ClientError for 4xx and
   of ServerError for 5xx. *)
Theorem C06_partial : forall k s o st,
  In o s -> status_ok st -> guard k s o st = true -> C06_spec (call k s o st) st.
Proof. exact partial. Qed.
Print Assumptions C06_partial.

(* The guard is exact: wherever it is false the conclusion is false (so guard = true <-> conclusion). *)
Theorem C06_guard_exact : forall k s o st,
  status_ok st -> C06_spec (call k s o st) st -> guard k s o st = true.
Proof. exact guard_exact. Qed.
Print Assumptions C06_guard_exact.

(* What does hold for BOTH transports and all statuses once F06c/F06d are excluded:
   never a value; an HTTPError instance carrying the status and the response. *)
Theorem C06_partial_status : forall k s o st,
  In o s -> status_ok st -> guard_F06c k o st = true -> guard_F06d s = true -> C06_weak_spec (call k s o st) st.
Proof. exact weak. Qed.
Print Assumptions C06_partial_status.

Theorem C06_refuted_F06a :
  status_ok 404 /\ guard_F06a Bundled 404 = false /\ guard_F06b Bundled op_F06a 404 = true
  /\ guard_F06c Bundled op_F06a 404 = true /\ guard_F06d [op_F06a] = true
  /\ call Bundled [op_F06a] op_F06a 404 = Raised HTTPError 404 true
  /\ ~ C06_spec (call Bundled [op_F06a] op_F06a 404) 404.
Proof. exact refuted_F06a. Qed.
Print Assumptions C06_refuted_F06a.

(* F06a is a whole class: every 4xx/5xx through the bundled transport, whatever the operation declares *)
Theorem C06_refuted_F06a_all : forall s o st, 400 <= st < 600 -> ~ C06_spec (call Bundled s o st) st.
Proof. exact F06a_all. Qed.
Print Assumptions C06_refuted_F06a_all.

Theorem C06_refuted_F06b :
  status_ok 404 /\ guard_F06a Custom 404 = true /\ guard_F06b Custom op_F06b 404 = false
  /\ guard_F06c Custom op_F06b 404 = true /\ guard_F06d [op_F06b] = true
  /\ call Custom [op_F06b] op_F06b 404 = Raised HTTPError 404 true
  /\ ~ C06_spec (call Custom [op_F06b] op_F06b 404) 404.
Proof. exact refuted_F06b. Qed.
Print Assumptions C06_refuted_F06b.

Theorem C06_refuted_F06c :
  status_ok 500 /\ guard_F06a Custom 500 = true /\ guard_F06b Custom op_F06c 500 = true
  /\ guard_F06c Custom op_F06c 500 = false /\ guard_F06d [op_F06c] = true
  /\ call Custom [op_F06c] op_F06c 500 = Returned
  /\ ~ C06_weak_spec (call Custom [op_F06c] op_F06c 500) 500.
Proof. exact refuted_F06c. Qed.
Print Assumptions C06_refuted_F06c.

Theorem C06_refuted_F06d :
  status_ok 302 /\ guard_F06a Custom 302 = true /\ guard_F06b Custom op_F06d 302 = true
  /\ guard_F06c Custom op_F06d 302 = true /\ guard_F06d [op_F06d] = false
  /\ (forall k st, call k [op_F06d] op_F06d st = ImportFails)
  /\ ~ C06_weak_spec (call Custom [op_F06d] op_F06d 302) 302.
Proof. exact refuted_F06d. Qed.
Print Assumptions C06_refuted_F06d.

Theorem C06_guard_nonvacuous :
  guard Custom [op_ok] op_ok 404 = true /\ call Custom [op_ok] op_ok 404 = Raised (Alias 404) 404 true
  /\ guard Custom [op_ok] op_ok 503 = true /\ call Custom [op_ok] op_ok 503 = Raised (Alias 503) 503 true
  /\ guard Custom [op_ok] op_ok 302 = true /\ guard Bundled [op_ok] op_ok 302 = true.
Proof. exact guard_nonvacuous. Qed.
Print Assumptions C06_guard_nonvacuous.

(* the three copies of _get_primary_response compute the same function *)
Theorem C06_primary_agree : forall o, primary_rs o = primary_eu o.
Proof. exact primary_agree. Qed.
Print Assumptions C06_primary_agree.

(* finite table facts, codes 400..599: alias class names pairwise distinct, none shadows HTTPError/ClientError/
   ServerError, and every 4xx/5xx code gets an alias when declared *)
Theorem C06_alias_names_sound :
  distinct_strs (map alias_name error_codes) = true
  /\ forallb (fun n => negb (mem_str (alias_name n) (map fst exc_hierarchy))) error_codes = true
  /\ forallb (fun n => alias_exists n) error_codes = true.
Proof. exact alias_names_sound. Qed.
Print Assumptions C06_alias_names_sound.
