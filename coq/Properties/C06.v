(* C06 — non-2xx responses always raise a status-carrying, class-correct error.
   Only statements, [exact], and Print Assumptions live here.
   F06a-e are fixed: the FULL statement holds on the model, import namespace of the endpoints module included. *)
From PG Require Import Lib.Strs Model.Dispatch Proofs.Dispatch.

(* The import NAMESPACE of the endpoints module is part of the model (call_ns): exception classes and model classes are
   both imported by name, the models last, so a model class named like an exception class would shadow it (former F06e);
   a colliding exception class is therefore referenced through its module.

   C06_full: for every transport kind, package, set [all] of model class names of the spec, set [ms] (included in [all]) of
   model classes imported by the endpoints module, operation and status 100..599 outside 200-299: the call raises an
   exception whose class is a subclass of HTTPError carrying that status and the response; a subclass of ClientError
   for 4xx and of ServerError for 5xx. *)
Theorem C06_full : forall k s all ms o st, incl ms all -> status_ok st -> C06_spec (call_ns k s all ms o st) st.
Proof. exact full_ns. Qed.
Print Assumptions C06_full.

(* regression for F06e: the witness raises the alias; the collision test is what prevents the crash *)
Theorem C06_fixed_F06e :
  call_ns Custom [op_F06a] ms_F06e ms_F06e op_F06a 404 = Raised (Alias 404) 404 true
  /\ exception_ref ms_F06e (Alias 404) = Qualified (alias_name 404)
  /\ call_ns Custom [op_F06a] [] ms_F06e op_F06a 404 = Crashed.
Proof. exact fixed_F06e. Qed.
Print Assumptions C06_fixed_F06e.

(* the alias import of the endpoints module can no longer fail (former F06d) *)
Theorem C06_imports_always : forall s, imports_ok s = true.
Proof. exact imports_always. Qed.
Print Assumptions C06_imports_always.

(* regression: the witnesses of the fixed findings *)
Theorem C06_fixed_F06a : call Bundled [op_F06a] op_F06a 404 = Raised ClientError 404 true
  /\ call Bundled [op_F06a] op_F06a 503 = Raised ServerError 503 true
  /\ call Bundled [op_F06a] op_F06a 302 = Raised HTTPError 302 true.
Proof. exact fixed_F06a. Qed.
Print Assumptions C06_fixed_F06a.
Theorem C06_fixed_F06b : call Custom [op_F06b] op_F06b 404 = Raised ClientError 404 true
  /\ call Custom [op_F06b] op_F06b 500 = Raised ServerError 500 true.
Proof. exact fixed_F06b. Qed.
Print Assumptions C06_fixed_F06b.
Theorem C06_fixed_F06c : call Custom [op_F06c] op_F06c 500 = Raised ServerError 500 true
  /\ call Custom [op_F06c] op_F06c 201 = Returned.
Proof. exact fixed_F06c. Qed.
Print Assumptions C06_fixed_F06c.
Theorem C06_fixed_F06d : call Custom [op_F06d] op_F06d 302 = Raised HTTPError 302 true
  /\ call Custom [op_F06d] op_F06d 404 = Raised ClientError 404 true
  /\ call Custom [op_F06d] op_F06d 200 = Returned.
Proof. exact fixed_F06d. Qed.
Print Assumptions C06_fixed_F06d.

(* the per-status aliases are still raised where declared *)
Theorem C06_alias_branch_live :
  call Custom [op_ok] op_ok 404 = Raised (Alias 404) 404 true /\ call Custom [op_ok] op_ok 503 = Raised (Alias 503) 503 true.
Proof. exact alias_branch_live. Qed.
Print Assumptions C06_alias_branch_live.

(* the three copies of _get_primary_response compute the same function *)
Theorem C06_primary_agree : forall o, primary_rs o = primary_eu o.
Proof. exact primary_agree. Qed.
Print Assumptions C06_primary_agree.

(* finite table facts, codes 400..599: alias class names pairwise distinct, none shadows HTTPError/ClientError/
   ServerError, and every 4xx/5xx code gets an alias when declared *)
Theorem C06_alias_names_sound :
  distinct_strs (map alias_name error_codes) = true
  /\ forallb (fun n => negb (mem_str (alias_name n) (map fst exc_hierarchy))) error_codes = true
  /\ forallb (fun n => alias_exists n) error_codes = true.
Proof. exact alias_names_sound. Qed.
Print Assumptions C06_alias_names_sound.
