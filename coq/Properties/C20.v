(* C20 — name derivation is total, valid and collision-safe.
   Only statements, [exact], and Print Assumptions live here.
   valid_name n = is_ident n && negb (is_kw n): non-empty ASCII identifier that is not in keyword.kwlist.
   Strings are arbitrary lists of code points (any length, any Unicode); "for all u_*" = for ANY behaviour of
   CPython's Unicode database on non-ASCII code points. *)
From PG Require Import Lib.Strs Gen.Tables Gen.T_C20 Model.Names Model.Dedup Proofs.Names Proofs.Dedup.
From Coq Require Import Permutation.

(* ---------------------------------------------------------------- class names (F20a fixed) *)
Theorem C20_full_class_name : forall s, valid_name (class_name s) = true.
Proof. exact class_name_valid. Qed.
Print Assumptions C20_full_class_name.

Example C20_fixed_F20a : valid_name (class_name w_none) = true /\ class_name w_none = [78;111;110;101;95].
Proof. exact fixed_F20a. Qed.
Print Assumptions C20_fixed_F20a.

(* ---------------------------------------------------------------- method / field / parameter names (F20b fixed) *)
Theorem C20_full_method_name : forall s, valid_name (method_name s) = true.
Proof. exact method_name_valid. Qed.
Print Assumptions C20_full_method_name.

Example C20_fixed_F20b : method_name w_dollar = s_unnamed /\ valid_name (method_name w_dollar) = true.
Proof. exact fixed_F20b. Qed.
Print Assumptions C20_fixed_F20b.

(* ---------------------------------------------------------------- module names (F20c fixed; F20h open) *)
Theorem C20_partial_module_name : forall u_word u_lower u_ign u_cased u_isdigit s,
  has_alnum s || no_foreign_word u_word s = true ->
  valid_name (module_name u_word u_lower u_isdigit u_ign u_cased s) = true.
Proof. exact module_name_valid_partial. Qed.
Print Assumptions C20_partial_module_name.

Example C20_fixed_F20c : forall u_word u_lower u_isdigit u_ign u_cased,
  module_name u_word u_lower u_isdigit u_ign u_cased w_dollar = s_unnamed /\ valid_name s_unnamed = true.
Proof. exact fixed_F20c. Qed.
Print Assumptions C20_fixed_F20c.

(* ---------------------------------------------------------------- enum member names: total and valid, no guard *)
Theorem C20_full_enum_member_str : forall u_upper v,
  exists n, enum_member_str u_upper v = Some n /\ valid_name n = true.
Proof. exact enum_member_str_valid. Qed.
Print Assumptions C20_full_enum_member_str.

Theorem C20_full_enum_member_int : forall u_upper v neg fb,
  exists n, enum_member_int u_upper v neg fb = Some n /\ valid_name n = true.
Proof. exact enum_member_int_valid. Qed.
Print Assumptions C20_full_enum_member_int.

(* ---------------------------------------------------------------- tag sanitisers and the identifier test: witnesses *)
Theorem C20_partial_tag_attr_name : forall u_word u_lower u_ign u_cased s,
  no_foreign_word u_word s = true -> first_alnum_not_digit s = true ->
  valid_name (tag_attr_name u_word u_lower u_ign u_cased s) = true.
Proof. exact tag_attr_name_valid_partial. Qed.
Print Assumptions C20_partial_tag_attr_name.

Theorem C20_partial_tag_class_name : forall u_word u_lower u_ign u_cased u_title s,
  no_foreign_word u_word s = true -> first_alnum_not_digit s = true ->
  valid_name (tag_class_name u_word u_lower u_title u_ign u_cased s) = true.
Proof. exact tag_class_name_valid_partial. Qed.
Print Assumptions C20_partial_tag_class_name.

Example C20_fixed_F20g : forall u_word u_lower u_ign u_cased,
  tag_attr_name u_word u_lower u_ign u_cased w_class = w_class ++ [95]
  /\ valid_name (tag_attr_name u_word u_lower u_ign u_cased w_class) = true
  /\ tag_attr_name u_word u_lower u_ign u_cased w_dollar = s_unnamed.
Proof. exact fixed_F20g. Qed.
Print Assumptions C20_fixed_F20g.

Theorem C20_refuted_F20d : forall u_word u_lower u_title u_ign u_cased,
  first_alnum_not_digit w_1st = false
  /\ is_ident (tag_attr_name u_word u_lower u_ign u_cased w_1st) = false
  /\ is_ident (tag_class_name u_word u_lower u_title u_ign u_cased w_1st) = false.
Proof. exact refuted_F20d. Qed.
Print Assumptions C20_refuted_F20d.

Theorem C20_refuted_F20h :
  let u_word := fun c => (c =? 178) || (c =? 189) in let id1 := fun c : N => [c] in let no := fun _ : N => false in
  no_foreign_word u_word w_x2 = false /\ tag_attr_name u_word id1 no no w_x2 = w_x2 /\ is_ident w_x2 = false
  /\ has_alnum w_half = false /\ no_foreign_word u_word w_half = false
  /\ module_name u_word id1 no no no w_half = w_half /\ is_ident w_half = false.
Proof. exact refuted_F20h. Qed.
Print Assumptions C20_refuted_F20h.

(* ---------------------------------------------------------------- the identifier test (F20i fixed) *)
Theorem C20_full_is_valid_python_identifier : forall s, is_valid_python_identifier s = valid_name s.
Proof. exact is_valid_python_identifier_spec. Qed.
Print Assumptions C20_full_is_valid_python_identifier.

Example C20_fixed_F20i : is_valid_python_identifier w_a_nl = false.
Proof. exact fixed_F20i. Qed.
Print Assumptions C20_fixed_F20i.

(* ---------------------------------------------------------------- namespaces: dataclass fields *)
Theorem C20_full_dedup_fields_nodup : forall props,
  NoDup (map snd (dedup_fields props))
  /\ length (dedup_fields props) = length props
  /\ Permutation (map fst (dedup_fields props)) (map fst props).
Proof. exact dedup_fields_nodup. Qed.
Print Assumptions C20_full_dedup_fields_nodup.

Theorem C20_full_dedup_fields_valid : forall props,
  Forall (fun n => valid_name n = true) (map snd (dedup_fields props)).
Proof. exact dedup_fields_valid. Qed.
Print Assumptions C20_full_dedup_fields_valid.

(* ---------------------------------------------------------------- namespaces: enum members *)
Theorem C20_full_dedup_enum : forall u_upper vals,
  exists ns, dedup_enum (enum_member_str u_upper) vals = Some ns
    /\ NoDup ns /\ length ns = length vals /\ Forall (fun n => valid_name n = true) ns.
Proof. exact dedup_enum_ok. Qed.
Print Assumptions C20_full_dedup_enum.

(* ---------------------------------------------------------------- namespaces: component schemas in the loader *)
Theorem C20_partial_build_keys : forall raw, guard_F20k raw = true -> guard_F20m raw = true ->
  build_keys raw = Some (combine (map class_name raw) (seq 0 (length raw))).
Proof. exact build_keys_partial. Qed.
Print Assumptions C20_partial_build_keys.

Theorem C20_refuted_F20k :
  (guard_F20k [w_a_b] = false /\ guard_F20m [w_a_b] = true /\ build_keys [w_a_b] = None)
  \/ (post_init_keeps_output = true /\ build_keys [w_a_b] = Some [([65;66], 0%nat)]
      /\ guard_F20k [w_n_o_n_e] = false /\ guard_F20m [w_n_o_n_e] = true /\ build_keys [w_n_o_n_e] = None).
Proof. exact refuted_F20k. Qed.
Print Assumptions C20_refuted_F20k.

Example C20_F20k_second_schema :
  build_keys [w_a_b; w_Pet] = None
  \/ build_keys [w_a_b; w_Pet] = Some [([65;66], 0%nat); (w_Pet, 1%nat)].
Proof. exact F20k_second_schema. Qed.
Print Assumptions C20_F20k_second_schema.

Theorem C20_refuted_F20m : guard_F20k [w_foo_bar; w_FooBar] = true /\ guard_F20m [w_foo_bar; w_FooBar] = false
  /\ build_keys [w_foo_bar; w_FooBar] = Some [(w_FooBar, 0%nat)].
Proof. exact refuted_F20m. Qed.
Print Assumptions C20_refuted_F20m.

Theorem C20_guard_schemas_nonvacuous :
  guard_F20k [w_foo_bar; w_none; w_1st] = true /\ guard_F20m [w_foo_bar; w_none; w_1st] = true.
Proof. exact schemas_guard_nonvacuous. Qed.
Print Assumptions C20_guard_schemas_nonvacuous.

(* ---------------------------------------------------------------- whole pipeline, referenced component schemas *)
Theorem C20_full_pipeline_models_nodup : forall raw out, pipeline_models raw = Some out ->
  NoDup (map (fun x => snd (fst x)) out) /\ NoDup (map (fun x => fst (fst x)) out).
Proof. exact pipeline_models_nodup. Qed.
Print Assumptions C20_full_pipeline_models_nodup.

Theorem C20_partial_pipeline_none_dropped : forall raw, guard_F20k raw = true -> guard_F20m raw = true ->
  exists out, pipeline_models raw = Some out /\ forall i, (i < length raw)%nat -> In i (map snd out).
Proof. exact pipeline_models_none_dropped. Qed.
Print Assumptions C20_partial_pipeline_none_dropped.

(* ---------------------------------------------------------------- namespaces: model classes and module stems *)
Theorem C20_full_dedup_models_nodup : forall raw,
  let out := dedup_models raw in
  NoDup (map (fun x => fst (snd x)) out) /\ NoDup (map (fun x => snd (snd x)) out)
  /\ length out = length raw /\ Permutation (map fst out) (seq 0 (length raw)).
Proof. exact dedup_models_nodup. Qed.
Print Assumptions C20_full_dedup_models_nodup.

Theorem C20_full_dedup_models_valid : forall raw,
  Forall (fun x => valid_name (fst (snd x)) = true /\ valid_name (snd (snd x)) = true) (dedup_models raw).
Proof. exact dedup_models_valid. Qed.
Print Assumptions C20_full_dedup_models_valid.

(* ---------------------------------------------------------------- namespaces: operation ids *)
Theorem C20_full_dedup_ops_prefix : forall ids,
  Forall2 (fun old new => prefixb old new = true) ids (dedup_ops ids).
Proof. exact dedup_ops_prefix. Qed.
Print Assumptions C20_full_dedup_ops_prefix.

Theorem C20_full_dedup_ops_nodup : forall ids, NoDup (map method_name (dedup_ops ids)).
Proof. exact dedup_ops_nodup. Qed.
Print Assumptions C20_full_dedup_ops_nodup.

Theorem C20_full_dedup_ops_idempotent : forall ids, dedup_ops (dedup_ops ids) = dedup_ops ids.
Proof. exact dedup_ops_idempotent. Qed.
Print Assumptions C20_full_dedup_ops_idempotent.

Example C20_fixed_F07a :
  dedup_ops w_F07a = [[102;111;111]; [102;111;111;95;50]; [102;111;111;95;50;95;50]]
  /\ nodupb (map method_name (dedup_ops w_F07a)) = true
  /\ dedup_ops (dedup_ops w_F07a) = dedup_ops w_F07a.
Proof. exact fixed_F07a. Qed.
Print Assumptions C20_fixed_F07a.

(* ---------------------------------------------------------------- namespaces: endpoint parameters *)
Theorem C20_partial_params : forall names body vars,
  guard_F04c names = true -> guard_F04d names body = true ->
  NoDup (params names body vars)
  /\ incl (map method_name names) (params names body vars)
  /\ (forall b, body = Some b -> In b (params names body vars)).
Proof. exact params_partial. Qed.
Print Assumptions C20_partial_params.

Theorem C20_refuted_F04c : guard_F04c w_F04c = false /\ nodupb (params w_F04c None []) = false.
Proof. exact refuted_F04c. Qed.
Print Assumptions C20_refuted_F04c.

Theorem C20_refuted_F04d : guard_F04c [s_body] = true /\ guard_F04d [s_body] (Some s_body) = false
  /\ length (params [s_body] (Some s_body) []) = 1%nat.
Proof. exact refuted_F04d. Qed.
Print Assumptions C20_refuted_F04d.

(* ---------------------------------------------------------------- non-vacuity of the guards *)
Theorem C20_guard_nonvacuous :
  has_alnum w_ok = true /\ first_alnum_not_digit w_ok = true
  /\ class_name w_ok = [71;101;116;72;116;116;112;82;101;115;112;111;110;115;101;50]
  /\ method_name w_ok = [103;101;116;95;104;116;116;112;95;114;101;115;112;111;110;115;101;50]
  /\ module_name_tok w_ok = [103;101;116;95;104;116;116;112;95;114;101;115;112;111;110;115;101;95;50].
Proof. exact guards_nonvacuous. Qed.
Print Assumptions C20_guard_nonvacuous.

(* ---------------------------------------------------------------- clean_auto_generated_operation_id (CLEAN strategy) *)
Theorem C20_full_clean_op_id_prefix : forall u_lower u_ign u_cased op_id method path,
  let r := clean_op_id u_lower u_ign u_cased op_id method path in
  r = op_id \/ (r <> [] /\ prefixb r op_id = true).
Proof. exact clean_op_id_prefix. Qed.
Print Assumptions C20_full_clean_op_id_prefix.

Theorem C20_full_clean_op_id_method_valid : forall u_lower u_ign u_cased op_id method path,
  valid_name (method_name (clean_op_id u_lower u_ign u_cased op_id method path)) = true.
Proof. exact clean_op_id_method_valid. Qed.
Print Assumptions C20_full_clean_op_id_method_valid.

Example C20_clean_op_id_example : forall u_lower u_ign u_cased,
  clean_op_id u_lower u_ign u_cased w_fastapi [80;79;83;84] [47;100;101;116;97;105;108;115]
  = [99;114;101;97;116;101;95;100;101;116;97;105;108;115].
Proof. exact clean_op_id_example. Qed.
Print Assumptions C20_clean_op_id_example.

(* ---------------------------------------------------------------- the second snake-caser, _to_module_name *)
(* to_module_name_agrees : forall s, is_ident s = true -> to_module_name_ascii s = module_name_tok s      — FALSE: *)
Theorem C20_refuted_to_module_name_agrees :
  is_ident w_UserV2 = true /\ to_module_name_ascii w_UserV2 <> module_name_tok w_UserV2
  /\ is_ident w_List = true /\ to_module_name_ascii w_List <> module_name_tok w_List.
Proof. exact refuted_to_module_name_agrees. Qed.
Print Assumptions C20_refuted_to_module_name_agrees.

