(* C20 — name derivation is total, valid and collision-safe.
   Only statements, [exact], and Print Assumptions live here. *)
From PG Require Import Lib.Strs Gen.Tables Gen.T_C20 Model.Names Model.Dedup Proofs.Names Proofs.Dedup.

Theorem C20_refuted_F20a : guard_F20a w_none = false /\ valid_name (class_name w_none) = false.
Proof. exact refuted_F20a. Qed.
Print Assumptions C20_refuted_F20a.
