(* C19 — output depends on the document's meaning, not its rendering.   PARTIAL.
   Only statements, [exact], and Print Assumptions live here.  Theorems are about Model/Render.v (key typing,
   operation parsing, tag grouping, dataclass fields).  Invariance of the WHOLE generator under re-rendering
   and reordering is not a theorem: it is the differential oracle of prop_C19.py; order sensitivity of schema
   parsing on cyclic graphs (F02a, F02c) belongs to the parser model of C02 and is only attributed here. *)
From PG Require Import Lib.Strs Model.Sites Model.Diff Model.Render Proofs.Render.
From PG Require Model.Parser.
From Coq Require Import Permutation.

(* FULL since the fix of F07b (parse_operations passes str(status_code) to parse_response): the same document with its
   numeric response codes written without quotes (YAML int keys) parses to the same operations *)
Theorem C19_keys_full : forall d, parse_doc (retype_keys d) = parse_doc d.
Proof. exact keys_full. Qed.
Print Assumptions C19_keys_full.

(* an int key prints back as the text it was read from: str(int(s)) = s for every canonical decimal string *)
Theorem C19_int_key_roundtrip : forall s, is_canonical_dec s = true -> dec (dec_value s 0) = s.
Proof. exact dec_roundtrip. Qed.
Print Assumptions C19_int_key_roundtrip.

Theorem C19_regression_F07b :
  all_str doc_F07b = true /\ all_str (retype_keys doc_F07b) = false /\
  map p_codes (parse_doc (retype_keys doc_F07b)) = [[s_200]] /\
  parse_doc (retype_keys doc_F07b) = parse_doc doc_F07b.
Proof. exact regression_F07b. Qed.
Print Assumptions C19_regression_F07b.

(* the SET of (tag client, method name, signature) is independent of the order of `paths`, for documents
   without method-name collisions (the property's own restriction) *)
Theorem C19_path_order_partial : forall tagkey san d d',
  Permutation d d' -> guard_collide san (parse_doc d) = true ->
  forall y, In y (emitted_methods tagkey san (parse_doc d)) <-> In y (emitted_methods tagkey san (parse_doc d')).
Proof. exact path_order_partial. Qed.
Print Assumptions C19_path_order_partial.

(* …and the restriction is needed: with a collision the suffix goes to whichever path comes second *)
Theorem C19_collision_order_dependent :
  guard_collide (fun s => s) (parse_doc doc_collide) = false /\
  Permutation doc_collide (rev doc_collide) /\
  exists y, In y (emitted_methods (fun s => s) (fun s => s) (parse_doc doc_collide)) /\
            ~ In y (emitted_methods (fun s => s) (fun s => s) (parse_doc (rev doc_collide))).
Proof. exact collide_order_dependent. Qed.
Print Assumptions C19_collision_order_dependent.

(* the generated field LIST of a dataclass (names incl. collision suffixes, types, required flags, order) is
   the same for every order of `properties` — property names are mapping keys, hence distinct; no other guard *)
Theorem C19_prop_order_full : forall san props props',
  NoDup (map fst props) -> Permutation props props' -> gen_fields san props = gen_fields san props'.
Proof. exact prop_order_full. Qed.
Print Assumptions C19_prop_order_full.

(* C19_schema_order, full statement (FALSE on cyclic documents: F02a, F02c - refuted on the parser model in
   Properties/C02.v):  forall S S', Permutation S S' -> forall n, model fields of n agree.
   PARTIAL: this is C02_order_independent (parser model of C02, coq/Model/Parser.v) - on C02's core fragment, with
   acyclic references within the depth limit (required of both orders), permuting components.schemas changes no
   schema's model fields, for every name n. *)
Theorem C19_schema_order_partial : forall md (S S' : Model.Parser.spec) rk rk',
  Model.Parser.core_spec S = true -> Model.Parser.ranked_b rk S = true -> Model.Parser.depth_ok rk S md = true ->
  Model.Parser.core_spec S' = true -> Model.Parser.ranked_b rk' S' = true -> Model.Parser.depth_ok rk' S' md = true ->
  Permutation S S' ->
  forall n, Model.Parser.model_fields (Model.Parser.parse_doc md S) n =
            Model.Parser.model_fields (Model.Parser.parse_doc md S') n.
Proof. exact schema_order_partial. Qed.
Print Assumptions C19_schema_order_partial.

Theorem C19_guard_nonvacuous :
  (guard_collide (fun s => s) (parse_doc doc_F07b) = true /\
   emitted_methods (fun s => s) (fun s => s) (parse_doc doc_F07b) = [(s_default_tag, s_op, [])]) /\
  (NoDup (map fst demo_props) /\
   gen_fields demo_san demo_props = [(n_id, [], true); (n_a_us_b, [], false); (n_a_us_b ++ [95;50], [], false)] /\
   gen_fields demo_san (rev demo_props) = gen_fields demo_san demo_props) /\
  (guard_acyclic graph_F02a = false /\ guard_no_allof_cycle graph_F02a = true /\
   guard_acyclic graph_F02c = false /\ guard_no_allof_cycle graph_F02c = false /\
   guard_acyclic graph_dag = true /\ guard_no_allof_cycle graph_dag = true /\
   guard_acyclic graph_selfref = true /\ guard_no_allof_cycle graph_selfref = true).
Proof.
  exact (conj guard_collide_nonvacuous (conj prop_order_nonvacuous graph_guards_examples)).
Qed.
Print Assumptions C19_guard_nonvacuous.
