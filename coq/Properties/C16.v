(* C16 — bundled converter obeys round-trip laws for any mapped dataclass.
   Only statements, [exact], and Print Assumptions live here. *)
From PG Require Import Lib.Strs Model.Converter Model.Serializer Proofs.Serializer.

(* F16a: the full statement "the serialiser terminates on every object graph" is false: on the heap
   with two dataclass instances referencing each other the result is a RecursionError for every
   recursion budget. *)
Theorem C16_refuted_F16a :
  guard_F16a h_F16a 0 = false /\ forall fuel, ~ serializer_ok (serialize fuel h_F16a [] 0).
Proof. exact refuted_F16a. Qed.
Print Assumptions C16_refuted_F16a.
