(* C16 — bundled converter obeys round-trip laws for any mapped dataclass.
   Only statements, [exact], and Print Assumptions live here. *)
From PG Require Import Lib.Strs Model.Converter Model.Serializer Proofs.Converter Proofs.Serializer Proofs.SerializerCyclic.

(* Encode then decode.  For every class table whose classes have bijective key maps and supported
   field types (ct_ok), every annotation built from them (ty_ok) and every instance conforming to it
   (inst_ok: nested through lists, dicts, optionals and dataclasses, no bound on size or depth):
   unstructuring succeeds, and structuring the result gives the same instance back — for any base64
   codec with decode (encode b) = b and any ISO parsers (instances hold canonical ISO texts), with
   the hooks of the table's classes registered (what structure_from_dict / unstructure_to_dict do
   first for the classes reachable from their argument). *)
Theorem C16_encode_decode :
  forall b64dec b64enc dt_parse date_parse uuid_parse time_parse int_of_str float_of_str str_of_json ct sreg ureg,
    (forall b, b64dec (b64enc b) = Some b) ->
    ct_ok ct -> all_hooked ct sreg -> all_hooked ct ureg ->
    forall v T, ty_ok T = true -> inst_ok dt_parse date_parse uuid_parse time_parse ct T v ->
    exists j, unstructure b64enc ct ureg v T = Ok j /\
              structure b64dec dt_parse date_parse uuid_parse time_parse int_of_str float_of_str str_of_json ct sreg j T = Ok v.
Proof.
  intros until T. intros Hok Hi.
  destruct (encode_decode_all b64dec b64enc dt_parse date_parse uuid_parse time_parse int_of_str float_of_str str_of_json
              ct sreg ureg H H0 H1 H2 v T Hok Hi) as [j [Hu [Hs _]]].
  exists j. split; assumption.
Qed.
Print Assumptions C16_encode_decode.

(* Decode then encode.  Under the same hypotheses on the table, plus: defaults of optional fields are
   None / [] / {} on Optional / list / dict annotations (defaults_ok).  Every document that conforms to
   an annotation (canonical leaf texts, no unknown keys, required keys present; arbitrary nesting, no
   bound) is structured, the instance is unstructured again, and the result is the input document
   up to (1) object keys in class order and (2) absent optional keys reappearing as null or as an empty
   container (rt_rel). *)
Theorem C16_decode_encode :
  forall b64dec b64enc dt_parse date_parse uuid_parse time_parse int_of_str float_of_str str_of_json ct sreg ureg,
    (forall b, b64dec (b64enc b) = Some b) ->
    ct_ok ct -> all_hooked ct sreg -> all_hooked ct ureg -> defaults_ok ct ->
    forall j T, ty_ok T = true -> conforms b64enc dt_parse date_parse uuid_parse time_parse ct T j ->
    exists v j',
      structure b64dec dt_parse date_parse uuid_parse time_parse int_of_str float_of_str str_of_json ct sreg j T = Ok v /\
      unstructure b64enc ct ureg v T = Ok j' /\ rt_rel ct T j j'.
Proof.
  intros until T. intros Hok Hc.
  destruct (decode_encode_all b64dec b64enc dt_parse date_parse uuid_parse time_parse int_of_str float_of_str
              str_of_json ct sreg ureg H H0 H1 H2 H3 j T Hok Hc) as [v [j' [Hs [Hu [Hr _]]]]].
  exists v, j'. repeat split; assumption.
Qed.
Print Assumptions C16_decode_encode.

(* non-vacuity of the decode side: the demo table has lawful defaults and a conforming document with an
   absent optional key *)
Theorem C16_decode_guard_nonvacuous :
  defaults_ok ct_demo /\
  forall b64enc dt_parse date_parse uuid_parse time_parse,
    conforms b64enc dt_parse date_parse uuid_parse time_parse ct_demo (TData 0) (j_demo b64enc).
Proof. exact (conj ct_demo_defaults j_demo_conforms). Qed.
Print Assumptions C16_decode_guard_nonvacuous.

(* The hypotheses above are satisfiable by a non-trivial table (renamed keys incl. a key that differs
   from another only by case-fold, an optional list, bytes). *)
Theorem C16_guard_nonvacuous :
  ct_ok ct_demo /\ all_hooked ct_demo [0] /\ ty_ok (TData 0) = true /\
  forall dt_parse date_parse uuid_parse time_parse, inst_ok dt_parse date_parse uuid_parse time_parse ct_demo (TData 0) v_demo.
Proof. exact (conj ct_demo_ok (conj demo_hooked (conj eq_refl v_demo_ok))). Qed.
Print Assumptions C16_guard_nonvacuous.

(* FULL.  The same through the two entry points, for ANY prior state of the converter: the model's
   registration walk is proved to be the least set containing the classes of the annotation and
   closed under "a field mentions a class" (Proofs/Reach.v), and the round trip only needs the hooks
   of that set. *)
Theorem C16_api_encode_decode :
  forall b64dec b64enc dt_parse date_parse uuid_parse time_parse int_of_str float_of_str str_of_json ct,
    (forall b, b64dec (b64enc b) = Some b) -> ct_ok ct ->
    forall c v st, inst_ok dt_parse date_parse uuid_parse time_parse ct (TData c) v ->
      exists j st', unstructure_to_dict b64enc ct st v = (st', Returned j) /\
        snd (structure_from_dict b64dec dt_parse date_parse uuid_parse time_parse int_of_str float_of_str str_of_json ct st' (TData c) j)
        = Returned v.
Proof. exact api_encode_decode_full. Qed.
Print Assumptions C16_api_encode_decode.

(* FULL.  History independence of decoding: for every class table, annotation, document (conforming
   or not), codecs and every two prior states, structure_from_dict gives the same outcome. *)
Theorem C16_history_free :
  forall b64dec dt_parse date_parse uuid_parse time_parse int_of_str float_of_str str_of_json ct T st1 st2 j,
    snd (structure_from_dict b64dec dt_parse date_parse uuid_parse time_parse int_of_str float_of_str str_of_json ct st1 T j) =
    snd (structure_from_dict b64dec dt_parse date_parse uuid_parse time_parse int_of_str float_of_str str_of_json ct st2 T j).
Proof. exact history_free_full. Qed.
Print Assumptions C16_history_free.

(* History independence of encoding, under the guard "the instance conforms to its class" (so that
   every dataclass instance in it sits where an annotation says, none hidden under Any). *)
Theorem C16_history_free_encode_partial :
  forall b64enc dt_parse date_parse uuid_parse time_parse ct, ct_ok ct -> forall c v st1 st2,
    inst_ok dt_parse date_parse uuid_parse time_parse ct (TData c) v ->
    snd (unstructure_to_dict b64enc ct st1 v) = snd (unstructure_to_dict b64enc ct st2 v).
Proof. exact history_free_encode. Qed.
Print Assumptions C16_history_free_encode_partial.

(* F16b: without that guard encoding IS history-dependent: a dict holding an instance is written with
   the python attribute names by a fresh converter and with the wire keys once the class has been
   encoded on its own (the root is not a dataclass, so nothing is registered for it). *)
Theorem C16_refuted_F16b : forall b64enc,
  let st2 := fst (unstructure_to_dict b64enc [k_F16b] st0 inst_F16b) in
  snd (unstructure_to_dict b64enc [k_F16b] st0 root_F16b)
    = Returned (JObj [([107], JObj [([120;95;121], JInt 5)])]) /\
  snd (unstructure_to_dict b64enc [k_F16b] st2 root_F16b)
    = Returned (JObj [([107], JObj [([120;89], JInt 5)])]).
Proof. exact refuted_F16b. Qed.
Print Assumptions C16_refuted_F16b.

(* Whatever the history, the type and the document: structure_from_dict returns or raises ValueError. *)
Theorem C16_errors :
  forall b64dec dt_parse date_parse uuid_parse time_parse int_of_str float_of_str str_of_json ct st T j,
    match snd (structure_from_dict b64dec dt_parse date_parse uuid_parse time_parse int_of_str float_of_str str_of_json ct st T j) with
    | Returned _ | ValueError => True
    | OtherError => False
    end.
Proof. exact errors_only_ValueError. Qed.
Print Assumptions C16_errors.

(* The serialiser under the guard: on every heap whose stored references all point to smaller indices
   (topologically ordered = acyclic object graph), without forward-reference dataclasses and whose
   scalar cells hold scalars, serialize terminates from every root with JSON that has no null-valued
   key (the result type is JSON, so it is serialisable), with the recursion budget 4*|heap|+8 — no
   bound on the heap. *)
Theorem C16_serializer_partial : forall h, ranked h = true -> fwd_free h = true -> scalars_ok h = true ->
  forall r, (r < length h)%nat -> serializer_ok (serialize_top h r).
Proof. exact serializer_top_partial. Qed.
Print Assumptions C16_serializer_partial.

Theorem C16_serializer_guard_nonvacuous :
  ranked h_demo = true /\ fwd_free h_demo = true /\ scalars_ok h_demo = true /\
  serialize_top h_demo 4 = SOk (JObj [([97], JObj [([108], JArr [JInt 3; JNull])]); ([98], JInt 3)]).
Proof. exact h_demo_ok. Qed.
Print Assumptions C16_serializer_guard_nonvacuous.

(* The cyclic shapes that do work (forward-reference dataclasses: pair cycle, back edge through a
   dict-typed attribute, child.parent inside a list) — one concrete heap, evaluated. *)
Theorem C16_serializer_cyclic_example : serializer_ok (serialize_top h_cyc 0) /\ ranked h_cyc = false.
Proof. exact h_cyc_ok. Qed.
Print Assumptions C16_serializer_cyclic_example.

(* The serialiser on the CYCLIC heaps that work.  Heaps whose dataclass instances are forward-reference
   ones (attributes may point anywhere: self reference, a/b pair, rings, back pointers — arbitrary
   cycles through dataclass attributes), whose lists / dicts store only smaller indices (no cycle made
   of containers alone) and without cattrs-followed dataclasses (those are F16a): from every root the
   serialiser terminates within the model's budget, with JSON that has no null-valued key.
   (lexicographic measure: dataclass objects not yet in the visited set, then the index) *)
Theorem C16_serializer_cyclic : forall h, container_ranked h = true -> scalars_ok h = true ->
  forall r, serializer_ok (serialize_top h r).
Proof. exact serializer_cyclic. Qed.
Print Assumptions C16_serializer_cyclic.

Theorem C16_serializer_cyclic_nonvacuous :
  container_ranked h_cyc2 = true /\ scalars_ok h_cyc2 = true /\ ranked h_cyc2 = false /\
  serialize_top h_cyc2 2 = SOk (JObj [([112], JObj []); ([105], JObj []); ([107], JArr [JObj [([118], JInt 1)]])]).
Proof. exact h_cyc2_in_class. Qed.
Print Assumptions C16_serializer_cyclic_nonvacuous.

(* F16d (fixed): the old witness — a dict holding a forward-reference dataclass that holds another
   instance — now serialises to plain JSON without null-valued keys. *)
Theorem C16_regression_F16d :
  serialize_top h_F16d 2 = SOk (JObj [([107], JObj [([112], JObj [])])]) /\ serializer_ok (serialize_top h_F16d 2).
Proof. exact regression_F16d. Qed.
Print Assumptions C16_regression_F16d.

(* F16a: the full statement "the serialiser terminates on every object graph" is false: on the heap
   with two dataclass instances referencing each other the result is a RecursionError for every
   recursion budget. *)
Theorem C16_refuted_F16a :
  guard_F16a h_F16a 0 = false /\ forall fuel, ~ serializer_ok (ser fuel h_F16a true [] 0).
Proof. exact refuted_F16a. Qed.
Print Assumptions C16_refuted_F16a.
