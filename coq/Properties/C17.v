(* C17 — transport applies defaults, per-request headers and auth as documented.
   Only statements, [exact], and Print Assumptions live here. *)
From PG Require Import Lib.Strs Model.Transport Proofs.Transport.

(* FULL statement.  For every transport (defaults, any composition tree of the bundled plugins, bearer
   token) and every history of requests through it (OAuth2 refresh state persists): each request that
   leaves the transport carries exactly one field per case-insensitive header name, whose value is the
   documented one (defaults < per-request headers < each plugin's contribution in composition order,
   auth plugin over bearer_token), an API key at its configured location (header, query or cookie)
   under its configured name, the caller's params / cookies / body otherwise unchanged; and it fails
   exactly when an API key has an invalid location.  No guard: both defects that used to refute this
   (F17a, F17b) were repaired in /repo. *)
Theorem C17_full : forall kws t, Forall3 agrees1 kws (session t kws) (spec_session t kws).
Proof. exact session_agrees. Qed.
Print Assumptions C17_full.

(* regression witnesses of the repaired defects *)
Theorem C17_apikey_query_reaches_wire :
  snd (request {| t_defaults := None; t_auth := Some (ApiKey s_v s_query s_k); t_bearer := None |} kw0)
  = Ok {| w_headers := []; w_params := Some [(s_k, s_v)]; w_cookies := None; w_body := [] |}.
Proof. exact apikey_query_reaches_wire. Qed.
Print Assumptions C17_apikey_query_reaches_wire.

Theorem C17_case_variant_overrides :
  snd (request t_F17b kw_F17b)
  = Ok {| w_headers := [(s_xd, s_k)]; w_params := None; w_cookies := None; w_body := [] |}.
Proof. exact case_variant_overrides. Qed.
Print Assumptions C17_case_variant_overrides.
