(* C17 — transport applies defaults, per-request headers and auth as documented.
   Only statements, [exact], and Print Assumptions live here. *)
From PG Require Import Lib.Strs Model.Transport Proofs.Transport.

(* For every history of requests through one transport: under the guard (no two header names
   differing only in case [F17b]) each request that leaves the transport carries exactly the
   documented headers (case-insensitively: defaults < per-request < plugins in composition order),
   an API key at its configured location (header, query or cookie) under its configured name,
   caller params/cookies/body otherwise unchanged, and it fails exactly when an API key has an
   invalid location. *)
Theorem C17_partial : forall kws t,
  (forall kw, In kw kws -> guard t kw = true) ->
  Forall3 agrees1 kws (session t kws) (spec_session t kws).
Proof. exact session_agrees. Qed.
Print Assumptions C17_partial.

Theorem C17_refuted_F17b :
  guard_F17b t_F17b kw_F17b = false /\ ~ agrees t_F17b kw_F17b.
Proof. exact refuted_F17b. Qed.
Print Assumptions C17_refuted_F17b.

Theorem C17_guard_nonvacuous : exists t kw, guard t kw = true /\ t_auth t <> None /\ k_headers kw <> None.
Proof. eexists _, _. split; [exact guard_nonvacuous | split; discriminate]. Qed.
Print Assumptions C17_guard_nonvacuous.

(* regression witness for the repaired defect F17a *)
Theorem C17_apikey_query_reaches_wire :
  snd (request {| t_defaults := None; t_auth := Some (ApiKey s_v s_query s_k); t_bearer := None |} kw0)
  = Ok {| w_headers := []; w_params := Some [(s_k, s_v)]; w_cookies := None; w_body := [] |}.
Proof. exact apikey_query_reaches_wire. Qed.
Print Assumptions C17_apikey_query_reaches_wire.
