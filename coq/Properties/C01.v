(* C01 — every accepted spec yields a package that compiles and imports.
   Only statements, [exact], and Print Assumptions live here.  PARTIAL: Python syntax validity is decided only by
   compile() in the oracle; the theorems are about the import-semantics model Model/PyImport.v (validated on every
   run against the real import of every module of every generated package) and its sufficient condition pkg_ok. *)
From PG Require Import Lib.Strs Model.CoreImports Model.PyImport Gen.T_C01 Proofs.PyImport.

(* One witness package per known finding: the named pkg_ok conjunct is false and the import fails in the model with
   the error class observed on the real generator's output for the corpus document. *)
Theorem C01_refuted_F01a :
  c_acyclic w_F01a = false /\ c_parses w_F01a = true /\ c_closed w_F01a = true /\
  failed_with (ex w_F01a [n_p; n_models; n_a]) EImport /\ failed_with (ex w_F01a [n_p; n_models]) EImport.
Proof. exact refuted_F01a. Qed.
Print Assumptions C01_refuted_F01a.

(* F01b is fixed (optional forward references are now quoted as a whole); what remains is a fact about the
   import-semantics model: a package with `"Node" | None` in a class body does not import *)
Theorem C01_model_rejects_str_or_none :
  c_no_str_or w_F01b = false /\ c_acyclic w_F01b = true /\
  failed_with (ex w_F01b [n_p; n_models; n_node]) EType.
Proof. exact refuted_F01b. Qed.
Print Assumptions C01_model_rejects_str_or_none.

(* F01c is fixed (such fields get a trailing underscore); model fact: a default bound before its own annotation shadows it *)
Theorem C01_model_rejects_shadowing_default :
  c_no_shadow w_F01c = false /\ c_no_str_or w_F01c = true /\ c_acyclic w_F01c = true /\
  failed_with (ex w_F01c [n_p; n_models; n_ev]) EType.
Proof. exact refuted_F01c. Qed.
Print Assumptions C01_model_rejects_shadowing_default.

(* F06d is fixed (133c12b); model fact: `from X import a` fails when X never binds a and X.a is not a module *)
Theorem C01_model_rejects_unbound_import :
  c_static builtin_names w_F06d = false /\ c_closed w_F06d = true /\ c_acyclic w_F06d = true /\
  failed_with (ex w_F06d [n_p; n_ep]) EImport.
Proof. exact refuted_F06d. Qed.
Print Assumptions C01_model_rejects_unbound_import.

(* a file that does not compile is the statement Broken in the model: the class of the former findings
   F01e, F20a, F01g, F13b, F04c (all fixed in /repo; their documents are regression cases) *)
Theorem C01_model_rejects_unparsable_file :
  c_parses w_syntax = false /\ failed_with (ex w_syntax [n_p; n_mocks]) ESyntax.
Proof. exact refuted_syntax. Qed.
Print Assumptions C01_model_rejects_unparsable_file.

(* F01f is fixed (complete module paths are no longer rewritten); model fact: importing a module that is not emitted fails *)
Theorem C01_model_rejects_missing_module :
  c_closed w_F01f = false /\ failed_with (ex w_F01f [n_dup; n_dup; n_ep]) ENotFound.
Proof. exact refuted_F01f. Qed.
Print Assumptions C01_model_rejects_missing_module.

(* F20e: Enum refuses _sunder_ member names *)
Theorem C01_refuted_F20e :
  c_static builtin_names w_F20e = false /\ c_parses w_F20e = true /\ failed_with (ex w_F20e [n_p; n_ev]) EValue.
Proof. exact refuted_F20e. Qed.
Print Assumptions C01_refuted_F20e.

Theorem C01_guard_nonvacuous :
  pkg_ok builtin_names w_good = true /\
  forallb (fun m => match ex w_good (path m) with Ok _ => true | Fail _ => false end) w_good = true.
Proof. exact good_pkg_ok. Qed.
Print Assumptions C01_guard_nonvacuous.

(* The real theorem: pkg_ok is a SUFFICIENT condition.  For every package skeleton whatsoever: if the executable
   check holds (files parse, import-closed, eager import graph acyclic w.r.t. the computed order, no names imported
   from own ancestors, distinct non-empty paths, bodies evaluate in topological order with exports bound), then
   importing ANY module of the package from a fresh interpreter succeeds in the model of CPython's import system
   (fuel size pkg = number of modules + 2 suffices).  Proof: induction over the import order with an invariant on
   sys.modules (finished modules equal their canonical state; partially initialised ones all have higher rank). *)
Theorem pkg_ok_sound : forall builtins pkg, pkg_ok builtins pkg = true ->
  forall m, In m pkg -> exec_pkg builtins pkg (size pkg) m = Ok tt.
Proof. exact pkg_ok_sound. Qed.
Print Assumptions pkg_ok_sound.

(* The generator at skeleton level for the models sub-package (Model/GenModels.v, tied to the real ModelsEmitter by
   Corr.C01.run_models).  The general statement
       forall builtins root sp, acyclic_refs sp = true -> names_ok root sp = true ->
         pkg_ok_with builtins (gen_models_skeleton root sp) (models_order root sp) = true
   is NOT proved (see Proofs/GenModels.v and the manifest); it is evaluated on every generated spec of the modelled
   fragment on every run.  Proved: a closed instance with every kind of reference, with the corollary (through
   pkg_ok_with_sound) that all its modules import, and the cyclic counterpart. *)
From PG Require Import Model.GenModels Proofs.GenModels.
Theorem pkg_ok_with_sound : forall builtins pkg order, pkg_ok_with builtins pkg order = true ->
  forall m, In m pkg -> exec_pkg builtins pkg (size pkg) m = Ok tt.
Proof. exact pkg_ok_with_sound. Qed.
Print Assumptions pkg_ok_with_sound.

Theorem C01_models_instance_imports : forall m, In m (gen_models_skeleton g_root g_spec) ->
  exec_pkg builtin_names (gen_models_skeleton g_root g_spec) (size (gen_models_skeleton g_root g_spec)) m = Ok tt.
Proof. exact models_instance_imports. Qed.
Print Assumptions C01_models_instance_imports.

Theorem C01_models_cyclic_F01a :
  acyclic_refs g_cyc = false /\
  pkg_ok builtin_names (gen_models_skeleton g_root g_cyc) = false /\
  exec_pkg builtin_names (gen_models_skeleton g_root g_cyc) (size (gen_models_skeleton g_root g_cyc))
           (mkMod (g_root ++ [s_models; n_a]) []) = Fail EImport.
Proof. exact models_cyclic. Qed.
Print Assumptions C01_models_cyclic_F01a.
