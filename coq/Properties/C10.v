(* C10 — without force, existing output is never touched; writes stay contained.
   Only statements, [exact], and Print Assumptions live here. *)
From PG Require Import Lib.Strs Model.GenFS Proofs.GenFS.

(* Full statement (FALSE on the unchanged tree, see the two refutations): the three theorems below
   without the guards [wf_pkg] (F10a) and [guard_F10b] (F10b).  [wf_tmp] — the temporary directory
   and the project root are disjoint — is an assumption on the environment, not a finding.

   Without force, when the output package directory exists: for every file system, every package
   layout, every spec (tags, models) and a failure injected on entry of any stage (or none), the
   part of the file system below the project root is identical afterwards — whether generation
   returns, finds differences or fails part-way. *)
Theorem C10_partial_noforce : forall c k s,
  wf_tmp c = true -> guard_F10b c = true ->
  force c = false -> exists_b s (out_dir c) = true ->
  restrict_root c (fst (generate c k s)) = restrict_root c s.
Proof. exact noforce_untouched. Qed.
Print Assumptions C10_partial_noforce.

(* In every mode (force or not, existing tree or not, any failure point): every path strictly below
   the project root that is created, rewritten or removed lies in the output package directory,
   the core package directory, or is a package directory on the way to them / its __init__.py. *)
Theorem C10_partial_contained : forall c k s p,
  wf_pkg c = true -> wf_tmp c = true -> guard_F10b c = true ->
  In p (touched s (plan c k s)) -> sunder (root c) p = true -> allowed c p = true.
Proof. exact contained. Qed.
Print Assumptions C10_partial_contained.

(* The same two statements when generation is interrupted at an arbitrary point (after any number n of
   the planned file operations, not only on entry of a stage). *)
Theorem C10_partial_noforce_anywhere : forall c k s n,
  wf_tmp c = true -> guard_F10b c = true ->
  restrict_root c (exec (exec s (firstn n (plan_main c true k))) [(Final, Rmtree (tmp c))]) = restrict_root c s.
Proof. exact noforce_untouched_anywhere. Qed.
Print Assumptions C10_partial_noforce_anywhere.

Theorem C10_partial_contained_anywhere : forall c k s n p,
  wf_pkg c = true -> wf_tmp c = true -> guard_F10b c = true ->
  In p (touched s (firstn n (plan c k s))) -> sunder (root c) p = true -> allowed c p = true.
Proof. exact contained_anywhere. Qed.
Print Assumptions C10_partial_contained_anywhere.

(* A failure INSIDE a stage: the OS refuses the first creation of a file or directory with a given base name
   (what FileManager.write_file / ensure_dir see).  The emitters that have an except handler (client, mocks)
   append to an error log in the system temp directory before re-raising; [wf_log]: that log is not below the
   project root (environment assumption).  Same two conclusions, for every name, configuration and file system. *)
Theorem C10_partial_noforce_io : forall c name s,
  wf_tmp c = true -> wf_log c = true -> guard_F10b c = true ->
  force c = false -> exists_b s (out_dir c) = true ->
  restrict_root c (fst (generate_io c name s)) = restrict_root c s.
Proof. exact noforce_untouched_io. Qed.
Print Assumptions C10_partial_noforce_io.

Theorem C10_partial_contained_io : forall c name s p,
  wf_pkg c = true -> wf_tmp c = true -> wf_log c = true -> guard_F10b c = true ->
  In p (touched s (plan_io c name s)) -> sunder (root c) p = true -> allowed c p = true.
Proof. exact contained_io. Qed.
Print Assumptions C10_partial_contained_io.

(* ... and the call raises, unless the refusal hits a model module, where it is swallowed (F10c) *)
Theorem C10_partial_io_raises : forall c name s,
  io_refused c name s = true -> guard_F10c c name s = true -> exists st, snd (generate_io c name s) = FailIO st.
Proof. exact io_raises. Qed.
Print Assumptions C10_partial_io_raises.

Theorem C10_refuted_F10c :
  wf_pkg cfg_F10c = true /\ wf_tmp cfg_F10c = true /\ wf_log cfg_F10c = true /\ guard_F10b cfg_F10c = true
  /\ force cfg_F10c = false /\ exists_b fs_F10c (out_dir cfg_F10c) = true
  /\ guard_F10c cfg_F10c (s_pet ++ s_dot_tmp) fs_F10c = false
  /\ io_refused cfg_F10c (s_pet ++ s_dot_tmp) fs_F10c = true
  /\ snd (generate_io cfg_F10c (s_pet ++ s_dot_tmp) fs_F10c) = Returned Ok.
Proof. exact refuted_F10c. Qed.
Print Assumptions C10_refuted_F10c.

Theorem C10_io_nonvacuous :
  wf_pkg cfg_ok_force = true /\ wf_log cfg_ok_force = true
  /\ snd (generate_io cfg_ok_force s_client_py fs_ok) = FailIO Client
  /\ lookup (sys_tmp cfg_ok_force ++ [s_error_log]) (fst (generate_io cfg_ok_force s_client_py fs_ok)) = Some (File 1)
  /\ snd (generate_io cfg_ok s_mock_client fs_ok) = FailIO Mocks
  /\ (length (filter (sunder pR) (touched fs_ok (plan_io cfg_ok_force s_client_py fs_ok))) > 30)%nat.
Proof. exact io_nonvacuous. Qed.
Print Assumptions C10_io_nonvacuous.

(* The call returns iff no stage failed and (in the diff path) nothing differs; it fails with the
   injected stage iff that stage is reached. *)
Theorem C10_result : forall c k s,
  snd (generate c k s) = Ok <->
  fails k (stages (diff_mode c s) (post c)) = false
  /\ diff_mode c s && has_diff c (exec s (plan_main c (diff_mode c s) k)) = false.
Proof. exact result_ok_iff. Qed.
Print Assumptions C10_result.

Theorem C10_result_fail : forall c k s f,
  snd (generate c k s) = Fail f <-> k = Some f /\ fails k (stages (diff_mode c s) (post c)) = true.
Proof. exact result_fail_iff. Qed.
Print Assumptions C10_result_fail.

(* output_package "." with force: the sentinel file at the project root is removed, and it is not
   an allowed path *)
Theorem C10_refuted_F10a :
  wf_pkg cfg_F10a = false /\ wf_tmp cfg_F10a = true /\ guard_F10b cfg_F10a = true
  /\ In (pR ++ [s_sentinel]) (touched fs0 (plan cfg_F10a None fs0))
  /\ sunder (root cfg_F10a) (pR ++ [s_sentinel]) = true
  /\ allowed cfg_F10a (pR ++ [s_sentinel]) = false
  /\ lookup (pR ++ [s_sentinel]) (fst (generate cfg_F10a None fs0)) = None.
Proof. exact refuted_F10a. Qed.
Print Assumptions C10_refuted_F10a.

(* post-processing started from the project root, no force, existing package: the tree changes *)
Theorem C10_refuted_F10b :
  wf_pkg cfg_F10b = true /\ wf_tmp cfg_F10b = true /\ guard_F10b cfg_F10b = false
  /\ force cfg_F10b = false /\ exists_b fs1 (out_dir cfg_F10b) = true
  /\ restrict_root cfg_F10b (fst (generate cfg_F10b None fs1)) <> restrict_root cfg_F10b fs1
  /\ In (pR ++ [s_ruff_cache]) (touched fs1 (plan cfg_F10b None fs1))
  /\ allowed cfg_F10b (pR ++ [s_ruff_cache]) = false.
Proof. exact refuted_F10b. Qed.
Print Assumptions C10_refuted_F10b.

Theorem C10_guard_nonvacuous :
  wf_pkg cfg_ok = true /\ wf_tmp cfg_ok = true /\ guard_F10b cfg_ok = true
  /\ exists_b fs_ok (out_dir cfg_ok) = true
  /\ snd (generate cfg_ok None fs_ok) = DiffFound
  /\ snd (generate cfg_ok (Some Models) fs_ok) = Fail Models
  /\ (length (touched fs_ok (plan cfg_ok None fs_ok)) > 40)%nat
  /\ lookup pT (fst (generate cfg_ok (Some Models) fs_ok)) = None.
Proof. exact guard_nonvacuous. Qed.
Print Assumptions C10_guard_nonvacuous.

Theorem C10_guard_nonvacuous_force :
  wf_pkg cfg_ok_force = true /\ guard_F10b cfg_ok_force = true
  /\ snd (generate cfg_ok_force None fs_ok) = Ok
  /\ (length (filter (sunder pR) (touched fs_ok (plan cfg_ok_force None fs_ok))) > 40)%nat
  /\ lookup (pR ++ [s_sentinel]) (fst (generate cfg_ok_force None fs_ok)) = Some (File 1).
Proof. exact guard_nonvacuous_force. Qed.
Print Assumptions C10_guard_nonvacuous_force.
