(* C10 — without force, existing output is never touched; writes stay contained.
   Only statements, [exact], and Print Assumptions live here.

   All three findings of this property (F10a package names with empty components, F10b ruff cache,
   F10c swallowed model-write failure) are fixed; no finding guard is left.  The remaining
   hypotheses are assumptions on the ENVIRONMENT: [wf_tmp] (the temporary directory and the project
   root are disjoint) and [wf_log] (the emitters' error logs in the system temp directory are not
   below the project root). *)
From PG Require Import Lib.Strs Model.GenFS Proofs.GenFS.

(* Without force, when the output package directory exists: for every file system, package layout
   (valid or not), spec (tags, models) and a failure injected on entry of any stage (or none), the
   part of the file system below the project root is identical afterwards — whether generation
   returns, finds differences, rejects the package names or fails part-way. *)
Theorem C10_full_noforce : forall c k s,
  wf_tmp c = true ->
  force c = false -> exists_b s (out_dir c) = true ->
  restrict_root c (fst (generate c k s)) = restrict_root c s.
Proof. exact noforce_untouched. Qed.
Print Assumptions C10_full_noforce.

(* In every mode (force or not, existing tree or not, any failure point, any package names): every path
   strictly below the project root that is created, rewritten or removed lies in the output package
   directory, the core package directory, or is a package directory on the way to them / its __init__.py. *)
Theorem C10_full_contained : forall c k s p,
  wf_tmp c = true ->
  In p (touched s (plan c k s)) -> sunder (root c) p = true -> allowed c p = true.
Proof. exact contained. Qed.
Print Assumptions C10_full_contained.

(* The same when generation is interrupted after any number n of the planned file operations. *)
Theorem C10_full_noforce_anywhere : forall c k s n,
  wf_tmp c = true ->
  restrict_root c (exec (exec s (firstn n (plan_main c true k))) [(Final, Rmtree (tmp c))]) = restrict_root c s.
Proof. exact noforce_untouched_anywhere. Qed.
Print Assumptions C10_full_noforce_anywhere.

Theorem C10_full_contained_anywhere : forall c k s n p,
  wf_tmp c = true ->
  In p (touched s (firstn n (plan c k s))) -> sunder (root c) p = true -> allowed c p = true.
Proof. exact contained_anywhere. Qed.
Print Assumptions C10_full_contained_anywhere.

(* A failure INSIDE a stage: the OS refuses the first creation of a file or directory with a given base name
   (what FileManager.write_file / ensure_dir see).  The client and mocks emitters append to an error log in the
   system temp directory before re-raising. *)
Theorem C10_full_noforce_io : forall c name s,
  wf_tmp c = true -> wf_log c = true ->
  force c = false -> exists_b s (out_dir c) = true ->
  restrict_root c (fst (generate_io c name s)) = restrict_root c s.
Proof. exact noforce_untouched_io. Qed.
Print Assumptions C10_full_noforce_io.

Theorem C10_full_contained_io : forall c name s p,
  wf_tmp c = true -> wf_log c = true ->
  In p (touched s (plan_io c name s)) -> sunder (root c) p = true -> allowed c p = true.
Proof. exact contained_io. Qed.
Print Assumptions C10_full_contained_io.

(* ... and the call raises *)
Theorem C10_full_io_raises : forall c name s,
  io_refused c name s = true -> exists st, snd (generate_io c name s) = FailIO st.
Proof. exact io_raises. Qed.
Print Assumptions C10_full_io_raises.

(* The process is KILLED between two file operations (no `finally`, no TemporaryDirectory clean-up): after any
   prefix of the planned operations of the non-force path the tree below the project root is identical
   (the leftovers are in the temporary directory only). *)
Theorem C10_full_noforce_killed : forall c k s n,
  wf_tmp c = true ->
  restrict_root c (exec s (firstn n (plan_main c true k))) = restrict_root c s.
Proof. exact noforce_untouched_killed. Qed.
Print Assumptions C10_full_noforce_killed.

Theorem C10_full_noforce_killed_io : forall c name s n,
  wf_tmp c = true -> wf_log c = true ->
  force c = false -> exists_b s (out_dir c) = true ->
  restrict_root c (exec s (firstn n (plan_io c name s))) = restrict_root c s.
Proof. exact noforce_untouched_killed_io. Qed.
Print Assumptions C10_full_noforce_killed_io.

(* The environment assumptions follow from more primitive facts: tempfile.gettempdir() is not the project root
   nor inside it; mkdtemp returns a fresh child of it; the project root is an existing directory; ancestors of
   existing paths exist; the two log paths are not directories. *)
Theorem C10_env : forall c s, env_ok c s -> wf_tmp c = true /\ wf_log c = true.
Proof. exact env_wf. Qed.
Print Assumptions C10_env.

Theorem C10_full_noforce_env : forall c k s,
  env_ok c s -> force c = false -> exists_b s (out_dir c) = true ->
  restrict_root c (fst (generate c k s)) = restrict_root c s.
Proof. exact noforce_untouched_env. Qed.
Print Assumptions C10_full_noforce_env.

(* Every path strictly below the root AFTER a call was there before or is an allowed path of the call. *)
Theorem C10_full_paths : forall c k s p,
  wf_tmp c = true ->
  In p (paths (fst (generate c k s))) -> sunder (root c) p = true ->
  In p (paths s) \/ allowed c p = true.
Proof. exact generate_paths. Qed.
Print Assumptions C10_full_paths.

(* Command line entry: the defaults of cli.py (regenerated from source) make a plain run a non-force run with
   post-processing and an explicit core package; such a run over an existing output package touches nothing. *)
Theorem C10_cli_default_untouched : forall c a k s,
  wf_tmp c = true -> a_force a = None ->
  exists_b s (out_dir (cli_config c a)) = true ->
  restrict_root c (fst (generate (cli_config c a) k s)) = restrict_root c s.
Proof. exact cli_default_untouched. Qed.
Print Assumptions C10_cli_default_untouched.

Theorem C10_cli_defaults : forall c a, a_force a = None -> a_no_postprocess a = None ->
  force (cli_config c a) = false /\ post (cli_config c a) = true /\ core_pkg (cli_config c a) <> None.
Proof. exact cli_defaults. Qed.
Print Assumptions C10_cli_defaults.

(* Post-processing is handed an explicit list of files: the *.py files the emitters wrote.  In the direct path
   every one of them is an allowed path (so the containment theorems above cover ruff's in-place rewrites). *)
Theorem C10_post_targets_allowed : forall c q,
  valid_pkgs c = true -> In q (post_targets c false) -> allowed c (root c ++ q) = true.
Proof. exact post_targets_allowed. Qed.
Print Assumptions C10_post_targets_allowed.

(* The call returns iff no stage failed, the package names are valid and (in the diff path) nothing
   differs; it fails with the injected stage iff that stage is reached. *)
Theorem C10_result : forall c k s,
  snd (generate c k s) = Ok <->
  fails k (run_stages c (diff_mode c s)) = false /\ valid_pkgs c = true
  /\ diff_mode c s && has_diff c (exec s (plan_main c (diff_mode c s) k)) = false.
Proof. exact result_ok_iff. Qed.
Print Assumptions C10_result.

Theorem C10_result_fail : forall c k s f,
  snd (generate c k s) = Fail f <-> k = Some f /\ fails k (run_stages c (diff_mode c s)) = true.
Proof. exact result_fail_iff. Qed.
Print Assumptions C10_result_fail.

(* package names that are not dotted identifiers are rejected before anything is touched *)
Theorem C10_invalid_rejected : forall c s,
  valid_pkgs c = false -> generate c None s = (s, Invalid) /\ plan c None s = [].
Proof. exact invalid_rejected. Qed.
Print Assumptions C10_invalid_rejected.

(* regressions: the witnesses of the fixed findings *)
Theorem C10_fixed_F10a :
  valid_pkgs cfg_F10a = false /\ generate cfg_F10a None fs0 = (fs0, Invalid) /\ touched fs0 (plan cfg_F10a None fs0) = [].
Proof. exact fixed_F10a. Qed.
Print Assumptions C10_fixed_F10a.

Theorem C10_fixed_F10b :
  valid_pkgs cfg_F10b = true /\ post cfg_F10b = true /\ cwd cfg_F10b = root cfg_F10b
  /\ restrict_root cfg_F10b (fst (generate cfg_F10b None fs1)) = restrict_root cfg_F10b fs1
  /\ snd (generate cfg_F10b None fs1) = DiffFound.
Proof. exact fixed_F10b. Qed.
Print Assumptions C10_fixed_F10b.

Theorem C10_fixed_F10c :
  valid_pkgs cfg_F10c = true /\ force cfg_F10c = false /\ exists_b fs_F10c (out_dir cfg_F10c) = true
  /\ io_refused cfg_F10c (s_pet ++ s_dot_tmp) fs_F10c = true
  /\ snd (generate_io cfg_F10c (s_pet ++ s_dot_tmp) fs_F10c) = FailIO Models
  /\ restrict_root cfg_F10c (fst (generate_io cfg_F10c (s_pet ++ s_dot_tmp) fs_F10c)) = restrict_root cfg_F10c fs_F10c.
Proof. exact fixed_F10c. Qed.
Print Assumptions C10_fixed_F10c.

Theorem C10_nonvacuous :
  valid_pkgs cfg_ok = true /\ wf_tmp cfg_ok = true
  /\ exists_b fs_ok (out_dir cfg_ok) = true
  /\ snd (generate cfg_ok None fs_ok) = DiffFound
  /\ snd (generate cfg_ok (Some Models) fs_ok) = Fail Models
  /\ (length (touched fs_ok (plan cfg_ok None fs_ok)) > 40)%nat
  /\ lookup pT (fst (generate cfg_ok (Some Models) fs_ok)) = None.
Proof. exact guard_nonvacuous. Qed.
Print Assumptions C10_nonvacuous.

Theorem C10_nonvacuous_force :
  valid_pkgs cfg_ok_force = true /\ wf_tmp cfg_ok_force = true
  /\ snd (generate cfg_ok_force None fs_ok) = Ok
  /\ (length (filter (sunder pR) (touched fs_ok (plan cfg_ok_force None fs_ok))) > 40)%nat
  /\ lookup (pR ++ [s_sentinel]) (fst (generate cfg_ok_force None fs_ok)) = Some (File 1).
Proof. exact guard_nonvacuous_force. Qed.
Print Assumptions C10_nonvacuous_force.

Theorem C10_io_nonvacuous :
  valid_pkgs cfg_ok_force = true /\ wf_log cfg_ok_force = true
  /\ snd (generate_io cfg_ok_force s_client_py fs_ok) = FailIO Client
  /\ lookup (sys_tmp cfg_ok_force ++ [s_error_log]) (fst (generate_io cfg_ok_force s_client_py fs_ok)) = Some (File 1)
  /\ snd (generate_io cfg_ok s_mock_client fs_ok) = FailIO Mocks
  /\ (length (filter (sunder pR) (touched fs_ok (plan_io cfg_ok_force s_client_py fs_ok))) > 30)%nat.
Proof. exact io_nonvacuous. Qed.
Print Assumptions C10_io_nonvacuous.
