(* C10 — without force, existing output is never touched; writes stay contained.
   Only statements, [exact], and Print Assumptions live here. *)
From PG Require Import Lib.Strs Model.GenFS Proofs.GenFS.
