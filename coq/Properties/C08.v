(* C08 — parsing cyclic and deep schema graphs terminates with balanced tracker state.
   Only statements, [exact], and Print Assumptions live here.
   [run c t] executes the enter / early-return / try-finally skeleton of schema_parser._parse_schema over an
   ARBITRARY tree [t] of nested invocations (with arbitrary registrations in between), on the tracker of
   core/parsing/unified_cycle_detection.py transcribed in Model/Cycle.v. *)
From PG Require Import Lib.Strs Model.Cycle Proofs.Cycle.

(* Balance, at full strength: whatever the parser body does (any call tree, any names, any registrations, any
   depth limit, any tracker contents), a _parse_schema invocation started at rest (empty stack, depth 0)
   ends at rest. *)
Theorem C08_balanced : forall t c, rest c -> rest (run c t).
Proof. exact balanced. Qed.
Print Assumptions C08_balanced.

(* The invariant behind it; the LIFO reading (stack after = stack before) is false, see C08_not_lifo. *)
Theorem C08_run_below : forall t c,
  NoDup (stack c) ->
  NoDup (stack (run c t)) /\ incl (stack (run c t)) (stack c) /\ depth (run c t) <= depth c.
Proof. exact run_below. Qed.
Print Assumptions C08_run_below.

Theorem C08_not_lifo : exists c t, NoDup (stack c) /\ stack (run c t) <> stack c.
Proof. exact not_lifo. Qed.
Print Assumptions C08_not_lifo.

(* After any sequence of top-level invocations from a fresh context: the tracker is at rest and every schema
   name that was entered is in a terminal state or took the RETURN_EXISTING fall-through (F08b); the empty
   name is excluded (F08d). *)
Theorem C08_terminal : forall c n,
  good c -> rest c -> In n (g_entered c) -> n <> [] ->
  terminal (state_of c n) = true \/ In n (g_fell c).
Proof. exact terminal_or_fell. Qed.
Print Assumptions C08_terminal.

(* build_schemas' loop: [run_tops] executes top-level invocations ([Plain]) and re-parses of depth placeholders
   ([Fresh k t]: schema_states.pop(k) then _parse_schema(k, …)), any number of passes. *)
Theorem C08_balanced_loop : forall l c, rest c -> rest (run_tops c l).
Proof. exact balanced_tops. Qed.
Print Assumptions C08_balanced_loop.

Theorem C08_good_reachable : forall md tops,
  forallb fresh_ok tops = true -> good (run_tops (init md) tops) /\ rest (run_tops (init md) tops).
Proof. intros md tops H. apply good_tops; [exact H | apply good_init | split; reflexivity]. Qed.
Print Assumptions C08_good_reachable.

(* The tracker half of C08 under the executable guard "no fall-through was taken" (and the structural condition
   that state is only dropped for the schema parsed next, which is what build_schemas does): depth placeholders
   included — PLACEHOLDER_DEPTH is terminal, and a re-parsed placeholder ends COMPLETED or as a placeholder. *)
Theorem C08_partial : forall md tops,
  guard_F08b md tops = true -> forallb fresh_ok tops = true ->
  let c := run_tops (init md) tops in
  rest c /\ forall n, In n (g_entered c) -> n <> [] -> terminal (state_of c n) = true.
Proof. exact partial. Qed.
Print Assumptions C08_partial.

Theorem C08_fresh_nonvacuous :
  let c := run_tops (init 1) tops_fresh in
  guard_F08b 1 tops_fresh = true /\ forallb fresh_ok tops_fresh = true
  /\ length (exceeded c) = 3%nat
  /\ forallb (fun n => terminal (state_of c n)) [[83;48]; [83;49]; [83;50]; [83;51]] = true
  /\ map (state_of c) [[83;49]; [83;50]; [83;51]] = [Completed; Completed; Completed].
Proof. exact fresh_nonvacuous. Qed.
Print Assumptions C08_fresh_nonvacuous.

(* ---- "every declared schema name is present in the result" ----
   What the TRACKER guarantees for build_schemas' top-level (re-)parse of a name without tracker state, started at
   rest: never RETURN_EXISTING / RETURN_PLACEHOLDER / a cycle placeholder; either the body runs or the tracker
   itself registers the depth placeholder. *)
Theorem C08_top_enter_action : forall n c c1 a,
  stack c = [] -> state_of c n = NotStarted -> enter (Some n) c = (c1, a) ->
  a = AContinue \/ (a = ACreate /\ registered c1 n = true).
Proof. exact top_enter_action. Qed.
Print Assumptions C08_top_enter_action.

(* Presence therefore reduces to ONE explicit hypothesis about the parser body, [contract]: a top-level frame that
   is told to CONTINUE has registered its name (raw or sanitised, [alt]) when it reaches the `finally`; plus: the body
   never deletes a registration.  Under it, every name visited by the loop of build_schemas (first visits and
   re-parses of depth placeholders, any number of passes) is present at the end, so the post-condition
   RuntimeError "was not parsed" cannot fire.  The contract is NOT proved here (the body is not modelled in Cycle.v);
   it is evaluated on every implementation trace by the correspondence driver (guard bit 5) and fails exactly for
   F08e.  [visited] covers all declared names: checked per document by the oracle (declared name present). *)
Theorem C08_all_present : forall alt l c,
  rest c -> contract alt c l = true -> forallb (fun x => no_unreg (top_call x)) l = true ->
  forall n, In n (visited c l) -> present alt (run_tops c l) n = true.
Proof. exact all_present_tops. Qed.
Print Assumptions C08_all_present.

Theorem C08_contract_nonvacuous :
  contract (fun n => n) (init 1) tops_fresh = true
  /\ visited (init 1) tops_fresh = [[83;48]; [83;49]; [83;50]; [83;51]]
  /\ forallb (fun x => no_unreg (top_call x)) tops_fresh = true.
Proof. exact contract_nonvacuous. Qed.
Print Assumptions C08_contract_nonvacuous.

(* F08e: a null schema node breaks the contract (implementation's trace of corpus/C08/F08e.json) *)
Theorem C08_refuted_F08e :
  let c := run_tops (init default_max_depth) tops_F08e in
  contract (fun n => n) (init default_max_depth) tops_F08e = false
  /\ visited (init default_max_depth) tops_F08e = [[88]; [89]; [88]]
  /\ present (fun n => n) c [88] = false /\ present (fun n => n) c [89] = true
  /\ rest c /\ guard_F08b default_max_depth tops_F08e = true.
Proof. exact refuted_F08e. Qed.
Print Assumptions C08_refuted_F08e.

(* Counted depth: in a tree of NAMED frames started within the limit, recursion_depth never exceeds
   max_depth + 1 (the extra one is the frame that is answered with the depth placeholder). *)
Theorem C08_depth_named : forall t, all_named t = true ->
  forall c, NoDup (stack c) -> depth c <= max_depth c ->
  g_peak (run c t) <= N.max (g_peak c) (max_depth c + 1) /\ max_depth (run c t) = max_depth c.
Proof. exact depth_named. Qed.
Print Assumptions C08_depth_named.

(* True nesting: as long as no fall-through happens (F08b) and no name is empty (F08d), the counted depth IS the
   number of active _parse_schema frames, so the peaks coincide ... *)
Theorem C08_nesting_is_depth : forall md tops,
  guard_F08b md tops = true -> forallb (fun x => names_truthy (top_call x)) tops = true ->
  let c := run_tops (init md) tops in g_peak_nest c = g_peak c.
Proof. exact nesting_is_depth. Qed.
Print Assumptions C08_nesting_is_depth.

(* ... and when moreover every frame is named (F08a excluded), recursion IS cut at the configured limit:
   never more than limit + 1 nested _parse_schema frames. *)
Theorem C08_nesting_named_bounded : forall md tops,
  guard_F08b md tops = true -> forallb (fun x => all_named (top_call x)) tops = true ->
  g_peak_nest (run_tops (init md) tops) <= md + 1.
Proof. exact nesting_named_bounded. Qed.
Print Assumptions C08_nesting_named_bounded.

(* F08a: anonymous frames are never depth-checked: for EVERY limit there is a tree nesting deeper than
   limit + 1 for which no depth placeholder is produced (nesting and counted depth grow without bound). *)
Theorem C08_refuted_F08a : forall md, exists t,
  guard_F08a md [Plain t] = false /\ exceeded (run_tops (init md) [Plain t]) = [].
Proof. exact refuted_F08a. Qed.
Print Assumptions C08_refuted_F08a.

Theorem C08_anon_unbounded : forall md k,
  let c := run_tops (init md) [Plain (anon_chain k)] in
  g_peak_nest c = N.of_nat k + 1 /\ g_peak c = N.of_nat k + 1 /\ exceeded c = [] /\ states c = [] /\ rest c.
Proof. exact anon_unbounded. Qed.
Print Assumptions C08_anon_unbounded.

(* F08b: the implementation's own call tree on corpus/C08/F08b.json: at rest, but C (entered) is NOT_STARTED *)
Theorem C08_refuted_F08b :
  let c := run_tops (init default_max_depth) (plain tops_F08b) in
  rest c /\ guard_F08b default_max_depth (plain tops_F08b) = false /\ forallb names_truthy tops_F08b = true
  /\ In [67] (g_entered c) /\ terminal (state_of c [67]) = false.
Proof. exact refuted_F08b. Qed.
Print Assumptions C08_refuted_F08b.

(* F08c is fixed: regression — the fixed implementation's call tree on `Alias: {$ref: Target}` registers both
   declared names *)
Theorem C08_regress_F08c :
  let c := run_tops (init default_max_depth) (plain tops_F08c) in
  rest c /\ guard_F08b default_max_depth (plain tops_F08c) = true
  /\ forallb (fun n => terminal (state_of c n)) declared_F08c = true
  /\ all_present declared_F08c c = true.
Proof. exact regress_F08c. Qed.
Print Assumptions C08_regress_F08c.

(* F08d is fixed in the loader (empty component names are rejected before parsing; the witness now has an empty
   trace).  Why the name theorems keep the hypothesis n <> []: the tracker still leaves "" IN_PROGRESS. *)
Theorem C08_regress_F08d :
  rest (run_tops (init default_max_depth) []) /\ g_entered (run_tops (init default_max_depth) []) = [].
Proof. exact regress_F08d. Qed.
Print Assumptions C08_regress_F08d.

Theorem C08_tracker_empty_name :
  let c := run_tops (init default_max_depth) (plain tops_empty_name) in
  rest c /\ forallb names_truthy tops_empty_name = false
  /\ In [] (g_entered c) /\ state_of c [] = InProgress.
Proof. exact tracker_empty_name. Qed.
Print Assumptions C08_tracker_empty_name.

Theorem C08_guard_nonvacuous :
  guard_F08b default_max_depth (plain tops_ring) = true /\ forallb names_truthy tops_ring = true
  /\ length (cycles (run_tops (init default_max_depth) (plain tops_ring))) = 2%nat
  /\ length (g_entered (run_tops (init default_max_depth) (plain tops_ring))) = 7%nat.
Proof. exact guard_nonvacuous. Qed.
Print Assumptions C08_guard_nonvacuous.

(* the logged execution used by the correspondence check computes the same final context as [run] *)
Theorem C08_trace_is_run : forall md tops, fst (run_tops_acc (init md) [] tops) = run_tops (init md) tops.
Proof. intros md tops. apply trace_final. Qed.
Print Assumptions C08_trace_is_run.

(* ---- termination of the reduced, fuel-based parser model (w02's Model/Parser.v, imported by Model/CycleParser.v);
   fuel bounds the nesting of _parse_schema frames, running out of it stands for exhausting the interpreter stack ---- *)
From PG Require Model.Parser Model.CycleParser Proofs.CycleParser.
Module CP := PG.Model.CycleParser.
Module PP := PG.Model.Parser.

(* stage 1: acyclic core documents whose deepest chain fits the limit (w02's fidelity fragment) *)
Theorem C08_parse_terminates_acyclic : forall md S rk,
  PP.core_spec S = true -> PP.ranked_b rk S = true -> PP.depth_ok rk S md = true ->
  PP.oof (PP.parse_doc md S) = false /\ PP.all_present S (PP.parse_doc md S) = true.
Proof. exact Proofs.CycleParser.parse_terminates_acyclic. Qed.
Print Assumptions C08_parse_terminates_acyclic.

(* stage 2, BOUNDED SCOPE: every reference graph (all cycles included) over <= 3 named object schemas, limits
   0..6, 20, 150: at most 8 nested frames, no fuel exhaustion, every declared name registered.
   The statement for arbitrary reference graphs is NOT proved; it is kept, with the argument and what is missing,
   at the end of Proofs/CycleParser.v. *)
Theorem C08_parse_terminates_small_scope : forall k m md,
  (1 <= k <= 3)%nat -> In m (CP.masks k) -> In md Proofs.CycleParser.limits ->
  (CP.needed md (CP.gspec k m) <= 8)%nat
  /\ PP.oof (PP.parse_doc md (CP.gspec k m)) = false
  /\ PP.all_present (CP.gspec k m) (PP.parse_doc md (CP.gspec k m)) = true.
Proof. exact Proofs.CycleParser.parse_terminates_small_scope. Qed.
Print Assumptions C08_parse_terminates_small_scope.

(* named frames alone can nest deeper than limit + 1 (fall-through, F08b): 7 frames at limit 4 *)
Theorem C08_nesting_exceeds_limit :
  CP.needed 4 (CP.gspec 3 484) = 7%nat /\ CP.needed 150 (CP.gspec 3 484) = 8%nat.
Proof. exact Proofs.CycleParser.nesting_exceeds_limit. Qed.
Print Assumptions C08_nesting_exceeds_limit.
