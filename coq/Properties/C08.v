From PG Require Import Lib.Strs Model.Cycle Proofs.Cycle.
Theorem C08_stub : True. Proof. exact stub_true. Qed.
Print Assumptions C08_stub.
