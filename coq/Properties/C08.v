(* C08 — parsing cyclic and deep schema graphs terminates with balanced tracker state.
   Only statements, [exact], and Print Assumptions live here.
   [run c t] executes the enter / early-return / try-finally skeleton of schema_parser._parse_schema over an
   ARBITRARY tree [t] of nested invocations (with arbitrary registrations in between), on the tracker of
   core/parsing/unified_cycle_detection.py transcribed in Model/Cycle.v. *)
From PG Require Import Lib.Strs Model.Cycle Proofs.Cycle.

(* Balance, at full strength: whatever the parser body does (any call tree, any names, any registrations, any
   depth limit, any tracker contents), a _parse_schema invocation started at rest (empty stack, depth 0)
   ends at rest. *)
Theorem C08_balanced : forall t c, rest c -> rest (run c t).
Proof. exact balanced. Qed.
Print Assumptions C08_balanced.

(* The invariant behind it; the LIFO reading (stack after = stack before) is false, see C08_not_lifo. *)
Theorem C08_run_below : forall t c,
  NoDup (stack c) ->
  NoDup (stack (run c t)) /\ incl (stack (run c t)) (stack c) /\ depth (run c t) <= depth c.
Proof. exact run_below. Qed.
Print Assumptions C08_run_below.

Theorem C08_not_lifo : exists c t, NoDup (stack c) /\ stack (run c t) <> stack c.
Proof. exact not_lifo. Qed.
Print Assumptions C08_not_lifo.

(* After any sequence of top-level invocations from a fresh context: the tracker is at rest and every schema
   name that was entered is in a terminal state or took the RETURN_EXISTING fall-through (F08b); the empty
   name is excluded (F08d). *)
Theorem C08_terminal : forall c n,
  good c -> rest c -> In n (g_entered c) -> n <> [] ->
  terminal (state_of c n) = true \/ In n (g_fell c).
Proof. exact terminal_or_fell. Qed.
Print Assumptions C08_terminal.

Theorem C08_good_reachable : forall md tops, good (run_list (init md) tops).
Proof. intros md tops. apply run_list_good. apply good_init. Qed.
Print Assumptions C08_good_reachable.

(* The tracker half of C08 under the executable guard "no fall-through was taken": *)
Theorem C08_partial : forall md tops,
  guard_F08b md tops = true ->
  let c := run_list (init md) tops in
  rest c /\ forall n, In n (g_entered c) -> n <> [] -> terminal (state_of c n) = true.
Proof. exact partial. Qed.
Print Assumptions C08_partial.

(* Counted depth: in a tree of NAMED frames started within the limit, recursion_depth never exceeds
   max_depth + 1 (the extra one is the frame that is answered with the depth placeholder). *)
Theorem C08_depth_named : forall t, all_named t = true ->
  forall c, NoDup (stack c) -> depth c <= max_depth c ->
  g_peak (run c t) <= N.max (g_peak c) (max_depth c + 1) /\ max_depth (run c t) = max_depth c.
Proof. exact depth_named. Qed.
Print Assumptions C08_depth_named.

(* True nesting: as long as no fall-through happens (F08b) and no name is empty (F08d), the counted depth IS the
   number of active _parse_schema frames, so the peaks coincide ... *)
Theorem C08_nesting_is_depth : forall md tops,
  guard_F08b md tops = true -> forallb names_truthy tops = true ->
  let c := run_list (init md) tops in g_peak_nest c = g_peak c.
Proof. exact nesting_is_depth. Qed.
Print Assumptions C08_nesting_is_depth.

(* ... and when moreover every frame is named (F08a excluded), recursion IS cut at the configured limit:
   never more than limit + 1 nested _parse_schema frames. *)
Theorem C08_nesting_named_bounded : forall md tops,
  guard_F08b md tops = true -> forallb all_named tops = true ->
  g_peak_nest (run_list (init md) tops) <= md + 1.
Proof. exact nesting_named_bounded. Qed.
Print Assumptions C08_nesting_named_bounded.

(* F08a: anonymous frames are never depth-checked: for EVERY limit there is a tree nesting deeper than
   limit + 1 for which no depth placeholder is produced (nesting and counted depth grow without bound). *)
Theorem C08_refuted_F08a : forall md, exists t,
  guard_F08a md [t] = false /\ exceeded (run_list (init md) [t]) = [].
Proof. exact refuted_F08a. Qed.
Print Assumptions C08_refuted_F08a.

Theorem C08_anon_unbounded : forall md k,
  let c := run_list (init md) [anon_chain k] in
  g_peak_nest c = N.of_nat k + 1 /\ g_peak c = N.of_nat k + 1 /\ exceeded c = [] /\ states c = [] /\ rest c.
Proof. exact anon_unbounded. Qed.
Print Assumptions C08_anon_unbounded.

(* F08b: the implementation's own call tree on corpus/C08/F08b.json: at rest, but C (entered) is NOT_STARTED *)
Theorem C08_refuted_F08b :
  let c := run_list (init default_max_depth) tops_F08b in
  rest c /\ guard_F08b default_max_depth tops_F08b = false /\ forallb names_truthy tops_F08b = true
  /\ In [67] (g_entered c) /\ terminal (state_of c [67]) = false.
Proof. exact refuted_F08b. Qed.
Print Assumptions C08_refuted_F08b.

(* F08c is fixed: regression — the fixed implementation's call tree on `Alias: {$ref: Target}` registers both
   declared names *)
Theorem C08_regress_F08c :
  let c := run_list (init default_max_depth) tops_F08c in
  rest c /\ guard_F08b default_max_depth tops_F08c = true
  /\ forallb (fun n => terminal (state_of c n)) declared_F08c = true
  /\ all_present declared_F08c c = true.
Proof. exact regress_F08c. Qed.
Print Assumptions C08_regress_F08c.

(* F08d is fixed in the loader (empty component names are rejected before parsing; the witness now has an empty
   trace).  Why the name theorems keep the hypothesis n <> []: the tracker still leaves "" IN_PROGRESS. *)
Theorem C08_regress_F08d :
  rest (run_list (init default_max_depth) []) /\ g_entered (run_list (init default_max_depth) []) = [].
Proof. exact regress_F08d. Qed.
Print Assumptions C08_regress_F08d.

Theorem C08_tracker_empty_name :
  let c := run_list (init default_max_depth) tops_empty_name in
  rest c /\ forallb names_truthy tops_empty_name = false
  /\ In [] (g_entered c) /\ state_of c [] = InProgress.
Proof. exact tracker_empty_name. Qed.
Print Assumptions C08_tracker_empty_name.

Theorem C08_guard_nonvacuous :
  guard_F08b default_max_depth tops_ring = true /\ forallb names_truthy tops_ring = true
  /\ length (cycles (run_list (init default_max_depth) tops_ring)) = 2%nat
  /\ length (g_entered (run_list (init default_max_depth) tops_ring)) = 7%nat.
Proof. exact guard_nonvacuous. Qed.
Print Assumptions C08_guard_nonvacuous.

(* the logged execution used by the correspondence check computes the same final context as [run] *)
Theorem C08_trace_is_run : forall md tops, fst (run_list_acc (init md) [] tops) = run_list (init md) tops.
Proof. exact trace_final. Qed.
Print Assumptions C08_trace_is_run.
