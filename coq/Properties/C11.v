(* C11 — clients sharing one core package keep working as more are generated.
   Only statements, [exact], and Print Assumptions live here. *)
From PG Require Import Lib.Strs Model.Registry Proofs.Registry.

(* Full statement (FALSE on the current tree, see the refutation F11b; F11a and F11c are fixed):
     forall l h, Works (fold_left (step l) h init).

   For every core layout and every history of generate calls (any length, repetition, force on/off,
   changing code sets) that meets the executable guard — the core package has at least one
   component (well-formedness; F11a is fixed: a core is shared at any depth), and the client whose directory contains the core is never regenerated through the direct path
   while that directory exists [F11b] — every generated client finds each class it imports from
   the core among the emitted aliases, and every client reported as generated is present. *)
Theorem C11_partial : forall l h, guard l h = true -> Works (run l h).
Proof. exact works_under_guard. Qed.
Print Assumptions C11_partial.

(* The static form of the design: a core (at any depth) outside every client's directory:
   all histories, no condition on the calls. *)
Theorem C11_partial_static : forall l h,
  is_shared l = true -> core_inside_client l = None -> Works (fold_left (step l) h init).
Proof. exact works_shared_outside. Qed.
Print Assumptions C11_partial_static.

(* regression: F11a is fixed — a core three packages deep keeps the union of both clients' classes *)
Theorem C11_fixed_F11a :
  guard l_F11a h_F11a = true /\ Works (run l_F11a h_F11a)
  /\ aliases (run l_F11a h_F11a) = Some [404; 409].
Proof. exact fixed_F11a. Qed.
Print Assumptions C11_fixed_F11a.

Theorem C11_refuted_F11b :
  wf_layout l_in = true /\ guard_F11b l_in h_F11b = false
  /\ ~ Inv (run l_in h_F11b).
Proof. exact refuted_F11b. Qed.
Print Assumptions C11_refuted_F11b.

(* regression: F11c is fixed (the non-force diff check reports files present on one side only) *)
Theorem C11_fixed_F11c :
  guard l_in h_F11c = true /\ Works (run l_in h_F11c)
  /\ map snd (trace l_in init h_F11c) = [true; false] /\ claimed (run l_in h_F11c) = [c2].
Proof. exact fixed_F11c. Qed.
Print Assumptions C11_fixed_F11c.

Theorem C11_guard_nonvacuous :
  guard l_ok h_ok = true /\ aliases (run l_ok h_ok) = Some [404; 409] /\ length (clients (run l_ok h_ok)) = 3%nat.
Proof. exact guard_nonvacuous. Qed.
Print Assumptions C11_guard_nonvacuous.
