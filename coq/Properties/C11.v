(* C11 — clients sharing one core package keep working as more are generated.
   Only statements, [exact], and Print Assumptions live here. *)
From PG Require Import Lib.Strs Model.Registry Proofs.Registry.
From PG Require Model.GenFS Model.GenJoint Proofs.GenJoint.

(* F11a, F11b and F11c are fixed: no finding guard is left.  [wf_layout]: the core package has at least one
   component (well-formedness of the input, not a finding).

   For every core layout (any depth, inside or outside a client's directory) and EVERY history of generate
   calls (any length, repetition, force on/off, changing code sets): every generated client finds each class
   it imports from the core among the emitted aliases, and every client reported as generated is present. *)
Theorem C11_full : forall l h, wf_layout l = true -> Works (run l h).
Proof. exact works_always. Qed.
Print Assumptions C11_full.

(* regression: F11a is fixed — a core three packages deep keeps the union of both clients' classes *)
Theorem C11_fixed_F11a :
  guard l_F11a h_F11a = true /\ Works (run l_F11a h_F11a)
  /\ aliases (run l_F11a h_F11a) = Some [404; 409].
Proof. exact fixed_F11a. Qed.
Print Assumptions C11_fixed_F11a.

(* regression: F11b is fixed — the registry survives the force regeneration of the client that hosts the core *)
Theorem C11_fixed_F11b :
  wf_layout l_in = true /\ Works (run l_in h_F11b) /\ aliases (run l_in h_F11b) = Some [404; 409].
Proof. exact fixed_F11b. Qed.
Print Assumptions C11_fixed_F11b.

(* regression: F11c is fixed (the non-force diff check reports files present on one side only) *)
Theorem C11_fixed_F11c :
  guard l_in h_F11c = true /\ Works (run l_in h_F11c)
  /\ map snd (trace l_in init h_F11c) = [true; false] /\ claimed (run l_in h_F11c) = [c2].
Proof. exact fixed_F11c. Qed.
Print Assumptions C11_fixed_F11c.

Theorem C11_guard_nonvacuous :
  guard l_ok h_ok = true /\ aliases (run l_ok h_ok) = Some [404; 409] /\ length (clients (run l_ok h_ok)) = 3%nat.
Proof. exact guard_nonvacuous. Qed.
Print Assumptions C11_guard_nonvacuous.

(* JOINT HISTORY THEOREM of C10 and C11 (calls without injected faults; the file system decides between the
   diff path and the direct path and drives the registry step): for every project, initial file system and
   EVERY history of calls — any package names (invalid ones are rejected), force on/off, post-processing
   on/off, any specs — every generated client finds its exception classes in the core, every client reported
   as generated exists, and every path strictly below the project root was there initially or is an allowed
   path (output package, core package, ancestor package directory / __init__.py) of one call.
   Not covered: histories with injected faults (covered per call by the C10 theorems). *)
Theorem C11_C10_joint_full : forall pr s0 h,
  Proofs.GenJoint.wf_project pr = true ->
  Model.GenJoint.Joint pr s0 h (Model.GenJoint.jrun pr s0 h).
Proof. exact Proofs.GenJoint.joint_history. Qed.
Print Assumptions C11_C10_joint_full.

Theorem C11_C10_joint_nonvacuous :
  Proofs.GenJoint.wf_project Proofs.GenJoint.pr_ex = true
  /\ aliases (snd (Model.GenJoint.jrun Proofs.GenJoint.pr_ex Proofs.GenJoint.s0_ex Proofs.GenJoint.h_ex)) = Some [404; 409]
  /\ length (clients (snd (Model.GenJoint.jrun Proofs.GenJoint.pr_ex Proofs.GenJoint.s0_ex Proofs.GenJoint.h_ex))) = 2%nat
  /\ (length (fst (Model.GenJoint.jrun Proofs.GenJoint.pr_ex Proofs.GenJoint.s0_ex Proofs.GenJoint.h_ex)) > 40)%nat
  /\ Model.GenFS.lookup (Proofs.GenJoint.sR ++ [[75]])
       (fst (Model.GenJoint.jrun Proofs.GenJoint.pr_ex Proofs.GenJoint.s0_ex Proofs.GenJoint.h_ex)) = Some (Model.GenFS.File 1).
Proof. exact Proofs.GenJoint.joint_nonvacuous. Qed.
Print Assumptions C11_C10_joint_nonvacuous.
