(* C04 — request fidelity: what the caller passes is what goes on the wire.
   Only statements, [exact], and Print Assumptions live here. *)
From PG Require Import Lib.Strs Model.Wire Proofs.Wire.

(* The full statement
     C04_full : forall mn o a, well_typed mn o a = true -> exists r, call mn o a = Some r /\ Spec o a r
   is FALSE on the unchanged tree: C04_refuted_F04a .. F04h below give eight well-typed calls of the
   faithful model that violate it (each replayed on a generated client, corpus/C04/).

   C04_partial: for EVERY sanitiser mn, EVERY operation and EVERY argument assignment (any number of
   parameters in any location and order, any subset of the optional arguments, any of the declared
   content types): if the call is well typed and meets the eight executable guards, the generated method
   issues exactly one request, and that request has the operation's method, the path template with each
   variable replaced by the caller's value (each value inside its own path segment), exactly the supplied query / header (/ cookie) values under
   their original names and nothing else, and the body and Content-Type of the supplied body argument. *)
Theorem C04_partial : forall mn o a,
  well_typed mn o a = true -> guard mn o a = true ->
  exists r, call mn o a = Some r /\ Spec o a r.
Proof. exact partial. Qed.
Print Assumptions C04_partial.

(* a supplied cookie parameter is never sent *)
Theorem C04_refuted_F04a :
  well_typed (mn_of tbl_F04a) op_F04a args_F04a = true
  /\ guards (mn_of tbl_F04a) op_F04a args_F04a = [false; true; true; true; true; true; true; true]
  /\ ~ holds (mn_of tbl_F04a) op_F04a args_F04a.
Proof. exact refuted_F04a. Qed.
Print Assumptions C04_refuted_F04a.

(* several request content types: a supplied query parameter is dropped *)
Theorem C04_refuted_F04b :
  well_typed (mn_of tbl_F04b) op_F04b args_F04b = true
  /\ guards (mn_of tbl_F04b) op_F04b args_F04b = [true; false; true; true; true; true; true; true]
  /\ ~ holds (mn_of tbl_F04b) op_F04b args_F04b.
Proof. exact refuted_F04b. Qed.
Print Assumptions C04_refuted_F04b.

(* a path-level parameter repeated at operation level: duplicate argument, no request at all *)
Theorem C04_refuted_F04c :
  well_typed (mn_of tbl_F04c) op_F04c args_F04c = true
  /\ guards (mn_of tbl_F04c) op_F04c args_F04c = [true; true; false; true; true; true; true; true]
  /\ ~ holds (mn_of tbl_F04c) op_F04c args_F04c.
Proof. exact refuted_F04c. Qed.
Print Assumptions C04_refuted_F04c.

(* a query parameter named `body` next to a JSON body: the body argument is dropped *)
Theorem C04_refuted_F04d :
  well_typed (mn_of tbl_F04d) op_F04d args_F04d = true
  /\ guards (mn_of tbl_F04d) op_F04d args_F04d = [true; true; true; false; true; true; true; true]
  /\ ~ holds (mn_of tbl_F04d) op_F04d args_F04d.
Proof. exact refuted_F04d. Qed.
Print Assumptions C04_refuted_F04d.

(* an Enum-typed query argument is sent as Class.MEMBER *)
Theorem C04_refuted_F04e :
  well_typed (mn_of tbl_F04e) op_F04e args_F04e = true
  /\ guards (mn_of tbl_F04e) op_F04e args_F04e = [true; true; true; true; false; true; true; true]
  /\ ~ holds (mn_of tbl_F04e) op_F04e args_F04e.
Proof. exact refuted_F04e. Qed.
Print Assumptions C04_refuted_F04e.

(* an integer header argument: TypeError, no request at all *)
Theorem C04_refuted_F04f :
  well_typed (mn_of tbl_F04f) op_F04f args_F04f = true
  /\ guards (mn_of tbl_F04f) op_F04f args_F04f = [true; true; true; true; true; false; true; true]
  /\ ~ holds (mn_of tbl_F04f) op_F04f args_F04f.
Proof. exact refuted_F04f. Qed.
Print Assumptions C04_refuted_F04f.

(* an application/octet-stream body is sent without Content-Type *)
Theorem C04_refuted_F04g :
  well_typed (mn_of tbl_F04g) op_F04g args_F04g = true
  /\ guards (mn_of tbl_F04g) op_F04g args_F04g = [true; true; true; true; true; true; false; true]
  /\ ~ holds (mn_of tbl_F04g) op_F04g args_F04g.
Proof. exact refuted_F04g. Qed.
Print Assumptions C04_refuted_F04g.

(* a path value containing '/' is sent unescaped and becomes two path segments *)
Theorem C04_refuted_F04h :
  well_typed (mn_of tbl_F04h) op_F04h args_F04h = true
  /\ guards (mn_of tbl_F04h) op_F04h args_F04h = [true; true; true; true; true; true; true; false]
  /\ ~ holds (mn_of tbl_F04h) op_F04h args_F04h.
Proof. exact refuted_F04h. Qed.
Print Assumptions C04_refuted_F04h.

Theorem C04_guard_nonvacuous :
  (well_typed (mn_of tbl_ok) op_ok args_ok = true /\ guard (mn_of tbl_ok) op_ok args_ok = true)
  /\ (well_typed (mn_of tbl_ok_multi) op_ok_multi args_ok_multi = true
      /\ guard (mn_of tbl_ok_multi) op_ok_multi args_ok_multi = true /\ is_multi op_ok_multi = true).
Proof. exact (conj guard_nonvacuous_std guard_nonvacuous_multi). Qed.
Print Assumptions C04_guard_nonvacuous.
