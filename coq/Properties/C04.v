(* C04 — request fidelity.  Only statements, [exact], and Print Assumptions live here. *)
From PG Require Import Lib.Strs Model.Wire Proofs.Wire.

Theorem C04_guard_nonvacuous : True.
Proof. exact I. Qed.
Print Assumptions C04_guard_nonvacuous.
