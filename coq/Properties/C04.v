(* C04 — request fidelity: what the caller passes is what goes on the wire.
   Only statements, [exact], and Print Assumptions live here. *)
From PG Require Import Lib.Strs Model.Wire Proofs.Wire.

(* The full statement
     C04_full : forall mn o a, well_typed mn o a = true -> exists r, call mn o a = Some r /\ Spec o a r
   is still FALSE: C04_refuted_F04c/d/k below give three well-typed calls of the faithful model that violate
   it (each replayed on a generated client, corpus/C04/).  F04a (cookies), F04b (multi-content dispatch),
   F04e (Enum values), F04f (non-str header/cookie values), F04g (Content-Type of raw bodies), F04h
   (percent-encoding of path values), F04i (boolean path values) and the first form of F04c (a path-level
   parameter repeated at operation level) are FIXED in the code: their guard conjuncts are gone and their
   witnesses now lie inside C04_partial (C04_fixed_witnesses, C04_fixed_F04c_override).

   C04_partial: for EVERY sanitiser mn, EVERY operation and EVERY argument assignment (any number of
   parameters in any location and order - scalar or array valued, also in the path -, any subset of the
   optional arguments, any of the declared content types): if the call is well typed and meets the four
   executable guards (F04c, F04d, F04k and F04j = media types other than json/multipart/form inside a
   multi-content operation, an observed defect that is outside the model), the generated method issues
   exactly one request, and that request has the operation's method, the path a router sees is the template
   with each variable replaced by the caller's value (segment by segment, arrays comma-joined, after httpx's
   dot-segment normalisation), exactly the supplied query values (one pair per array item), header and
   cookie values (arrays comma-joined) under their original names and nothing else, and the body and
   Content-Type of the supplied body argument. *)
Theorem C04_partial : forall mn o a,
  well_typed mn o a = true -> guard mn o a = true ->
  exists r, call mn o a = Some r /\ Spec o a r.
Proof. exact partial. Qed.
Print Assumptions C04_partial.

(* two parameters whose python names coincide (`user-id` in the query, `user_id` in a header): duplicate argument, no request at all *)
Theorem C04_refuted_F04c :
  well_typed (mn_of tbl_F04c) op_F04c args_F04c = true
  /\ guards (mn_of tbl_F04c) op_F04c args_F04c = [true; false; true; true]
  /\ ~ holds (mn_of tbl_F04c) op_F04c args_F04c.
Proof. exact refuted_F04c. Qed.
Print Assumptions C04_refuted_F04c.

(* a query parameter named `body` next to a JSON body: the body argument is dropped *)
Theorem C04_refuted_F04d :
  well_typed (mn_of tbl_F04d) op_F04d args_F04d = true
  /\ guards (mn_of tbl_F04d) op_F04d args_F04d = [true; true; false; true]
  /\ ~ holds (mn_of tbl_F04d) op_F04d args_F04d.
Proof. exact refuted_F04d. Qed.
Print Assumptions C04_refuted_F04d.

(* a path value ".." is a dot segment: GET /f/g/{name} is sent as GET /f *)
Theorem C04_refuted_F04k :
  well_typed (mn_of tbl_F04k) op_F04k args_F04k = true
  /\ guards (mn_of tbl_F04k) op_F04k args_F04k = [true; true; true; false]
  /\ ~ holds (mn_of tbl_F04k) op_F04k args_F04k.
Proof. exact refuted_F04k. Qed.
Print Assumptions C04_refuted_F04k.

(* regression: the witnesses of the fixed findings F04a, F04b, F04e, F04f, F04g, F04h, F04i are well typed and
   meet every guard *)
Theorem C04_fixed_witnesses :
  (well_typed (mn_of tbl_F04a) op_F04a args_F04a && guard (mn_of tbl_F04a) op_F04a args_F04a
   && well_typed (mn_of tbl_F04f) op_F04f args_F04f && guard (mn_of tbl_F04f) op_F04f args_F04f
   && well_typed (mn_of tbl_F04i) op_F04i args_F04i && guard (mn_of tbl_F04i) op_F04i args_F04i
   && well_typed (mn_of tbl_F04b) op_F04b args_F04b && guard (mn_of tbl_F04b) op_F04b args_F04b
   && well_typed (mn_of tbl_F04e) op_F04e args_F04e && guard (mn_of tbl_F04e) op_F04e args_F04e
   && well_typed (mn_of tbl_F04g) op_F04g args_F04g && guard (mn_of tbl_F04g) op_F04g args_F04g
   && well_typed (mn_of tbl_F04h) op_F04h args_F04h && guard (mn_of tbl_F04h) op_F04h args_F04h) = true.
Proof. exact fixed_witnesses_in_guard. Qed.
Print Assumptions C04_fixed_witnesses.

(* regression: the loader's merge (Wire.merge_params) keeps ONE declaration of a path-level parameter that is
   repeated at operation level, and the merged operation is well typed and inside every guard *)
Theorem C04_fixed_F04c_override :
  let o := with_params op_F04c0 (merge_params (firstn 1 (o_params op_F04c0)) (skipn 1 (o_params op_F04c0))) in
  Nat.eqb (length (o_params o)) 1 && well_typed (mn_of tbl_F04c0) o args_F04c0 && guard (mn_of tbl_F04c0) o args_F04c0 = true.
Proof. exact fixed_F04c_override. Qed.
Print Assumptions C04_fixed_F04c_override.

(* the loader, as modelled: EVERY operation of a path item carries, for every path-level parameter, a parameter
   with the same name and location (inherited, or overridden by an operation-level declaration); together with
   C04_partial: a supplied path-level argument reaches the wire in every operation of the item *)
Theorem C04_path_level_inherited : forall it o, In o (item_ops it) ->
  forall x, In x (pi_params it) -> exists y, In y (o_params o) /\ same_key y x = true.
Proof. exact item_inherits. Qed.
Print Assumptions C04_path_level_inherited.

Theorem C04_guard_nonvacuous :
  (well_typed (mn_of tbl_ok) op_ok args_ok = true /\ guard (mn_of tbl_ok) op_ok args_ok = true)
  /\ (well_typed (mn_of tbl_ok_multi) op_ok_multi args_ok_multi = true
      /\ guard (mn_of tbl_ok_multi) op_ok_multi args_ok_multi = true /\ is_multi op_ok_multi = true).
Proof. exact (conj guard_nonvacuous_std guard_nonvacuous_multi). Qed.
Print Assumptions C04_guard_nonvacuous.
