(* C03 — generated models round-trip every conforming value and wire key.
   Only statements, [exact], and Print Assumptions live here. *)
From PG Require Import Lib.Strs Model.Converter Model.ModelGen Proofs.ModelGen.

(* For EVERY format string (in the regenerated table of _resolve_string or not): unless it resolves to
   a type without converter hook (guard, finding F03a), the resolved type is one the round-trip
   theorem C16_encode_decode covers. *)
Theorem C03_types_supported_partial : forall fmt,
  ty_has_unhooked (resolve_format fmt) = false -> ty_ok (resolve_format fmt) = true.
Proof. exact formats_supported. Qed.
Print Assumptions C03_types_supported_partial.

Theorem C03_refuted_F03a :
  In s_uuid (map fst format_map) /\ ty_has_unhooked (resolve_format s_uuid) = true /\
  ty_ok (resolve_format s_uuid) = false.
Proof. exact refuted_F03a. Qed.
Print Assumptions C03_refuted_F03a.

Theorem C03_guard_nonvacuous : exists fmt, In fmt (map fst format_map) /\
  ty_has_unhooked (resolve_format fmt) = false /\ resolve_format fmt = TDatetime.
Proof. exact formats_nonvacuous. Qed.
Print Assumptions C03_guard_nonvacuous.
