(* C03 — generated models round-trip every conforming value and wire key.
   Only statements, [exact], and Print Assumptions live here. *)
From PG Require Import Lib.Strs Model.Converter Model.ModelGen Proofs.ModelGen.

(* FULL.  For EVERY format string (in the regenerated table of _resolve_string or not) the resolved
   type is one the converter has hooks for and the round-trip theorem C16_encode_decode covers. *)
Theorem C03_types_supported : forall fmt, ty_ok (resolve_format fmt) = true.
Proof. exact formats_supported. Qed.
Print Assumptions C03_types_supported.

(* F03a (fixed): uuid / time resolve to UUID / time, now supported leaf types of the converter. *)
Theorem C03_regression_F03a :
  resolve_format s_uuid = TUuid /\ resolve_format [116;105;109;101] = TTime /\
  ty_ok (resolve_format s_uuid) = true /\ ty_ok (resolve_format [116;105;109;101]) = true.
Proof. exact regression_F03a. Qed.
Print Assumptions C03_regression_F03a.

(* F03c (fixed): List["M"] inside M is a supported list-of-dataclass type for the converter. *)
Theorem C03_regression_F03c : forall c,
  resolve (PArr (PSelf c)) = TList (TData c) /\ ty_ok (resolve (PArr (PSelf c))) = true.
Proof. exact regression_F03c. Qed.
Print Assumptions C03_regression_F03c.

(* FULL.  Keys on the wire are the spec's property names whatever field names were derived: for ANY
   name sanitizer and ANY list of distinct property names (any required flags, any order), the
   attribute names chosen by the generator (sanitised name, `_2, _3, ...` probing on collision — the
   probing loop is proved to always find a fresh name) are pairwise distinct, the wire keys the
   converter derives from Meta.key_transform_with_load are the distinct original property names, and
   Meta.key_transform_with_dump sends every attribute back to exactly the key it is loaded from. *)
Theorem C03_maps_bijective : forall sanitize s,
  NoDup (map p_name (s_props s)) -> maps_bijective (gen_class sanitize s).
Proof. exact maps_bijective_full. Qed.
Print Assumptions C03_maps_bijective.

(* example: three properties that all sanitize to the same name get user_id, user_id_2, user_id_3 *)
Theorem C03_maps_example :
  NoDup (map p_name (s_props s_demo)) /\ nodupb (map snd (names_of san_demo s_demo)) = true /\
  map snd (names_of san_demo s_demo) =
  [[117;115;101;114;95;105;100]; [117;115;101;114;95;105;100;95;50]; [117;115;101;114;95;105;100;95;51]].
Proof. exact maps_demo. Qed.
Print Assumptions C03_maps_example.

(* C03_roundtrip.  For ANY name sanitizer and ANY list of object schemas in the fragment (schema_ok:
   distinct property names; properties are scalars, any string format, enums, arrays of those, and
   references to schemas of the list — additionalProperties maps are outside this theorem): with the
   class table the generator produces (gen_class: field naming, Meta maps, format table, defaults),
   every document that conforms to a generated model is structured by the bundled converter, and
   unstructuring the instance gives the document back — wire keys are the spec's property names —
   up to key order and absent optional properties reappearing as null / empty container (rt_rel).
   Any base64 codec with dec (enc b) = b, any ISO/UUID parsers; hooks of the table's classes registered
   (what the entry points do: C16_api_* theorems). *)
Theorem C03_roundtrip :
  forall sanitize ss, (forall s, In s ss -> schema_ok (map s_id ss) s) ->
  forall b64dec b64enc dt_parse date_parse uuid_parse time_parse int_of_str float_of_str str_of_json sreg ureg,
    let ct := map (gen_class sanitize) ss in
    (forall b, b64dec (b64enc b) = Some b) -> all_hooked ct sreg -> all_hooked ct ureg ->
    forall c j, conforms b64enc dt_parse date_parse uuid_parse time_parse ct (TData c) j ->
    exists v j',
      structure b64dec dt_parse date_parse uuid_parse time_parse int_of_str float_of_str str_of_json ct sreg j (TData c) = Ok v /\
      unstructure b64enc ct ureg v (TData c) = Ok j' /\ rt_rel ct (TData c) j j'.
Proof. intros sanitize ss H. intros. eapply roundtrip_gen; eassumption. Qed.
Print Assumptions C03_roundtrip.

Theorem C03_roundtrip_nonvacuous :
  schema_ok [0] s_demo /\
  forall b64enc dt_parse date_parse uuid_parse time_parse,
    conforms b64enc dt_parse date_parse uuid_parse time_parse [gen_class san_demo s_demo] (TData 0) j_gen_demo.
Proof. exact (conj s_demo_ok j_gen_demo_conforms). Qed.
Print Assumptions C03_roundtrip_nonvacuous.
