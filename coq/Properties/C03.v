(* C03 — generated models round-trip every conforming value and wire key.
   Only statements, [exact], and Print Assumptions live here. *)
From PG Require Import Lib.Strs Model.Converter Model.ModelGen Proofs.ModelGen.

(* FULL.  For EVERY format string (in the regenerated table of _resolve_string or not) the resolved
   type is one the converter has hooks for and the round-trip theorem C16_encode_decode covers. *)
Theorem C03_types_supported : forall fmt, ty_ok (resolve_format fmt) = true.
Proof. exact formats_supported. Qed.
Print Assumptions C03_types_supported.

(* F03a (fixed): uuid / time resolve to UUID / time, now supported leaf types of the converter. *)
Theorem C03_regression_F03a :
  resolve_format s_uuid = TUuid /\ resolve_format [116;105;109;101] = TTime /\
  ty_ok (resolve_format s_uuid) = true /\ ty_ok (resolve_format [116;105;109;101]) = true.
Proof. exact regression_F03a. Qed.
Print Assumptions C03_regression_F03a.

(* F03c (fixed): List["M"] inside M is a supported list-of-dataclass type for the converter. *)
Theorem C03_regression_F03c : forall c,
  resolve (PArr (PSelf c)) = TList (TData c) /\ ty_ok (resolve (PArr (PSelf c))) = true.
Proof. exact regression_F03c. Qed.
Print Assumptions C03_regression_F03c.

(* FULL.  Keys on the wire are the spec's property names whatever field names were derived: for ANY
   name sanitizer and ANY list of distinct property names (any required flags, any order), the
   attribute names chosen by the generator (sanitised name, `_2, _3, ...` probing on collision — the
   probing loop is proved to always find a fresh name) are pairwise distinct, the wire keys the
   converter derives from Meta.key_transform_with_load are the distinct original property names, and
   Meta.key_transform_with_dump sends every attribute back to exactly the key it is loaded from. *)
Theorem C03_maps_bijective : forall sanitize s,
  NoDup (map p_name (s_props s)) -> maps_bijective (gen_class sanitize s).
Proof. exact maps_bijective_full. Qed.
Print Assumptions C03_maps_bijective.

(* example: three properties that all sanitize to the same name get user_id, user_id_2, user_id_3 *)
Theorem C03_maps_example :
  NoDup (map p_name (s_props s_demo)) /\ nodupb (map snd (names_of san_demo s_demo)) = true /\
  map snd (names_of san_demo s_demo) =
  [[117;115;101;114;95;105;100]; [117;115;101;114;95;105;100;95;50]; [117;115;101;114;95;105;100;95;51]].
Proof. exact maps_demo. Qed.
Print Assumptions C03_maps_example.
