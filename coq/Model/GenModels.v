(* C01 — the generator at skeleton level, for the MODELS sub-package.
   [gen_models_skeleton root sp] is the list of module skeletons ([pymod], Model/PyImport.v) that ModelsEmitter
   writes for a list of schemas [sp], reduced to the REFERENCE STRUCTURE of the package:
     - one module root.models.<stem> per schema, with its from-imports of the modules of referenced schemas
       (never of itself), `__all__`, and the class / alias definition whose annotations mention other model
       classes (by name) or the class itself (as a quoted forward reference — the rule after fix 270aa99:
       an optional self reference is ONE string "Node | None", never `"Node" | None`);
     - root.models/__init__ re-exporting every class and declaring `__all__`;
     - the (empty) ancestor packages.
   Everything that does not belong to the reference structure is projected away on BOTH sides of the
   correspondence (harness/prop_C01.py `project_models`): imports from outside models/ (typing, dataclasses, enum,
   datetime, the core package), fields whose type mentions no model class, methods / Meta classes / enum members,
   module-level functions and registration calls; names of external origin inside kept expressions are [AConst].
   The de-collided class and module names are taken as given (distinct identifiers).  No proofs in this file. *)
From PG Require Import Lib.Strs Model.CoreImports Model.PyImport.
From Coq Require Import Arith.PeanoNat.

Inductive ty :=
| TyPrim                       (* str, int, datetime, Any, … : no model class involved *)
| TyRef (i : nat)              (* the class of schema number i *)
| TyList (t : ty)              (* List[t] *)
| TyDict (t : ty)              (* dict[str, t] / Dict[str, t] *)
| TyUnion (l : list ty).       (* Union[…] *)

Record fld := mkFld { f_name : str; f_ty : ty; f_opt : bool (* `| None` *); f_default : bool }.

Inductive skind :=
| KObj (fields : list fld)     (* @dataclass *)
| KEnum                        (* class X(str, Enum) *)
| KAliasOf (t : ty)            (* X: TypeAlias = t *)
| KWrapper (t : ty).           (* additionalProperties wrapper: _data: dict[str, t] *)

Record sch := mkSch { s_stem : str; s_cls : str; s_kind : skind }.
Definition spec := list sch.

Definition s_models : str := [109;111;100;101;108;115].

Section Gen.
  Variable root : modpath.      (* the output package, e.g. [a; b; client] *)
  Variable sp : spec.

  Definition mpath (s : sch) : modpath := root ++ [s_models; s_stem s].
  Definition cls_of (i : nat) : str := match nth_error sp i with Some s => s_cls s | None => [] end.

  (* references of a type, in order of occurrence *)
  Fixpoint refs (t : ty) : list nat :=
    match t with
    | TyPrim => []
    | TyRef i => [i]
    | TyList t' | TyDict t' => refs t'
    | TyUnion l => (fix go (l : list ty) := match l with [] => [] | x :: r => refs x ++ go r end) l
    end.

  (* In the module of an ARRAY alias the items are resolved one step further: an item that is itself a primitive
     alias is rendered as that primitive (`Gamma: TypeAlias = List[UUID]` for items: $ref Beta, Beta = uuid string)
     and not imported.  Object fields and wrappers keep the alias class (`b: Beta | None`, `dict[str, Beta]`). *)
  Definition is_prim_alias (j : nat) : bool :=
    match nth_error sp j with
    | Some s => match s_kind s with KAliasOf TyPrim => true | _ => false end
    | None => false
    end.
  Definition norm_alias (t : ty) : ty :=
    match t with
    | TyList (TyRef j) => if is_prim_alias j then TyList TyPrim else t
    | _ => t
    end.

  Definition kind_refs (k : skind) : list nat :=
    match k with
    | KObj fields => flat_map (fun f => refs (f_ty f)) fields
    | KEnum => []
    | KAliasOf t => refs (norm_alias t)
    | KWrapper t => refs t
    end.

  Fixpoint dedup_nat (l : list nat) : list nat :=
    match l with
    | [] => []
    | x :: r => if existsb (Nat.eqb x) r then dedup_nat r else x :: dedup_nat r
    end.

  (* modules imported at module level by schema number [self]: every referenced schema except itself *)
  Definition deps (self : nat) (k : skind) : list nat :=
    filter (fun j => negb (Nat.eqb j self)) (dedup_nat (kind_refs k)).

  (* a type inside an annotation; the class itself is a quoted forward reference *)
  Fixpoint rty (self : nat) (t : ty) : expr :=
    match t with
    | TyPrim => AConst
    | TyRef j => if Nat.eqb j self then AStr [] else AName (cls_of j)
    | TyList t' => ASub AConst [rty self t']
    | TyDict t' => ASub AConst [AConst; rty self t']
    | TyUnion l => ASub AConst ((fix go (l : list ty) := match l with [] => [] | x :: r => rty self x :: go r end) l)
    end.

  (* a field annotation: an optional self reference is ONE string ("Node | None") *)
  Definition annot (self : nat) (t : ty) (opt : bool) : expr :=
    match t with
    | TyRef j => if Nat.eqb j self then AStr []
                 else if opt then AOr (AName (cls_of j)) ANone else AName (cls_of j)
    | _ => if opt then AOr (rty self t) ANone else rty self t
    end.

  Fixpoint has_ref (t : ty) : bool :=
    match t with
    | TyPrim => false
    | TyRef _ => true
    | TyList t' | TyDict t' => has_ref t'
    | TyUnion l => (fix go (l : list ty) := match l with [] => false | x :: r => has_ref x || go r end) l
    end.

  Definition field_item (self : nat) (f : fld) : citem :=
    CField (f_name f) (annot self (f_ty f) (f_opt f)) (if f_default f then Some AConst else None).

  Definition import_of (j : nat) : stmt :=
    match nth_error sp j with
    | Some s => FromImport (mpath s) [(s_cls s, s_cls s)]
    | None => Broken
    end.

  Definition definition (self : nat) (s : sch) : list stmt :=
    match s_kind s with
    | KObj fields =>
        [ClassDef (s_cls s) [AConst] (map (field_item self) (filter (fun f => has_ref (f_ty f)) fields))]
    | KEnum => [ClassDef (s_cls s) [AConst; AConst; AConst] []]
    | KAliasOf t => [Alias (s_cls s) (rty self (norm_alias t)) (Some AConst)]
    | KWrapper t =>
        [ClassDef (s_cls s) [AConst]
           (if has_ref t then [CField [95;100;97;116;97] (ASub AConst [AConst; rty self t]) (Some AConst)] else [])]
    end.

  Definition model_module (self : nat) (s : sch) : pymod :=
    mkMod (mpath s) (map import_of (deps self (s_kind s)) ++ [AllDecl [s_cls s]] ++ definition self s).

  Fixpoint model_modules (i : nat) (l : list sch) : list pymod :=
    match l with
    | [] => []
    | s :: r => model_module i s :: model_modules (S i) r
    end.

  Definition init_module : pymod :=
    mkMod (root ++ [s_models])
          (map (fun s => FromImport (mpath s) [(s_cls s, s_cls s)]) sp ++ [AllDecl (map s_cls sp)]).

  Definition gen_models_skeleton : package :=
    map (fun p => mkMod p []) (chain_of root) ++ model_modules 0 sp ++ [init_module].

  (* the order in which the modules can be finished when every reference points to an earlier schema (or to
     the schema itself): ancestors, then the schemas as listed, then models/__init__ *)
  Definition models_order : list modpath :=
    chain_of root ++ map mpath sp ++ [root ++ [s_models]].

  (* acyclicity of the reference graph, given as a dependency order of the list: a schema refers only to earlier
     schemas, or — inside the fields of an object — to itself.  (The harness sorts the schemas topologically
     before it builds [sp]; a reference cycle through >= 2 schemas admits no such order: finding F01a.) *)
  Fixpoint all_refs_below (bound : nat) (allow_self : bool) (l : list nat) : bool :=
    match l with
    | [] => true
    | j :: r => (Nat.ltb j bound || (allow_self && Nat.eqb j bound)) && all_refs_below bound allow_self r
    end.
  Fixpoint sorted_from (i : nat) (l : list sch) : bool :=
    match l with
    | [] => true
    | s :: r => all_refs_below i (match s_kind s with KObj _ => true | _ => false end) (kind_refs (s_kind s))
                && sorted_from (S i) r
    end.
  Definition acyclic_refs : bool := sorted_from 0 sp.

  (* names taken as given: distinct module stems and class names, a non-empty root, no stem called "models" needed *)
  Fixpoint nodup_strs (l : list str) : bool :=
    match l with [] => true | x :: r => negb (mem_str x r) && nodup_strs r end.
  Definition names_ok : bool :=
    nodup_strs (map s_stem sp) && nodup_strs (map s_cls sp)
    && match root with [] => false | _ => true end
    && forallb (fun s => negb (str_eqb (s_cls s) [])) sp.
End Gen.

(* ---------------------------------------------------------------- comparison with the projected extracted skeleton:
   modules are matched by path; within a module the leading from-imports are compared as sets, the rest literally;
   __all__ lists are compared as sets *)
Fixpoint expr_eqb (a b : expr) : bool :=
  match a, b with
  | AName x, AName y => str_eqb x y
  | AStr _, AStr _ => true
  | ANone, ANone => true
  | AConst, AConst => true
  | ASub g1 l1, ASub g2 l2 =>
      expr_eqb g1 g2 &&
      (fix go (l1 l2 : list expr) := match l1, l2 with
                                     | [], [] => true
                                     | x :: r1, y :: r2 => expr_eqb x y && go r1 r2
                                     | _, _ => false end) l1 l2
  | AOr a1 b1, AOr a2 b2 => expr_eqb a1 a2 && expr_eqb b1 b2
  | AOther l1, AOther l2 =>
      (fix go (l1 l2 : list expr) := match l1, l2 with
                                     | [], [] => true
                                     | x :: r1, y :: r2 => expr_eqb x y && go r1 r2
                                     | _, _ => false end) l1 l2
  | _, _ => false
  end.

Definition citem_eqb (a b : citem) : bool :=
  match a, b with
  | CField n1 a1 d1, CField n2 a2 d2 => str_eqb n1 n2 && expr_eqb a1 a2 && opt_eqb expr_eqb d1 d2
  | CDef n1 l1, CDef n2 l2 => str_eqb n1 n2 && list_eqb expr_eqb l1 l2
  | CAssign n1 v1, CAssign n2 v2 => str_eqb n1 n2 && expr_eqb v1 v2
  | CEval e1, CEval e2 => expr_eqb e1 e2
  | _, _ => false
  end.

Definition set_eqb {A} (eqb : A -> A -> bool) (a b : list A) : bool :=
  forallb (fun x => existsb (eqb x) b) a && forallb (fun y => existsb (eqb y) a) b.

Definition stmt_eqb (a b : stmt) : bool :=
  match a, b with
  | FromImport t1 n1, FromImport t2 n2 =>
      modpath_eqb t1 t2 && list_eqb (pair_eqb str_eqb str_eqb) n1 n2
  | AllDecl l1, AllDecl l2 => set_eqb str_eqb l1 l2
  | ClassDef n1 h1 i1, ClassDef n2 h2 i2 => str_eqb n1 n2 && list_eqb expr_eqb h1 h2 && list_eqb citem_eqb i1 i2
  | Alias n1 v1 a1, Alias n2 v2 a2 => str_eqb n1 n2 && expr_eqb v1 v2 && opt_eqb expr_eqb a1 a2
  | _, _ => false
  end.

Definition is_from (s : stmt) : bool := match s with FromImport _ _ => true | _ => false end.

Definition body_equiv (a b : list stmt) : bool :=
  set_eqb stmt_eqb (filter is_from a) (filter is_from b)
  && list_eqb stmt_eqb (filter (fun s => negb (is_from s)) a) (filter (fun s => negb (is_from s)) b).

Definition skel_equiv (g e : package) : bool :=
  Nat.eqb (length g) (length e)
  && forallb (fun m => match find_mod e (path m) with
                       | Some m' => body_equiv (body m) (body m')
                       | None => false
                       end) g.
