(* C17 — model of core/http_transport.py (HttpxTransport._prepare_headers / request) and
   core/auth/{base,plugins}.py, transcribed branch for branch.  No proofs in this file. *)
From PG Require Import Lib.Strs.
From PG Require Export Gen.Tables.

Definition dict := list (str * str).

(* s_Authorization, s_Bearer_sp, s_header, s_query, s_cookie come from Gen.Tables (regenerated
   from core/auth/plugins.py and core/http_transport.py on every run). *)

(* The dict handed to auth plugins: request_args with keys "headers" / "params" / "cookies".
   [None] = key absent. *)
Record scratch := { sc_headers : option dict; sc_params : option dict; sc_cookies : option dict }.

Definition get_or_empty (o : option dict) : dict := match o with Some d => d | None => [] end.

(* core/auth/base.py set_header: remove every entry whose name differs from [k] only in case, then d[k] = v.
   (str.lower is modelled by ASCII lower-casing: header names are ASCII — httpx rejects others.) *)
Definition lower_str (s : str) : str := map lower_ascii s.
Definition same_ci (a b : str) : bool := str_eqb (lower_str a) (lower_str b).
Definition hset (d : dict) (k v : str) : dict :=
  aset (filter (fun kv => str_eqb (fst kv) k || negb (same_ci (fst kv) k)) d) k v.
Definition hupdate (d e : dict) : dict := fold_left (fun acc kv => hset acc (fst kv) (snd kv)) e d.

Inductive plugin :=
| Bearer (tok : str)
| HeadersP (hs : dict)
| ApiKey (key loc name : str)
  (* refresh callback as a finite table old-token -> new-token; absent key / "" = falsy result *)
| OAuth2 (tok : str) (refresh : option (list (str * str)))
| Composite (ps : list plugin).

Inductive result (A : Type) := Ok (a : A) | Err.
Arguments Ok {A} a. Arguments Err {A}.

(* authenticate_request: returns the plugin's new state and the new request_args (or ValueError) *)
Fixpoint auth_step (p : plugin) (a : scratch) : plugin * result scratch :=
  match p with
  | Bearer tok =>
      (p, Ok {| sc_headers := Some (hset (get_or_empty (sc_headers a)) s_Authorization (s_Bearer_sp ++ tok));
                sc_params := sc_params a; sc_cookies := sc_cookies a |})
  | HeadersP hs =>
      (p, Ok {| sc_headers := Some (hupdate (get_or_empty (sc_headers a)) hs);
                sc_params := sc_params a; sc_cookies := sc_cookies a |})
  | ApiKey key loc name =>
      if str_eqb loc s_header then
        (p, Ok {| sc_headers := Some (hset (get_or_empty (sc_headers a)) name key);
                  sc_params := sc_params a; sc_cookies := sc_cookies a |})
      else if str_eqb loc s_query then
        (p, Ok {| sc_headers := sc_headers a;
                  sc_params := Some (aset (get_or_empty (sc_params a)) name key);
                  sc_cookies := sc_cookies a |})
      else if str_eqb loc s_cookie then
        (p, Ok {| sc_headers := sc_headers a; sc_params := sc_params a;
                  sc_cookies := Some (aset (get_or_empty (sc_cookies a)) name key) |})
      else (p, Err)
  | OAuth2 tok refresh =>
      let tok' :=
        match refresh with
        | None => tok
        | Some tbl =>
            match alookup tok tbl with
            | Some nt => if negb (str_eqb nt []) && negb (str_eqb nt tok) then nt else tok
            | None => tok
            end
        end in
      (OAuth2 tok' refresh,
       Ok {| sc_headers := Some (hset (get_or_empty (sc_headers a)) s_Authorization (s_Bearer_sp ++ tok'));
             sc_params := sc_params a; sc_cookies := sc_cookies a |})
  | Composite ps =>
      let fix go (ps : list plugin) (a : scratch) : list plugin * result scratch :=
        match ps with
        | [] => ([], Ok a)
        | q :: qs =>
            match auth_step q a with
            | (q', Ok a') => let (qs', r) := go qs a' in (q' :: qs', r)
            | (q', Err) => (q' :: qs, Err)
            end
        end in
      let (ps', r) := go ps a in (Composite ps', r)
  end.

Record transport := { t_defaults : option dict; t_auth : option plugin; t_bearer : option str }.

(* kwargs of HttpxTransport.request; body & the rest are opaque and passed through *)
Record kwargs := { k_headers : option dict; k_params : option dict; k_cookies : option dict; k_body : str }.

(* what httpx.AsyncClient.request receives *)
Record wire := { w_headers : dict; w_params : option dict; w_cookies : option dict; w_body : str }.

Definition truthy_dict (o : option dict) : dict :=
  match o with Some d => d | None => [] end.

Definition prepare_headers (t : transport) (kw : kwargs)
  : transport * result (dict * option dict * option dict) :=
  let p0 := hupdate [] (truthy_dict (t_defaults t)) in
  let p1 := match k_headers kw with Some h => hupdate p0 h | None => p0 end in
  (* temp_request_args_for_auth = {"headers": prepared.copy()} plus the caller's "params"/"cookies"
     when present; after the plugin ran, "params"/"cookies" of its result are written back to kwargs *)
  let tmp := {| sc_headers := Some p1; sc_params := k_params kw; sc_cookies := k_cookies kw |} in
  match t_auth t with
  | Some a =>
      match auth_step a tmp with
      | (a', Ok r) =>
          ({| t_defaults := t_defaults t; t_auth := Some a'; t_bearer := t_bearer t |},
           Ok (match sc_headers r with Some h => h | None => p1 end, sc_params r, sc_cookies r))
      | (a', Err) =>
          ({| t_defaults := t_defaults t; t_auth := Some a'; t_bearer := t_bearer t |}, Err)
      end
  | None =>
      match t_bearer t with
      | Some tok => (t, Ok (hset p1 s_Authorization (s_Bearer_sp ++ tok), k_params kw, k_cookies kw))
      | None => (t, Ok (p1, k_params kw, k_cookies kw))
      end
  end.

Definition request (t : transport) (kw : kwargs) : transport * result wire :=
  match prepare_headers t kw with
  | (t', Ok (h, ps, cs)) => (t', Ok {| w_headers := h; w_params := ps; w_cookies := cs;
                                       w_body := k_body kw |})
  | (t', Err) => (t', Err)
  end.

(* a session: successive requests through one transport (OAuth2 state persists) *)
Fixpoint session (t : transport) (kws : list kwargs) : list (result wire) :=
  match kws with
  | [] => []
  | kw :: r => let (t', w) := request t kw in w :: session t' r
  end.

(* what the server sees: httpx lower-cases header names; same-name fields are all sent, in order *)
Definition on_wire_headers (h : dict) : dict := map (fun kv => (lower_str (fst kv), snd kv)) h.

(* ------------------------------------------------------------------------------------- *)
(* The documented behaviour (the property): header names are case-insensitive; defaults <
   per-request < each plugin's contribution in order; API key at its configured location. *)

Definition ci_set (m : dict) (k : str) (v : str) : dict := aset m (lower_str k) v.
Definition ci_update (m : dict) (d : dict) : dict :=
  fold_left (fun acc kv => ci_set acc (fst kv) (snd kv)) d m.

Record expect := { e_headers : dict (* lower-cased names, one value each *);
                   e_params : option dict; e_cookies : option dict }.

Fixpoint spec_plugin (p : plugin) (e : expect) : plugin * result expect :=
  match p with
  | Bearer tok =>
      (p, Ok {| e_headers := ci_set (e_headers e) s_Authorization (s_Bearer_sp ++ tok);
                e_params := e_params e; e_cookies := e_cookies e |})
  | HeadersP hs =>
      (p, Ok {| e_headers := ci_update (e_headers e) hs; e_params := e_params e; e_cookies := e_cookies e |})
  | ApiKey key loc name =>
      if str_eqb loc s_header then
        (p, Ok {| e_headers := ci_set (e_headers e) name key; e_params := e_params e; e_cookies := e_cookies e |})
      else if str_eqb loc s_query then
        (p, Ok {| e_headers := e_headers e; e_params := Some (aset (get_or_empty (e_params e)) name key);
                  e_cookies := e_cookies e |})
      else if str_eqb loc s_cookie then
        (p, Ok {| e_headers := e_headers e; e_params := e_params e;
                  e_cookies := Some (aset (get_or_empty (e_cookies e)) name key) |})
      else (p, Err)
  | OAuth2 tok refresh =>
      let tok' :=
        match refresh with
        | None => tok
        | Some tbl =>
            match alookup tok tbl with
            | Some nt => if negb (str_eqb nt []) && negb (str_eqb nt tok) then nt else tok
            | None => tok
            end
        end in
      (OAuth2 tok' refresh,
       Ok {| e_headers := ci_set (e_headers e) s_Authorization (s_Bearer_sp ++ tok');
             e_params := e_params e; e_cookies := e_cookies e |})
  | Composite ps =>
      let fix go (ps : list plugin) (e : expect) : list plugin * result expect :=
        match ps with
        | [] => ([], Ok e)
        | q :: qs =>
            match spec_plugin q e with
            | (q', Ok e') => let (qs', r) := go qs e' in (q' :: qs', r)
            | (q', Err) => (q' :: qs, Err)
            end
        end in
      let (ps', r) := go ps e in (Composite ps', r)
  end.

Definition spec_request (t : transport) (kw : kwargs) : transport * result expect :=
  let h0 := ci_update [] (truthy_dict (t_defaults t)) in
  let h1 := ci_update h0 (truthy_dict (k_headers kw)) in
  let e1 := {| e_headers := h1; e_params := k_params kw; e_cookies := k_cookies kw |} in
  match t_auth t with
  | Some a =>
      match spec_plugin a e1 with
      | (a', r) => ({| t_defaults := t_defaults t; t_auth := Some a'; t_bearer := t_bearer t |}, r)
      end
  | None =>
      match t_bearer t with
      | Some tok => (t, Ok {| e_headers := ci_set h1 s_Authorization (s_Bearer_sp ++ tok);
                              e_params := k_params kw; e_cookies := k_cookies kw |})
      | None => (t, Ok e1)
      end
  end.

(* all values sent under lower-cased name n *)
Definition wire_values (n : str) (h : dict) : list str :=
  map snd (filter (fun kv => str_eqb (lower_str (fst kv)) n) h).

Definition expect_values (n : str) (m : dict) : list str :=
  match alookup n m with Some v => [v] | None => [] end.

Definition odict_eqb (a b : option dict) : bool :=
  opt_eqb (list_eqb (pair_eqb str_eqb str_eqb)) a b.

(* The property for one request, as a Prop *)
Definition meets (w : wire) (e : expect) (kw : kwargs) : Prop :=
  (forall n, wire_values n (w_headers w) = expect_values n (e_headers e))
  /\ w_params w = e_params e /\ w_cookies w = e_cookies e /\ w_body w = k_body kw.

