(* C19 — output depends on the document's meaning, not its rendering.
   Models: (1) document keys as YAML delivers them (str or int) and the operation/response parsers' handling
   of them as coded (core/loader/operations/parser.py, core/loader/responses/parser.py); (2) the tag grouping
   of EndpointsEmitter.emit (setdefault(key, []).append(op)) after global id de-duplication; (3) the field
   list of a dataclass (visit/model/dataclass_generator.py: sorted properties + collision suffixes);
   (4) the reference graph of components.schemas and the executable "no cycle" guards used to attribute the
   known order sensitivities of schema parsing (F02a, F02c — the parser itself is modelled for C02).
   No proofs in this file. *)
From PG Require Import Lib.Strs Model.Sites Model.Diff.

(* ================================================================================================
   (1) keys *)
Inductive key := KStr (s : str) | KInt (n : N).

Definition key_eqb (a b : key) : bool :=
  match a, b with
  | KStr x, KStr y => str_eqb x y
  | KInt x, KInt y => N.eqb x y
  | _, _ => false
  end.

(* PyYAML safe_load (YAML 1.1): an unquoted plain scalar that is "0" or [1-9][0-9]* resolves to int.
   (Leading-zero octal, underscores, sexagesimal, bool/null words are outside this model; the harness only
   retypes such canonical decimals.) *)
Definition is_canonical_dec (s : str) : bool :=
  match s with
  | [] => false
  | c :: r => if c =? 48 then match r with [] => true | _ => false end
              else (49 <=? c) && (c <=? 57) && forallb is_digit r
  end.
Fixpoint dec_value (s : str) (acc : N) : N :=
  match s with [] => acc | c :: r => dec_value r (10 * acc + (c - 48)) end.

(* what writing the key without quotes does to it *)
Definition retype_key (k : key) : key :=
  match k with
  | KStr s => if is_canonical_dec s then KInt (dec_value s 0) else k
  | KInt _ => k
  end.

(* str(status_code) — parse_operations passes str(sc) to parse_response since the fix of F07b *)
Definition key_str (k : key) : str := match k with KStr s => s | KInt n => dec n end.

Record operation := {
  o_id : str;              (* operationId *)
  o_tags : list str;
  o_sig : str;             (* everything else the signature is computed from (opaque) *)
  o_resps : list key;      (* keys of the responses mapping, in document order *)
}.
Definition path_item := list (str * operation).   (* method key -> operation node, document order *)
Definition doc := list (str * path_item).         (* path -> path item, document order *)

Definition retype_op (o : operation) : operation :=
  {| o_id := o_id o; o_tags := o_tags o; o_sig := o_sig o; o_resps := map retype_key (o_resps o) |}.
Definition retype_keys (d : doc) : doc :=
  map (fun pi => (fst pi, map (fun mo => (fst mo, retype_op (snd mo))) (snd pi))) d.

(* parsed operation (IROperation, reduced) *)
Record pop := { p_path : str; p_method : str; p_id : str; p_tags : list str; p_sig : str; p_codes : list str }.

Definition http_methods : list str :=
  [[71;69;84]; [80;79;83;84]; [80;85;84]; [80;65;84;67;72]; [68;69;76;69;84;69];
   [79;80;84;73;79;78;83]; [72;69;65;68]; [84;82;65;67;69]].
Definition upper_str (s : str) : str := map upper_ascii s.
Definition is_method (m : str) : bool := mem_str (upper_str m) http_methods.

(* parse_operations: `parse_response(str(sc), …)` (fix of F07b): an int key behaves like its decimal string *)
Definition codes_of (ks : list key) : list str := map key_str ks.

Definition parse_op (path : str) (mo : str * operation) : list pop :=
  if is_method (fst mo) then
    [{| p_path := path; p_method := upper_str (fst mo); p_id := o_id (snd mo);
        p_tags := o_tags (snd mo); p_sig := o_sig (snd mo); p_codes := codes_of (o_resps (snd mo)) |}]
  else [].

Definition parse_item (pi : str * path_item) : list pop := flat_map (parse_op (fst pi)) (snd pi).
Definition parse_doc (d : doc) : list pop := flat_map parse_item d.

(* a document as JSON delivers it: every key a string *)
Definition key_is_str (k : key) : bool := match k with KStr _ => true | KInt _ => false end.
Definition all_str_op (o : operation) : bool := forallb key_is_str (o_resps o).
Definition all_str (d : doc) : bool := forallb (fun pi => forallb (fun mo => all_str_op (snd mo)) (snd pi)) d.

(* ================================================================================================
   (2) tag grouping and the emitted method set *)
Definition s_default_tag : str := [100;101;102;97;117;108;116].

Section Group.
  Variable tagkey : str -> str.     (* NameSanitizer.normalize_tag_key *)
  Variable san : str -> str.        (* NameSanitizer.sanitize_method_name *)

  Definition op_tags (p : pop) : list str := match p_tags p with [] => [s_default_tag] | ts => ts end.

  (* tag_key_to_ops.setdefault(key, []).append(op) *)
  Fixpoint gadd (k : str) (p : pop) (g : list (str * list pop)) : list (str * list pop) :=
    match g with
    | [] => [(k, [p])]
    | (k', ps) :: r => if str_eqb k k' then (k', ps ++ [p]) :: r else (k', ps) :: gadd k p r
    end.
  Definition gadd_op (g : list (str * list pop)) (p : pop) : list (str * list pop) :=
    fold_left (fun g t => gadd (tagkey t) p g) (op_tags p) g.
  Definition group (ops : list pop) : list (str * list pop) := fold_left gadd_op ops [].

  Definition set_id (p : pop) (i : str) : pop :=
    {| p_path := p_path p; p_method := p_method p; p_id := i; p_tags := p_tags p; p_sig := p_sig p;
       p_codes := p_codes p |}.
  (* _deduplicate_operation_ids_globally, once (Diff.dedup_ops), before grouping *)
  Definition dedup_pops (ops : list pop) : list pop :=
    map (fun pi => set_id (fst pi) (snd pi)) (combine ops (dedup_ops san (map p_id ops))).

  (* (tag client key, method name, signature) of every emitted method, in emission order *)
  Definition emitted_methods (ops : list pop) : list (str * str * str) :=
    flat_map (fun kv => map (fun p => (fst kv, san (p_id p), p_sig p)) (snd kv)) (group (dedup_pops ops)).

  (* per tag client: method names in order (what the correspondence run reads back from endpoints/<tag>.py) *)
  Definition emitted_by_tag (ops : list pop) : list (str * list str) :=
    map (fun kv => (fst kv, map (fun p => san (p_id p)) (snd kv))) (group (dedup_pops ops)).

  (* guard "no name collisions": no two operations share a method name *)
  Definition guard_collide (ops : list pop) : bool := nodupb (map san (map p_id ops)).
End Group.

(* ================================================================================================
   (3) dataclass fields:
     sorted_props = sorted(schema.properties.items(), key=lambda item: (item[0] not in schema.required, item[0]))
     seen_field_names = {}
     for prop_name, prop_schema in sorted_props:
         field_name = sanitize_method_name(prop_name)
         if field_name in seen_field_names:
             base, suffix = field_name, 2
             while field_name in seen_field_names: field_name = f"{base}_{suffix}"; suffix += 1
         seen_field_names[field_name] = prop_name
         fields.append((field_name, type, …)) *)
Definition prop := (str * (bool * str))%type.     (* name, (required, type text) *)

(* the sort key (not required, name) as one string: False < True, then the name *)
Definition prop_key (p : prop) : str := (if fst (snd p) then 0 else 1) :: fst p.

Definition sort_props (l : list prop) : list prop := sort_by prop_key l.

Fixpoint fresh_suffix (fuel : nat) (base : str) (suffix : N) (seen : list str) : str :=
  match fuel with
  | O => base ++ [95] ++ dec suffix
  | S f => let cand := base ++ [95] ++ dec suffix in
           if mem_str cand seen then fresh_suffix f base (suffix + 1) seen else cand
  end.

Fixpoint fields_go (san : str -> str) (seen : list str) (ps : list prop) : list (str * str * bool) :=
  match ps with
  | [] => []
  | (name, (req, ty)) :: r =>
      let f0 := san name in
      let f := if mem_str f0 seen then fresh_suffix (length seen) f0 2 seen else f0 in
      (f, ty, req) :: fields_go san (f :: seen) r
  end.
Definition gen_fields (san : str -> str) (props : list prop) : list (str * str * bool) :=
  fields_go san [] (sort_props props).

(* ================================================================================================
   (4) reference graph of components.schemas; guards for attribution of F02a / F02c *)
Definition graph := list (str * list (bool * str)).   (* schema -> (edge sits directly in an allOf?, target) *)

Definition succs (g : graph) (n : str) : list (bool * str) :=
  match alookup n g with Some l => l | None => [] end.

(* nodes reachable from [n] in 1..fuel steps *)
Fixpoint reach (g : graph) (fuel : nat) (n : str) : list str :=
  match fuel with
  | O => []
  | S f => flat_map (fun e => snd e :: reach g f (snd e)) (succs g n)
  end.
(* a schema that references ITSELF (Folder.parent : $ref Folder) is not an order hazard: declared schemas may refer to
   themselves and are parsed the same way wherever they stand; the guards look at cycles through at least two schemas *)
Definition strip_self (g : graph) : graph :=
  map (fun kv => (fst kv, filter (fun e => negb (str_eqb (snd e) (fst kv))) (snd kv))) g.
Definition on_cycle (g : graph) (n : str) : bool := mem_str n (reach g (length g) n).
(* F02a guard: no reference cycle through two or more schemas *)
Definition guard_acyclic (g : graph) : bool :=
  let g' := strip_self g in forallb (fun kv => negb (on_cycle g' (fst kv))) g'.
(* F02c guard: no cycle that goes through an allOf edge (child allOf-> parent -> … -> child) *)
Definition guard_no_allof_cycle (g : graph) : bool :=
  let g' := strip_self g in
  forallb (fun kv => forallb (fun e => negb (fst e) ||
                                       negb (str_eqb (snd e) (fst kv) || mem_str (fst kv) (reach g' (length g') (snd e))))
                             (snd kv)) g.
