(* C15 — lexical model.  (1) the part of CPython's tokenizer / string-literal decoder that decides
   where a `…` / QQQ…QQQ literal or a # comment ends and what the literal evaluates to;
   (2) one function per rendering site of the generator, transcribing exactly the escaping (or the
   lack of it) applied there; (3) executable guards (the characters that are harmless at a site).
   No proofs in this file. *)
From PG Require Import Lib.Strs.

(* ------------------------------------------------------------------ characters *)
Definition cDQ : N := 34.   (* double quote *)
Definition cBS : N := 92.   (* backslash *)
Definition cNL : N := 10.
Definition cCR : N := 13.

Definition hexval (c : N) : option N :=
  if (48 <=? c) && (c <=? 57) then Some (c - 48)
  else if (97 <=? c) && (c <=? 102) then Some (c - 87)
  else if (65 <=? c) && (c <=? 70) then Some (c - 55)
  else None.
Definition is_oct (c : N) : bool := (48 <=? c) && (c <=? 55).

(* one-character escapes: \\ \' \` \a \b \f \n \r \t \v *)
Definition simple_escape (c : N) : option N :=
  if c =? 92 then Some 92 else if c =? 39 then Some 39 else if c =? 34 then Some 34
  else if c =? 97 then Some 7 else if c =? 98 then Some 8 else if c =? 102 then Some 12
  else if c =? 110 then Some 10 else if c =? 114 then Some 13 else if c =? 116 then Some 9
  else if c =? 118 then Some 11 else None.

(* ------------------------------------------------------------------ the literal lexer
   A state machine over the characters after the opening quote(s).  [tq] = triple-quoted.
   Source text is a sequence of code points AFTER CPython's newline translation is accounted for:
   a raw CR (alone or before LF) inside a triple-quoted literal reads as LF; inside a `…` literal a
   raw CR or LF ends the line (error).  NUL is rejected anywhere in source.  Lone surrogates cannot
   be encoded in a source file (error). *)
Inductive lst :=
| Nrm                                 (* ordinary text *)
| Esc                                 (* just after a backslash *)
| Hex (k : nat) (acc : N)             (* k more hex digits expected: \xhh \uXXXX \UXXXXXXXX *)
| Oct (k : nat) (acc : N)             (* up to k more octal digits *)
| AfterCR.                            (* tq only: a raw CR was read as LF; swallow one following LF *)

Definition consf (c : N) (r : option (str * str)) : option (str * str) :=
  match r with Some (v, rest) => Some (c :: v, rest) | None => None end.

Definition is_surrogate (c : N) : bool := (55296 <=? c) && (c <=? 57343).
Definition bad_raw (c : N) : bool := (c =? 0) || is_surrogate c || (1114111 <? c).

Fixpoint lex_gen (qc : N) (tq : bool) (q : lst) (s : str) {struct s} : option (str * str) :=
  match s with
  | [] => None                                            (* unterminated literal *)
  | c :: r =>
      (* what an ordinary-state step does with c (also used when an octal escape ends early) *)
      let nrm :=
        if c =? qc then
          if tq then
            match r with
            | c2 :: c3 :: r3 => if (c2 =? qc) && (c3 =? qc) then Some ([], r3) else consf qc (lex_gen qc tq Nrm r)
            | _ => consf qc (lex_gen qc tq Nrm r)
            end
          else Some ([], r)
        else if c =? 92 then lex_gen qc tq Esc r
        else if bad_raw c then None
        else if c =? 10 then (if tq then consf 10 (lex_gen qc tq Nrm r) else None)
        else if c =? 13 then (if tq then consf 10 (lex_gen qc tq AfterCR r) else None)
        else consf c (lex_gen qc tq Nrm r) in
      match q with
      | Nrm => nrm
      | AfterCR => if c =? 10 then lex_gen qc tq Nrm r else nrm
      | Esc =>
          match simple_escape c with
          | Some v => consf v (lex_gen qc tq Nrm r)
          | None =>
              if c =? 10 then lex_gen qc tq Nrm r                     (* backslash-newline: continuation *)
              else if c =? 13 then lex_gen qc tq AfterCR r            (* CR reads as LF *)
              else if is_oct c then lex_gen qc tq (Oct 2 (c - 48)) r
              else if c =? 120 then lex_gen qc tq (Hex 2 0) r         (* \x *)
              else if c =? 117 then lex_gen qc tq (Hex 4 0) r         (* \u *)
              else if c =? 85 then lex_gen qc tq (Hex 8 0) r          (* \U *)
              else if c =? 78 then None                           (* \N{…}: name table not modelled: error *)
              else if bad_raw c then None
              else consf 92 nrm                                   (* unknown escape keeps the backslash *)
          end
      | Hex k acc =>
          match hexval c with
          | None => None                                          (* truncated \x \u \U escape *)
          | Some v =>
              let acc' := 16 * acc + v in
              match k with
              | S (S k') => lex_gen qc tq (Hex (S k') acc') r
              | _ => if 1114111 <? acc' then None else consf acc' (lex_gen qc tq Nrm r)
              end
          end
      | Oct k acc =>
          if is_oct c then
            match k with
            | S (S k') => lex_gen qc tq (Oct (S k') (8 * acc + (c - 48))) r
            | _ => consf (8 * acc + (c - 48)) (lex_gen qc tq Nrm r)
            end
          else consf acc nrm
      end
  end.

(* [qc] = the quote character of the literal (34 or 39); escapes decode to their true code points whatever qc is *)
Notation lex_go := (lex_gen 34).

Definition starts3 (s : str) : bool :=
  match s with a :: b :: c :: _ => (a =? 34) && (b =? 34) && (c =? 34) | _ => false end.

(* `…` literal at the head of s (None if s starts a triple-quoted literal instead) *)
Definition lex_dq (s : str) : option (str * str) :=
  if starts3 s then None else
  match s with
  | c :: r => if c =? 34 then lex_go false Nrm r else None
  | [] => None
  end.

Definition lex_tq (s : str) : option (str * str) :=
  match s with
  | a :: b :: c :: r => if (a =? 34) && (b =? 34) && (c =? 34) then lex_go true Nrm r else None
  | _ => None
  end.

(* what CPython reads at a position where a string literal starts *)
Definition lex_str (s : str) : option (str * str) := if starts3 s then lex_tq s else lex_dq s.

(* '...' literals: the same machine with the apostrophe as quote character (a literal starting with three
   apostrophes is not modelled: None) *)
Definition starts3sq (s : str) : bool :=
  match s with a :: b :: c :: _ => (a =? 39) && (b =? 39) && (c =? 39) | _ => false end.
Definition lex_sq (s : str) : option (str * str) :=
  if starts3sq s then None else
  match s with
  | c :: r => if c =? 39 then lex_gen 39 false Nrm r else None
  | [] => None
  end.
Definition lex_lit (s : str) : option (str * str) :=
  match s with c :: _ => if c =? 39 then lex_sq s else lex_str s | [] => None end.

(* comment: runs to the end of the PHYSICAL line; the tokenizer ends a line at LF or CR only
   (FF, VT, FS/GS/RS, NEL, LS, PS are ordinary comment characters) and rejects NUL *)
Definition line_break (c : N) : bool := (c =? 10) || (c =? 13).
Fixpoint lex_comment (s : str) : option (str * str) :=   (* s starts with '#'; returns (comment, rest incl. EOL) *)
  match s with
  | [] => Some ([], [])
  | c :: r => if line_break c then Some ([], s)
              else if bad_raw c then None
              else consf c (lex_comment r)
  end.
Definition single_physical_line (s : str) : bool := forallb (fun c => negb (line_break c || bad_raw c)) s.

(* ------------------------------------------------------------------ helpers used by the sites *)
Definition q3 : str := [34; 34; 34].
Definition dq (body : str) : str := 34 :: body ++ [34].

(* str.replace(`\\`, `\\\\`) *)
Definition dbl_bs (t : str) : str := flat_map (fun c => if c =? 92 then [92; 92] else [c]) t.
(* str.replace('QQQ', X) : leftmost, non-overlapping *)
Fixpoint repl3 (x : str) (t : str) : str :=
  match t with
  | c1 :: r1 =>
      match r1 with
      | c2 :: c3 :: r3 => if (c1 =? 34) && (c2 =? 34) && (c3 =? 34) then x ++ repl3 x r3 else c1 :: repl3 x r1
      | _ => c1 :: repl3 x r1
      end
  | [] => []
  end.
(* str.replace(`\n`, ` `) *)
Definition nl_to_sp (t : str) : str := map (fun c => if c =? 10 then 32 else c) t.

(* json.dumps(s)[1:-1] with ensure_ascii=True (the default) *)
Definition hexdig (d : N) : N := if d <? 10 then 48 + d else 87 + d.
Definition hex4 (c : N) : str :=
  [hexdig (c / 4096); hexdig ((c / 256) mod 16); hexdig ((c / 16) mod 16); hexdig (c mod 16)].
Definition u_esc (c : N) : str := 92 :: 117 :: hex4 c.
Definition json_esc1 (c : N) : str :=
  if c =? 34 then [92; 34] else if c =? 92 then [92; 92]
  else if c =? 10 then [92; 110] else if c =? 13 then [92; 114] else if c =? 9 then [92; 116]
  else if c =? 8 then [92; 98] else if c =? 12 then [92; 102]
  else if (32 <=? c) && (c <=? 126) then [c]
  else if c <? 65536 then u_esc c
  else u_esc (55296 + (c - 65536) / 1024) ++ u_esc (56320 + (c - 65536) mod 1024).
Definition json_esc (t : str) : str := flat_map json_esc1 t.

(* json.dumps(s, ensure_ascii=False)[1:-1]: only the quote, the backslash and the C0 controls are escaped *)
Definition json_raw1 (c : N) : str :=
  if c =? 34 then [92; 34] else if c =? 92 then [92; 92]
  else if c =? 10 then [92; 110] else if c =? 13 then [92; 114] else if c =? 9 then [92; 116]
  else if c =? 8 then [92; 98] else if c =? 12 then [92; 102]
  else if c <? 32 then u_esc c else [c].
Definition json_raw (t : str) : str := flat_map json_raw1 t.

(* repr(s) of a str (unicodeobject.c unicode_repr): single quotes unless the text has a single and no double quote;
   backslash, the chosen quote, TAB LF CR escaped; other C0 controls and DEL as \xhh; printable characters raw;
   non-printable non-ASCII as \xhh / \uXXXX / \UXXXXXXXX.  [pr] = str.isprintable on NON-ASCII code points (Unicode
   data base: an oracle, instantiated from Python in the correspondence run; never consulted below 128). *)
Definition hex2 (c : N) : str := [hexdig (c / 16); hexdig (c mod 16)].
Definition x_esc (c : N) : str := 92 :: 120 :: hex2 c.
Definition U_esc (c : N) : str := 92 :: 85 :: hex4 (c / 65536) ++ hex4 (c mod 65536).
Definition repr_esc1 (pr : N -> bool) (q c : N) : str :=
  if c =? 92 then [92; 92] else if c =? q then [92; q]
  else if c =? 9 then [92; 116] else if c =? 10 then [92; 110] else if c =? 13 then [92; 114]
  else if (c <? 32) || (c =? 127) then x_esc c
  else if c <? 127 then [c]
  else if pr c then [c]
  else if c <? 256 then x_esc c else if c <? 65536 then u_esc c else U_esc c.
Definition repr_quote (t : str) : N := if existsb (N.eqb 39) t && negb (existsb (N.eqb 34) t) then 34 else 39.
Definition py_repr (pr : N -> bool) (t : str) : str :=
  let q := repr_quote t in q :: flat_map (repr_esc1 pr q) t ++ [q].
(* Unicode scalar values: what a UTF-8 encoded document can contain *)
Definition scalar (t : str) : bool := forallb (fun c => negb (is_surrogate c) && (c <=? 1114111)) t.
Definition in_range (t : str) : bool := forallb (fun c => c <=? 1114111) t.

(* CodeWriter.write_block = str.splitlines() + one write_line per piece: every character str.splitlines()
   breaks at (LF CR VT FF FS GS RS NEL LS PS; CR LF counts once) becomes LF + the current indentation.
   Endpoint method code is passed through it once, inside the class (indentation = 4 spaces). *)
Definition is_break (c : N) : bool :=
  (c =? 10) || (c =? 13) || (c =? 11) || (c =? 12) || (c =? 28) || (c =? 29) || (c =? 30) || (c =? 133) || (c =? 8232) || (c =? 8233).
Fixpoint reflow (ind s : str) : str :=
  match s with
  | [] => []
  | c :: r =>
      if c =? 13 then
        match r with
        | d :: r' => if d =? 10 then (match r' with [] => [] | _ => 10 :: ind ++ reflow ind r' end)
                     else 10 :: ind ++ reflow ind r
        | [] => []
        end
      else if is_break c then (match r with [] => [] | _ => 10 :: ind ++ reflow ind r end)
      else c :: reflow ind r
  end.
Definition ind4 : str := [32; 32; 32; 32].
(* the assumption on the oracle actually used: printable non-ASCII characters are not surrogates / out of range / line
   separators (NEL, LS, PS are not printable) *)
Definition pr_ok (pr : N -> bool) : Prop :=
  forall c, pr c = true -> 128 <= c /\ bad_raw c = false /\ is_break c = false.

(* ------------------------------------------------------------------ the rendering sites
   (ids are those of the inventory Gen/T_C15.v; file:line there) *)
(* value-carrying sites of the model files: json.dumps(x, ensure_ascii=False)  [after the fixes of F15a/b/i/h] *)
Definition site_enum_value (t : str) : str := dq (json_raw t).   (* python_construct_renderer.render_enum  NAME = <literal> *)
Definition site_meta_key (t : str) : str := dq (json_raw t).     (* render_dataclass Meta key maps (both directions) *)
Definition site_disc_prop (t : str) : str := dq (json_raw t).    (* render_alias property_name: str = <literal> *)
Definition site_disc_value (t : str) : str := dq (json_raw t).   (* render_alias _mapping_data tuples / get_mapping keys *)
Definition site_default (t : str) : str := dq (json_raw t).      (* dataclass_generator._get_field_default (string default) *)
(* value-carrying sites of the endpoint files: code_writer.python_string_literal =
   QUOTE + x.encode(unicode_escape).decode(ascii).replace(QUOTE, backslash QUOTE) + QUOTE, i.e. the escapes of repr with
   the double quote and nothing printable above ASCII; then CodeWriter.write_block in endpoint_visitor  [fixes of F15f/j] *)
Definition ascii_lit (t : str) : str := dq (flat_map (repr_esc1 (fun _ => false) 34) t).
Definition site_query_key (t : str) : str := reflow ind4 (ascii_lit t).    (* url_args_generator query dict keys *)
Definition site_header_key (t : str) : str := reflow ind4 (ascii_lit t).   (* url_args_generator header / cookie dict keys *)
Definition site_media_type (t : str) : str := reflow ind4 (ascii_lit t).   (* overload_generator Literal[…] = … ; response handler *)
(* url_args_generator: Content-Type of a raw bytes body, rendered with !r (repr), then write_block *)
Definition site_media_repr (pr : N -> bool) (t : str) : str := reflow ind4 (py_repr pr t).

(* dataclass_generator._get_field_default, property whose schema is a named enum: Name(<json.dumps(default,
   ensure_ascii=False)>) - the enum is called with the VALUE  [fix of F15l]; the literal inside the parentheses: *)
Definition site_enum_default (t : str) : str := dq (json_raw t).

(* docstring sites  [after the fixes of F15c/d/g/k] *)
(* documentation_writer.escape_docstring_text: NUL -> space, backslash doubled, then QQQ -> three escaped quotes *)
Definition nul_sp (t : str) : str := map (fun c => if c =? 0 then 32 else c) t.
Definition esc_q3 : str := [92;34;92;34;92;34].                                     (* three escaped quotes *)
Definition doc_esc (t : str) : str := repl3 esc_q3 (dbl_bs (nul_sp t)).
(* render_alias: NUL -> space, backslash doubled, EVERY double quote escaped (the text abuts the closing quotes) *)
Definition alias_esc1 (c : N) : str :=
  if c =? 0 then [32] else if c =? 92 then [92; 92] else if c =? 34 then [92; 34] else [c].
Definition alias_esc (t : str) : str := flat_map alias_esc1 t.
Definition s_alias_for : str := [65;108;105;97;115;32;102;111;114;32].            (* Alias for  *)
Definition site_alias_doc (t : str) : str :=
  match t with [] => [] | _ => q3 ++ s_alias_for ++ alias_esc t ++ q3 end.
Definition s_client_for_q : str := [67;108;105;101;110;116;32;102;111;114;32;39].   (* Client for ' *)
Definition s_q_endpoints : str := [39;32;101;110;100;112;111;105;110;116;115;46].   (* ' endpoints. *)
Definition site_tag_doc (t : str) : str := q3 ++ s_client_for_q ++ doc_esc t ++ s_q_endpoints ++ q3.
(* escaped text inside a hand-written docstring template (wrapper classes, overload docstring lines, client title):
   pre/post are the fixed template parts around the interpolated text *)
Definition site_block_doc (pre post t : str) : str := q3 ++ pre ++ doc_esc t ++ post ++ q3.
(* the fixed template text after the interpolated value closes the docstring by itself (executable form, rest = []) *)
Definition post_closes (post : str) : bool :=
  match post with c :: _ => negb (c =? 34) | [] => true end &&
  match lex_go true Nrm (post ++ q3) with Some (_, []) => true | _ => false end.
(* the first template character after the escaped text: not a quote, not a backslash *)
Definition sep_ok (sep : N) : bool := negb ((sep =? 34) || (sep =? 92) || bad_raw sep).
(* client_visitor: the API description inside the client class docstring (site 16), exactly as the code does it:
   NUL -> space, QQQ -> apostrophe, three apostrophes -> apostrophe, backslash doubled, str.strip(), textwrap.dedent
   (after strip() the first line has no margin, so dedent only empties the lines made of blanks), then the whole text is
   written as one line with rstrip(QUOTE). *)
Fixpoint repl3c (q : N) (x : str) (t : str) : str :=     (* str.replace(q q q, x) *)
  match t with
  | c1 :: r1 =>
      match r1 with
      | c2 :: c3 :: r3 => if (c1 =? q) && (c2 =? q) && (c3 =? q) then x ++ repl3c q x r3 else c1 :: repl3c q x r1
      | _ => c1 :: repl3c q x r1
      end
  | [] => []
  end.
Definition py_space (c : N) : bool :=     (* str.isspace: what str.strip() removes *)
  ((9 <=? c) && (c <=? 13)) || ((28 <=? c) && (c <=? 32)) || (c =? 133) || (c =? 160) || (c =? 5760)
  || ((8192 <=? c) && (c <=? 8202)) || (c =? 8232) || (c =? 8233) || (c =? 8239) || (c =? 8287) || (c =? 12288).
Fixpoint lstrip (p : N -> bool) (s : str) : str := match s with c :: r => if p c then lstrip p r else s | [] => [] end.
Definition strip_sp (s : str) : str := rev (lstrip py_space (rev (lstrip py_space s))).
Definition is_blank (c : N) : bool := (c =? 32) || (c =? 9).
(* lines (separated by LF) that consist of blanks only become empty *)
Fixpoint blank_norm_go (cur : str) (s : str) : str :=     (* cur = the current line so far, reversed *)
  match s with
  | [] => if forallb is_blank cur then [] else rev cur
  | c :: r => if c =? 10 then (if forallb is_blank cur then [] else rev cur) ++ 10 :: blank_norm_go [] r
              else blank_norm_go (c :: cur) r
  end.
Definition blank_norm (s : str) : str := blank_norm_go [] s.
Definition rstrip_q (s : str) : str := rev (lstrip (fun c => c =? 34) (rev s)).
Definition client_esc (t : str) : str := dbl_bs (repl3c 39 [39] (repl3c 34 [39] (nul_sp t))).
Definition site_client_desc (t : str) : str := rstrip_q (blank_norm (strip_sp (client_esc t))).

(* text on a line of its own between a line QQQ and a line QQQ (overloaded-method docstring) *)
Definition site_block_line (t : str) : str := site_block_doc [10] [10] t.
(* client_visitor: first docstring line  escape({title} (version {version}))  - version text is passed in *)
Definition site_client_title (version t : str) : str :=
  site_block_line (t ++ 32 :: 40 :: [118;101;114;115;105;111;110;32] ++ version ++ [41]).

(* DocumentationWriter.render_docstring: text goes through textwrap (stdlib, external).  Its relevant
   law, checked against the real output on every run: only WHITE SPACE is edited - every other
   character of t appears in the output in order, white space of t may be dropped / replaced by
   spaces and line breaks, spaces, tabs and line breaks may be inserted (column padding can be empty).
   [layoutb t o] decides that o is such an edit of t.  Each line of the layout is then escaped with
   escape_docstring_text. *)
Definition doc_ws (c : N) : bool :=   (* textwrap's whitespace + the extra characters str.splitlines() breaks at *)
  (c =? 9) || (c =? 10) || (c =? 11) || (c =? 12) || (c =? 13) || (c =? 32)
  || (c =? 28) || (c =? 29) || (c =? 30) || (c =? 133) || (c =? 8232) || (c =? 8233).
Fixpoint drop_ws (t : str) : str :=
  match t with c :: r => if doc_ws c then drop_ws r else t | [] => [] end.
Definition out_ws (c : N) : bool := (c =? 9) || (c =? 10) || (c =? 32).   (* what is left after splitlines + join *)
Fixpoint layoutb (t o : str) {struct o} : bool :=
  match o with
  | [] => match drop_ws t with [] => true | _ => false end
  | c :: o' =>
      if out_ws c then layoutb (drop_ws t) o'
      else match drop_ws t with
           | c' :: t' => (c =? c') && layoutb t' o'
           | [] => false
           end
  end.
(* inverse of the escaping on its image: backslash-backslash -> backslash, backslash-quote -> quote *)
Fixpoint doc_unesc (e : str) : str :=
  match e with
  | c :: r => match r with
              | d :: r' => if (c =? 92) && ((d =? 92) || (d =? 34)) then d :: doc_unesc r' else c :: doc_unesc r
              | [] => [c]
              end
  | [] => []
  end.
Definition ends_lf (o : str) : bool := match rev o with c :: _ => c =? 10 | [] => false end.
(* the docstring as emitted: QQQ + escape(layout) + QQQ where the layout ends with a line break *)
Definition site_docwriter_rel (t out : str) : bool :=
  match out with
  | a :: b :: c :: e3 => (a =? 34) && (b =? 34) && (c =? 34) &&
      match rev e3 with
      | z :: y :: x :: re => (z =? 34) && (y =? 34) && (x =? 34) &&
          let e := rev re in let o := doc_unesc e in
          str_eqb (doc_esc o) e && ends_lf o && layoutb (nul_sp t) o
      | _ => false
      end
  | _ => false
  end.

(* comment site: render_dataclass  line += f`  # {desc.replace(LF, space).replace(CR, space).replace(NUL, space)}`  [fix of F15e] *)
Definition comment_clean (t : str) : str := map (fun c => if (c =? 10) || (c =? 13) || (c =? 0) then 32 else c) t.
Definition site_field_comment (t : str) : str := 32 :: 32 :: 35 :: 32 :: comment_clean t.

(* ------------------------------------------------------------------ the property, per site kind *)
Definition hd_not_quote (rest : str) : Prop := match rest with c :: _ => c <> 34 | [] => True end.
Definition Inert_dq (f : str -> str) : Prop :=
  forall t rest, hd_not_quote rest -> lex_str (f t ++ rest) = Some (t, rest).
Definition Inert_doc (f : str -> str) : Prop :=
  forall t rest, hd_not_quote rest -> f t = [] \/ exists v, lex_str (f t ++ rest) = Some (v, rest).
Definition Inert_comment (f : str -> str) : Prop := forall t, single_physical_line (f t) = true.
Definition Inert_doc_rel (R : str -> str -> bool) : Prop :=
  forall t out rest, R t out = true -> hd_not_quote rest -> exists v, lex_str (out ++ rest) = Some (v, rest).

(* ------------------------------------------------------------------ executable guards *)
Definition no_chars (bad : N -> bool) (t : str) : bool := forallb (fun c => negb (bad c)) t.
(* raw `…` site: quote, backslash, line breaks, NUL/surrogates are the harmful characters *)
Definition safe_dq_raw (t : str) : bool :=
  no_chars (fun c => (c =? 34) || (c =? 92) || line_break c || bad_raw c) t.
(* raw value site whose code then goes through write_block: additionally every splitlines() break character *)
Definition safe_dq_block (t : str) : bool := safe_dq_raw t && no_chars is_break t.
(* json.dumps site: only code points above the BMP are mis-rendered (surrogate pair) *)
Definition safe_default (t : str) : bool := no_chars (fun c => 65536 <=? c) t.
(* raw docstring text: quote, backslash, NUL/surrogates *)
Definition safe_doc_raw (t : str) : bool := no_chars (fun c => (c =? 34) || (c =? 92) || bad_raw c) t.
(* alias docstring (escapes \ and QQQ): harmful = a quote as LAST character, NUL/surrogates *)
Fixpoint last_nq (t : str) : bool :=
  match t with [] => true | c :: r => match r with [] => negb (c =? 34) | _ => last_nq r end end.
Definition safe_alias_doc (t : str) : bool := no_chars bad_raw t && last_nq t.
(* fixed template text of a docstring: no backslash, no NUL, every quote is followed by a non-quote character *)
Fixpoint isoq (s : str) : bool :=
  match s with
  | [] => true
  | c :: r => (if c =? 34 then match r with d :: _ => negb (d =? 34) | [] => false end
               else negb ((c =? 92) || bad_raw c)) && isoq r
  end.
(* comment: CR, NUL/surrogates (LF is replaced) *)
Definition safe_field_comment (t : str) : bool := no_chars (fun c => (c =? 13) || bad_raw c) t.

(* executable forms of the per-site statement at rest = [] (used by the correspondence run to predict
   whether a rendered fragment is inert) *)
Definition inert_dq_b (f : str -> str) (t : str) : bool :=
  match lex_str (f t) with Some (v, []) => str_eqb v t | _ => false end.
Definition inert_doc_b (out : str) : bool :=
  match out with [] => true | _ => match lex_str out with Some (_, []) => true | _ => false end end.
