(* C14 / F14f — the converter as a state machine: cattrs caches the structure handler of a container
   type (list[...], dict[str, ...]) per type KEY, and typing's equality/hash of Union ignore the
   order of the members, so the key of list[Union[int,str]] and list[Union[str,int]] is the same
   and whichever was structured first in the process decides the order used by both.
   The handler of a container is built by a factory that captures its element type (and, eagerly,
   the handlers of nested containers) at creation; the union hook itself is order-free: it receives
   the union type from its caller (the top-level call, or the captured element type).
   Domain where this model is claimed faithful ([hist_ok]): containers of containers of unions of
   primitives, no dataclass anywhere (registering a dataclass hook clears cattrs' cache, and
   container VARIANTS of a union are dispatched lazily) — see manifest.  No proofs in this file. *)
From PG Require Import Lib.Strs Model.Union.

Definition prim (t : ty) : bool :=
  match t with TNone | TAny | TStr | TInt | TBool => true | _ => false end.

Fixpoint hist_ok (t : ty) : bool :=
  match t with
  | TList e | TMap e => hist_ok e
  | TUnion None vs => forallb prim vs
  | TUnion (Some _) _ => false
  | TObj _ _ => false
  | _ => true
  end.

(* typing's ==: Union members compared as a set (typing de-duplicates them), recursively *)
Fixpoint ty_eqv (a b : ty) {struct a} : bool :=
  match a, b with
  | TNone, TNone | TAny, TAny | TStr, TStr | TInt, TInt | TBool, TBool => true
  | TList x, TList y => ty_eqv x y
  | TMap x, TMap y => ty_eqv x y
  | TObj n _, TObj m _ => str_eqb n m
  | TUnion _ vs, TUnion _ ws =>
      (fix sub (vs : list ty) : bool :=
         match vs with [] => true | v :: r => existsb (ty_eqv v) ws && sub r end) vs
      && Nat.eqb (length vs) (length ws)
  | _, _ => false
  end.

(* cattrs' two caches, as the container types whose handler exists (fully resolved, as first seen):
   [cL] = MultiStrategyDispatch.dispatch's lru_cache (every cached dispatch; CLEARED whenever a hook is
          registered, which includes the creation of a dict handler);
   [cD] = _direct_dispatch, where gen_structure_mapping registers each dict handler it builds. *)
Record cstate := { cL : list ty; cD : list ty }.
Definition empty_state := {| cL := []; cD := [] |}.
Definition addL (r : ty) (s : cstate) : cstate := {| cL := r :: cL s; cD := cD s |}.

Fixpoint lookup_eqv (t : ty) (c : list ty) : option ty :=
  match c with
  | [] => None
  | x :: r => if ty_eqv t x then Some x else lookup_eqv t r
  end.

(* [disp cached s t]: dispatch(t) (cached = true) / dispatch_without_caching(t) (cached = false):
   the type whose member order the returned handler uses, and the new caches.
   list_structure_factory gets its element handler with a CACHED dispatch and captures the element
   type; mapping_structure_factory gets its value handler WITHOUT caching, registers the new dict
   handler in _direct_dispatch and thereby clears the lru cache. *)
Fixpoint disp (cached : bool) (s : cstate) (t : ty) {struct t} : cstate * ty :=
  match t with
  | TList e =>
      match (if cached then lookup_eqv t (cL s) else None) with
      | Some t0 => (s, t0)
      | None =>
          let (s1, e') := disp true s e in
          ((if cached then addL (TList e') s1 else s1), TList e')
      end
  | TMap e =>
      match (if cached then lookup_eqv t (cL s) else None) with
      | Some t0 => (s, t0)
      | None =>
          match lookup_eqv t (cD s) with
          | Some t0 => ((if cached then addL t0 s else s), t0)
          | None =>
              let (s1, e') := disp false s e in
              let s2 := {| cL := []; cD := TMap e' :: cD s1 |} in
              ((if cached then addL (TMap e') s2 else s2), TMap e')
          end
      end
  | _ => (s, t)
  end.

(* one structure_from_dict(payload, type) call: converter.structure = dispatch(type)(payload, type) *)
Definition step (s : cstate) (rq : ty * json) : cstate * res value :=
  let (s', t') := disp true s (fst rq) in (s', structure t' (snd rq)).

(* a process: successive calls through the one global converter *)
Fixpoint run (s : cstate) (rqs : list (ty * json)) : list (res value) :=
  match rqs with
  | [] => []
  | rq :: r => let (s', o) := step s rq in o :: run s' r
  end.

(* the property: what a call returns does not depend on what was decoded before *)
Definition history_free (rqs : list (ty * json)) : Prop :=
  run empty_state rqs = map (fun rq => structure (fst rq) (snd rq)) rqs.

(* ---- guard: no two container types with the same key but different member order in one process ---- *)
Fixpoint csub (t : ty) : list ty :=
  match t with
  | TList e => t :: csub e
  | TMap e => t :: csub e
  | _ => []
  end.

Definition consistent (ts : list ty) : Prop :=
  forall u1 u2, In u1 (flat_map csub ts) -> In u2 (flat_map csub ts) -> ty_eqv u1 u2 = true -> u1 = u2.

(* executable version (syntactic equality decided on the [hist_ok] fragment; false outside it) *)
Definition prim_eqb (a b : ty) : bool :=
  match a, b with
  | TNone, TNone | TAny, TAny | TStr, TStr | TInt, TInt | TBool, TBool => true
  | _, _ => false
  end.
Fixpoint hty_eqb (a b : ty) {struct a} : bool :=
  match a, b with
  | TList x, TList y => hty_eqb x y
  | TMap x, TMap y => hty_eqb x y
  | TUnion None vs, TUnion None ws => list_eqb prim_eqb vs ws
  | _, _ => prim_eqb a b
  end.
Definition consistentb (ts : list ty) : bool :=
  let us := flat_map csub ts in
  forallb (fun u1 => forallb (fun u2 => negb (ty_eqv u1 u2) || hty_eqb u1 u2) us) us.
