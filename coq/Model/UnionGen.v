(* C14, generator side.  No proofs in this file.
   (1) F14g/F14h — core/parsing/transformers/discriminator_enum_collector.py::_process_discriminated_union:
       for every discriminated union (in the order of the schemas dict) the discriminator values of
       its variants are collected into one unified enum, and the discriminator property of EVERY
       variant is then re-typed with that enum — overwriting what an earlier union wrote.
       Scope of the transcription: variants declare the discriminator property as a plain string
       (no inline / referenced enum), so a variant's value comes from the reverse of the mapping
       (discriminator_value_by_variant: a dict, the LAST value mapped to a variant wins).
   (2) types/resolvers/schema_resolver.py::_resolve_one_of / _resolve_any_of: member order, de-dup. *)
From PG Require Import Lib.Strs.

Record dunion := { du_name : str; du_variants : list str; du_mapping : list (str * str) (* value -> variant *) }.

(* discriminator_value_by_variant[variant] : last value whose ref names the variant *)
Fixpoint rev_value (m : list (str * str)) (v : str) : option str :=
  match m with
  | [] => None
  | (d, v') :: r => match rev_value r v with
                    | Some d' => Some d'
                    | None => if str_eqb v v' then Some d else None
                    end
  end.

(* enum_values: one value per variant that has one, in variant order *)
Definition collected (u : dunion) : list str :=
  flat_map (fun v => match rev_value (du_mapping u) v with Some d => [d] | None => [] end) (du_variants u).

(* variant name -> members of the enum its discriminator property is typed with (absent = plain str) *)
Definition ptab := list (str * list str).

Definition process (tab : ptab) (u : dunion) : ptab :=
  match collected u with
  | [] => tab                                          (* "No enum values collected ... Skipping." *)
  | vals => fold_left (fun t v => aset t v vals) (du_variants u) tab
  end.

Definition collect (us : list dunion) : ptab := fold_left process us [].

(* structuring the variant's discriminator field: Enum(value) / str(value) *)
Definition accepts (tab : ptab) (V d : str) : bool :=
  match alookup V tab with Some vals => mem_str d vals | None => true end.

(* the property: a payload that a union's own mapping sends to variant V is not rejected by V's
   discriminator field *)
Definition mapped_ok (tab : ptab) (u : dunion) : bool :=
  forallb (fun dv => negb (mem_str (snd dv) (du_variants u)) || accepts tab (snd dv) (fst dv)) (du_mapping u).
Definition spec_collect (us : list dunion) : Prop :=
  forall u d V, In u us -> In (d, V) (du_mapping u) -> In V (du_variants u) -> accepts (collect us) V d = true.

(* guards *)
Fixpoint nodup_str (l : list str) : bool :=
  match l with [] => true | x :: r => negb (mem_str x r) && nodup_str r end.
(* F14g: no variant belongs to two discriminated unions *)
Definition guard_F14g (us : list dunion) : bool := nodup_str (flat_map du_variants us).
(* F14h: no variant is the target of two discriminator values *)
Definition guard_F14h (us : list dunion) : bool := forallb (fun u => nodup_str (map snd (du_mapping u))) us.

(* ------------------------------------------------------------------------------------- *)
(* _resolve_one_of / _resolve_any_of: the resolved type strings of the sub-schemas, in spec order;
   one member -> that member; else dict.fromkeys de-dup (first occurrence kept) and "Union[...]" *)
Fixpoint dedup (l : list str) : list str :=
  match l with
  | [] => []
  | x :: r => x :: filter (fun y => negb (str_eqb y x)) (dedup r)
  end.
Definition s_Union_open : str := [85;110;105;111;110;91].   (* "Union[" *)
Definition resolve_union (members : list str) : str :=
  match members with
  | [m] => m
  | _ => s_Union_open ++ join [44;32] (dedup members) ++ [93]
  end.

(* the alias / annotation text: a nullable union (nullable: true, or a {"type": "null"} member, which the
   parser removes from the member list) gets " | None" appended *)
Definition s_or_None : str := [32;124;32;78;111;110;101].
Definition alias_type (members : list str) (nullable : bool) : str :=
  resolve_union members ++ (if nullable then s_or_None else []).

(* ---- the collector when variants DECLARE an enum on their discriminator property ([own]: variant -> values).
   "Check for inline enum values first": a variant whose property still is its own enum contributes all its values;
   once a union has re-typed the property (the variant is in [tab]) the inline enum is gone and the value comes from
   the reverse mapping, as above.  [collect_o [] = collect] (Proofs.UnionGen.collect_o_nil). *)
Definition collected_o (own tab : ptab) (u : dunion) : list str :=
  flat_map (fun v => match (match alookup v tab with Some _ => None | None => alookup v own end) with
                     | Some vals => vals
                     | None => match rev_value (du_mapping u) v with Some d => [d] | None => [] end
                     end) (du_variants u).
Definition process_o (own tab : ptab) (u : dunion) : ptab :=
  match collected_o own tab u with
  | [] => tab
  | vals => fold_left (fun t v => aset t v vals) (du_variants u) tab
  end.
Definition collect_o (own : ptab) (us : list dunion) : ptab := fold_left (process_o own) us [].
(* members of the enum finally typing V's discriminator property: the unified one, else its own, else plain str *)
Definition final_enum (own : ptab) (us : list dunion) (V : str) : option (list str) :=
  match alookup V (collect_o own us) with Some x => Some x | None => alookup V own end.
