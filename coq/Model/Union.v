(* C14 — model of core/cattrs_converter.py::_structure_union (and of the part of cattrs'
   structuring it delegates to), transcribed branch for branch, defects included.
   Self-contained: own JSON, own type language, own [structure]/[unstructure].
   No proofs in this file. *)
From PG Require Import Lib.Strs.
From Coq Require Import ZArith.

(* ------------------------------------------------------------------------------------- *)
(* JSON payloads (what json.loads hands to structure_from_dict). No floats.               *)
Inductive json :=
| JNull | JBool (b : bool) | JInt (z : Z) | JStr (s : str)
| JArr (l : list json) | JObj (kv : list (str * json)).

(* structured Python values *)
Inductive value :=
| VNone | VBool (b : bool) | VInt (z : Z) | VStr (s : str)
| VList (l : list value)
| VDict (kv : list (str * value))              (* a plain dict: dict[str,T] or a raw payload *)
| VObj (cls : str) (fs : list (str * value)).  (* a dataclass instance, fields in class order *)

(* Python types as the generator writes them into a Union[...] *)
Inductive ty :=
| TNone                                   (* type(None) *)
| TAny | TStr | TInt | TBool
| TList (e : ty)                          (* list[e] *)
| TMap (e : ty)                           (* dict[str, e];  dict[str, Any] = TMap TAny *)
| TObj (name : str) (fs : list (str * (ty * bool)))   (* dataclass; bool = required (no default); default = None *)
| TUnion (d : option (str * list (str * ty))) (vs : list ty).
   (* Union[vs]; d = Some (property_name, get_mapping()) when wrapped in Annotated[..., <Alias>Discriminator()];
      get_mapping() returning None and returning {} are the same to the code: mapping = [] *)

Inductive res (A : Type) := Ok (a : A) | Err.
Arguments Ok {A} a. Arguments Err {A}.

(* ------------------------------------------------------------------------------------- *)
(* Python's str(), repr(), bool(), int() on JSON-born values                               *)
Fixpoint digits_fuel (f : nat) (n : N) (acc : str) : str :=
  match f with
  | O => acc
  | S f' => let acc' := (48 + n mod 10) :: acc in
            if n / 10 =? 0 then acc' else digits_fuel f' (n / 10) acc'
  end.
Definition dec_of_N (n : N) : str := digits_fuel (S (N.size_nat n)) n [].
Definition dec_of_Z (z : Z) : str :=
  match z with
  | Z0 => [48]
  | Zpos p => dec_of_N (Npos p)
  | Zneg p => 45 :: dec_of_N (Npos p)
  end.

Definition hex_digit (n : N) : N := if n <? 10 then 48 + n else 87 + n.
(* repr of one code point inside a quoted string with quote character q.  Exact for ASCII;
   non-ASCII is treated as printable (kept) — see manifest note. *)
Definition repr_char (q : N) (c : N) : str :=
  if c =? 92 then [92; 92]
  else if c =? q then [92; q]
  else if c =? 10 then [92; 110]
  else if c =? 13 then [92; 114]
  else if c =? 9 then [92; 116]
  else if (c <? 32) || (c =? 127) then [92; 120; hex_digit (c / 16); hex_digit (c mod 16)]
  else [c].
Definition has_char (c : N) (s : str) : bool := existsb (N.eqb c) s.
Definition repr_str (s : str) : str :=
  let q := if has_char 39 s && negb (has_char 34 s) then 34 else 39 in
  q :: flat_map (repr_char q) s ++ [q].

Definition s_None : str := [78;111;110;101].
Definition s_True : str := [84;114;117;101].
Definition s_False : str := [70;97;108;115;101].
Definition comma_sp : str := [44;32].
Definition colon_sp : str := [58;32].

Fixpoint py_repr (j : json) : str :=
  match j with
  | JNull => s_None
  | JBool b => if b then s_True else s_False
  | JInt z => dec_of_Z z
  | JStr s => repr_str s
  | JArr l => [91] ++ join comma_sp (map py_repr l) ++ [93]
  | JObj kv => [123] ++ join comma_sp
                 ((fix go (kv : list (str * json)) : list str :=
                     match kv with
                     | [] => []
                     | (k, v) :: r => (repr_str k ++ colon_sp ++ py_repr v) :: go r
                     end) kv) ++ [125]
  end.
Definition py_str (j : json) : str := match j with JStr s => s | _ => py_repr j end.

Definition truthy (j : json) : bool :=
  match j with
  | JNull => false
  | JBool b => b
  | JInt z => negb (Z.eqb z 0)
  | JStr s => match s with [] => false | _ => true end
  | JArr l => match l with [] => false | _ => true end
  | JObj kv => match kv with [] => false | _ => true end
  end.

(* int(s): ASCII whitespace stripped, optional sign, decimal digits, single '_' between digits.
   (Non-ASCII digits/whitespace that CPython also accepts are outside the model — manifest.) *)
Definition is_ws (c : N) : bool := ((9 <=? c) && (c <=? 13)) || ((28 <=? c) && (c <=? 32)).
Fixpoint lstrip (s : str) : str :=
  match s with
  | c :: r => if is_ws c then lstrip r else s
  | [] => []
  end.
Definition strip (s : str) : str := rev (lstrip (rev (lstrip s))).
Fixpoint parse_digs (s : str) (acc : N) (prev_digit : bool) : option N :=
  match s with
  | [] => if prev_digit then Some acc else None
  | c :: r =>
      if is_digit c then parse_digs r (acc * 10 + (c - 48)) true
      else if (c =? 95) && prev_digit then parse_digs r acc false
      else None
  end.
Definition parse_int (s : str) : option Z :=
  match strip s with
  | 45 :: r => match parse_digs r 0 false with Some n => Some (- Z.of_N n)%Z | None => None end
  | 43 :: r => match parse_digs r 0 false with Some n => Some (Z.of_N n) | None => None end
  | r => match parse_digs r 0 false with Some n => Some (Z.of_N n) | None => None end
  end.

(* ------------------------------------------------------------------------------------- *)
Fixpoint raw (j : json) : value :=
  match j with
  | JNull => VNone | JBool b => VBool b | JInt z => VInt z | JStr s => VStr s
  | JArr l => VList (map raw l)
  | JObj kv => VDict ((fix go (kv : list (str * json)) : list (str * value) :=
                         match kv with [] => [] | (k, v) :: r => (k, raw v) :: go r end) kv)
  end.

(* converter.unstructure: dataclass -> dict of ALL its fields (class order); containers recursively *)
Fixpoint unstructure (v : value) : json :=
  match v with
  | VNone => JNull | VBool b => JBool b | VInt z => JInt z | VStr s => JStr s
  | VList l => JArr (map unstructure l)
  | VDict kv => JObj ((fix go (kv : list (str * value)) : list (str * json) :=
                         match kv with [] => [] | (k, v) :: r => (k, unstructure v) :: go r end) kv)
  | VObj _ fs => JObj ((fix go (kv : list (str * value)) : list (str * json) :=
                         match kv with [] => [] | (k, v) :: r => (k, unstructure v) :: go r end) fs)
  end.

Fixpoint json_eqb (a b : json) {struct a} : bool :=
  match a, b with
  | JNull, JNull => true
  | JBool x, JBool y => Bool.eqb x y
  | JInt x, JInt y => Z.eqb x y
  | JStr x, JStr y => str_eqb x y
  | JArr x, JArr y =>
      (fix go (x y : list json) : bool :=
         match x, y with
         | [], [] => true
         | a :: x', b :: y' => json_eqb a b && go x' y'
         | _, _ => false
         end) x y
  | JObj x, JObj y =>
      (fix go (x y : list (str * json)) : bool :=
         match x, y with
         | [], [] => true
         | (k, a) :: x', (k', b) :: y' => str_eqb k k' && json_eqb a b && go x' y'
         | _, _ => false
         end) x y
  | _, _ => false
  end.

(* iteration of a JSON-born value as cattrs' list hook sees it: list -> items, str -> 1-char
   strings, dict -> keys; None / bool / int are not iterable *)
Definition iter_items (j : json) : option (list json) :=
  match j with
  | JArr l => Some l
  | JStr s => Some (map (fun c => JStr [c]) s)
  | JObj kv => Some (map (fun p => JStr (fst p)) kv)
  | _ => None
  end.

(* what the generated dataclass structure function sees for field [k] of the incoming object [j]
   (make_dict_structure_fn: required -> o[k]; defaulted -> if k in o: o[k]) *)
Inductive flook := FFound (v : json) | FAbsent | FBad.
Definition field_lookup (j : json) (k : str) (req : bool) : flook :=
  match j with
  | JObj kv => match alookup k kv with Some v => FFound v | None => if req then FBad else FAbsent end
  | JStr s => if req then FBad else if containsb k s then FBad else FAbsent     (* 'k' in "text"; "text"['k'] raises *)
  | JArr l => if req then FBad else if existsb (json_eqb (JStr k)) l then FBad else FAbsent
  | _ => FBad     (* None: the hook raises; int/bool: not subscriptable / not iterable *)
  end.

Definition is_none (t : ty) : bool := match t with TNone => true | _ => false end.
Definition is_dc (t : ty) : bool := match t with TObj _ _ => true | _ => false end.
Definition is_any_map (t : ty) : bool := match t with TMap TAny => true | _ => false end.
Definition is_other (t : ty) : bool := negb (is_none t) && negb (is_dc t) && negb (is_any_map t).
(* get_origin(variant) is dict among the "other" variants: dict[str, T] with T <> Any *)
Definition is_tmap (t : ty) : bool := match t with TMap TAny => false | TMap _ => true | _ => false end.

Section Combinators.
  Variable S : ty -> json -> res value.

  Fixpoint map_res (f : json -> res value) (l : list json) : res (list value) :=
    match l with
    | [] => Ok []
    | x :: r => match f x, map_res f r with
                | Ok v, Ok vs => Ok (v :: vs)
                | _, _ => Err
                end
    end.

  Fixpoint map_res_kv (f : json -> res value) (kv : list (str * json)) : res (list (str * value)) :=
    match kv with
    | [] => Ok []
    | (k, x) :: r => match f x, map_res_kv f r with
                     | Ok v, Ok vs => Ok ((k, v) :: vs)
                     | _, _ => Err
                     end
    end.

  Fixpoint structure_fields (fs : list (str * (ty * bool))) (j : json) : res (list (str * value)) :=
    match fs with
    | [] => Ok []
    | (k, (ft, req)) :: r =>
        match field_lookup j k req with
        | FBad => Err
        | FAbsent => match structure_fields r j with Ok vs => Ok ((k, VNone) :: vs) | Err => Err end
        | FFound x => match S ft x, structure_fields r j with
                      | Ok v, Ok vs => Ok ((k, v) :: vs)
                      | _, _ => Err
                      end
        end
    end.

  (* "for variant in <variants satisfying f>: try: return structure(data, variant) except: continue" *)
  Fixpoint try_each (f : ty -> bool) (vs : list ty) (j : json) : option value :=
    match vs with
    | [] => None
    | v :: r => if f v then match S v j with Ok x => Some x | Err => try_each f r j end
                else try_each f r j
    end.

  (* mapping[discriminator_value] then converter.structure(data, variant); None = value not in mapping *)
  Fixpoint apply_map (m : list (str * ty)) (d : str) (j : json) : option (res value) :=
    match m with
    | [] => None
    | (d', V) :: r => if str_eqb d d' then Some (S V j) else apply_map r d j
    end.

  (* lines 417-456: Some r = the discriminator branch decided (returned or raised); None = fall through *)
  Definition by_discriminator (d : option (str * list (str * ty))) (j : json) : option (res value) :=
    match d with
    | None => None
    | Some (p, m) =>
        match j with
        | JObj kv =>
            match alookup p kv with
            | None => None                                   (* property absent: fall through *)
            | Some dv =>
                match m with
                | [] => None                                 (* no mapping: fall through (F14d) *)
                | _ =>
                    match dv with
                    | JStr s => match apply_map m s j with
                                | Some r => Some r           (* Ok, or ValueError with NO retry *)
                                | None => Some Err           (* unknown discriminator value *)
                                end
                    | _ => Some Err                          (* non-str: not in mapping / unhashable *)
                    end
                end
            end
        | _ => None
        end
    end.

  (* lines 458-538 *)
  Definition sequential (vs : list ty) (j : json) : res value :=
    let others := match try_each is_other vs j with Some v => Ok v | None => Err end in
    match j with
    | JObj _ =>
        match try_each is_dc vs j with
        | Some v => Ok v
        | None => if existsb is_any_map vs then Ok (raw j)
                  else if existsb is_dc vs
                       then (* "if errors:" typed dict variants are tried, then ValueError *)
                            match try_each is_tmap vs j with Some v => Ok v | None => Err end
                  else others
        end
    | _ => others
    end.

  Definition union_body (d : option (str * list (str * ty))) (vs : list ty) (j : json) : res value :=
    match j with
    | JNull => if existsb is_none vs then Ok VNone else Err
    | _ => match by_discriminator d j with
           | Some r => r
           | None => sequential vs j
           end
    end.
End Combinators.

Fixpoint structure (t : ty) (j : json) {struct t} : res value :=
  match t with
  | TNone => Err                                    (* cattrs: Unsupported type NoneType *)
  | TAny => Ok (raw j)
  | TStr => Ok (VStr (py_str j))
  | TInt => match j with
            | JInt z => Ok (VInt z)
            | JBool b => Ok (VInt (if b then 1 else 0)%Z)
            | JStr s => match parse_int s with Some z => Ok (VInt z) | None => Err end
            | _ => Err
            end
  | TBool => Ok (VBool (truthy j))
  | TList e => match iter_items j with
               | Some l => match map_res (structure e) l with Ok vs => Ok (VList vs) | Err => Err end
               | None => Err
               end
  | TMap e => match j with
              | JObj kv => match map_res_kv (structure e) kv with Ok vs => Ok (VDict vs) | Err => Err end
              | _ => Err
              end
  | TObj n fs => match j with
                 | JNull => Err
                 | _ => match structure_fields structure fs j with
                        | Ok vs => Ok (VObj n vs)
                        | Err => Err
                        end
                 end
  | TUnion d vs => union_body structure d vs j
  end.

Definition structure_union (d : option (str * list (str * ty))) (vs : list ty) (j : json) : res value :=
  structure (TUnion d vs) j.

(* ------------------------------------------------------------------------------------- *)
(* The property's own vocabulary.                                                         *)
Definition is_null (j : json) : bool := match j with JNull => true | _ => false end.
Definition has_key {V} (k : str) (kv : list (str * V)) : bool :=
  match alookup k kv with Some _ => true | None => false end.
Fixpoint nodup_keys {V} (kv : list (str * V)) : bool :=
  match kv with
  | [] => true
  | (k, _) :: r => negb (has_key k r) && nodup_keys r
  end.

(* what json.loads can produce: no duplicate keys, hereditarily *)
Fixpoint wf_json (j : json) : bool :=
  match j with
  | JArr l => forallb wf_json l
  | JObj kv => nodup_keys kv &&
               (fix go (kv : list (str * json)) : bool :=
                  match kv with [] => true | (_, v) :: r => wf_json v && go r end) kv
  | _ => true
  end.

(* [approx re j]: the re-encoding [re] carries the payload [j]: every key of every object of the
   payload is present with the same (recursively) value, arrays agree item by item, scalars are
   identical (bool is not int); the re-encoding may only ADD null-valued keys (defaults). *)
Fixpoint approx (re j : json) {struct j} : bool :=
  match j, re with
  | JArr l, JArr l' =>
      (fix go (l l' : list json) : bool :=
         match l, l' with
         | [], [] => true
         | x :: r, x' :: r' => approx x' x && go r r'
         | _, _ => false
         end) l l'
  | JObj kv, JObj kv' =>
      (fix go (kv : list (str * json)) : bool :=
         match kv with
         | [] => true
         | (k, v) :: r => match alookup k kv' with Some v' => approx v' v | None => false end && go r
         end) kv
      && forallb (fun p => has_key (fst p) kv || is_null (snd p)) kv'
  | JArr _, _ => false
  | JObj _, _ => false
  | _, _ => json_eqb j re
  end.

(* [conforms t j]: payload j is an instance of (closed-object) schema t *)
Fixpoint conforms (t : ty) (j : json) {struct t} : bool :=
  match t with
  | TNone => is_null j
  | TAny => wf_json j
  | TStr => match j with JStr _ => true | _ => false end
  | TInt => match j with JInt _ => true | _ => false end
  | TBool => match j with JBool _ => true | _ => false end
  | TList e => match j with JArr l => forallb (conforms e) l | _ => false end
  | TMap e => match j with
              | JObj kv => nodup_keys kv && forallb (fun p => conforms e (snd p)) kv
              | _ => false
              end
  | TObj _ fs =>
      match j with
      | JObj kv =>
          nodup_keys kv && forallb (fun p => has_key (fst p) fs) kv &&
          (fix go (fs : list (str * (ty * bool))) : bool :=
             match fs with
             | [] => true
             | (k, (ft, req)) :: r =>
                 match alookup k kv with Some v => conforms ft v | None => negb req end && go r
             end) fs
      | _ => false
      end
  | TUnion _ vs =>
      (fix go (vs : list ty) : bool :=
         match vs with [] => false | v :: r => conforms v j || go r end) vs
  end.

(* ------------------------------------------------------------------------------------- *)
(* Executable separation guard of C14_lossless_partial.                                   *)

(* syntactic over-approximation of "structure v j can succeed" (shape level only) *)
Definition required_present (fs : list (str * (ty * bool))) (kv : list (str * json)) : bool :=
  forallb (fun f => negb (snd (snd f)) || has_key (fst f) kv) fs.
Definition may_accept (v : ty) (j : json) : bool :=
  match v with
  | TNone => false
  | TAny | TStr | TBool => true
  | TInt => match j with
            | JInt _ | JBool _ => true
            | JStr s => match parse_int s with Some _ => true | None => false end    (* exact: int(s) *)
            | _ => false
            end
  | TList _ => match j with JArr _ | JStr _ | JObj _ => true | _ => false end
  | TMap _ => match j with JObj _ => true | _ => false end
  | TObj _ fs => match j with
                 | JObj kv => required_present fs kv
                 | _ => true      (* never consulted: dataclass variants are only tried on dict payloads *)
                 end
  | TUnion _ _ => true
  end.

Section Safe.
  Variable SF : ty -> json -> bool.
  (* the first variant of the category that may accept j at all must be one j safely conforms to *)
  Fixpoint first_safe (f : ty -> bool) (vs : list ty) (j : json) : bool :=
    match vs with
    | [] => false
    | v :: r => if f v then (if may_accept v j then SF v j else first_safe f r j)
                else first_safe f r j
    end.
  Fixpoint fields_safe (fs : list (str * (ty * bool))) (kv : list (str * json)) : bool :=
    match fs with
    | [] => true
    | (k, (ft, req)) :: r =>
        match alookup k kv with Some v => SF ft v | None => negb req end && fields_safe r kv
    end.
  Fixpoint map_safe (m : list (str * ty)) (d : str) (j : json) : bool :=
    match m with
    | [] => false
    | (d', V) :: r => if str_eqb d d' then SF V j else map_safe r d j
    end.
  Definition seq_safe (vs : list ty) (j : json) : bool :=
    match j with
    | JObj kv =>
        if existsb (fun v => is_dc v && may_accept v j) vs then first_safe is_dc vs j
        else if existsb is_any_map vs then wf_json j
        else if existsb is_dc vs then first_safe is_tmap vs j
        else first_safe is_other vs j
    | _ => first_safe is_other vs j
    end.
  Definition union_safe (d : option (str * list (str * ty))) (vs : list ty) (j : json) : bool :=
    match j with
    | JNull => existsb is_none vs
    | _ =>
        match d, j with
        | Some (p, m), JObj kv =>
            match alookup p kv, m with
            | Some (JStr s), _ :: _ => map_safe m s j
            | Some _, _ :: _ => false
            | _, _ => seq_safe vs j
            end
        | _, _ => seq_safe vs j
        end
    end.
End Safe.

Fixpoint safe (t : ty) (j : json) {struct t} : bool :=
  match t with
  | TNone => false
  | TAny => wf_json j
  | TStr => match j with JStr _ => true | _ => false end
  | TInt => match j with JInt _ => true | _ => false end
  | TBool => match j with JBool _ => true | _ => false end
  | TList e => match j with JArr l => forallb (safe e) l | _ => false end
  | TMap e => match j with
              | JObj kv => nodup_keys kv && forallb (fun p => safe e (snd p)) kv
              | _ => false
              end
  | TObj _ fs =>
      match j with
      | JObj kv => nodup_keys kv && nodup_keys fs && forallb (fun p => has_key (fst p) fs) kv
                   && fields_safe safe fs kv
      | _ => false
      end
  | TUnion d vs => union_safe safe d vs j
  end.

(* ---- finding classes: which defect explains an unsafe union node (bits of Corr.C14.run) ---- *)
Record blame := { b_a : bool; b_b : bool; b_d : bool }.
Definition no_blame := {| b_a := false; b_b := false; b_d := false |}.
Definition blame_or (x y : blame) : blame :=
  {| b_a := b_a x || b_a y; b_b := b_b x || b_b y; b_d := b_d x || b_d y |}.

Definition node_blame (d : option (str * list (str * ty))) (vs : list ty) (j : json) : blame :=
  let unmapped_disc :=
    match d, j with
    | Some (p, []), JObj kv => has_key p kv
    | _, _ => false
    end in
  match j with
  | JObj kv =>
      let dc_takes := existsb (fun v => is_dc v && may_accept v j) vs in
      {| b_a := dc_takes;
         b_b := negb dc_takes && negb (existsb is_any_map vs);
         b_d := unmapped_disc |}
  | _ => {| b_a := false; b_b := true; b_d := false |}
  end.

(* walk type and payload together; blame every union node that is not safe for its sub-payload *)
Fixpoint blame_of (t : ty) (j : json) {struct t} : blame :=
  match t with
  | TList e => match j with
               | JArr l => fold_right (fun x acc => blame_or (blame_of e x) acc) no_blame l
               | _ => no_blame
               end
  | TMap e => match j with
              | JObj kv => fold_right (fun p acc => blame_or (blame_of e (snd p)) acc) no_blame kv
              | _ => no_blame
              end
  | TObj _ fs =>
      match j with
      | JObj kv =>
          (fix go (fs : list (str * (ty * bool))) : blame :=
             match fs with
             | [] => no_blame
             | (k, (ft, _)) :: r =>
                 blame_or (match alookup k kv with Some v => blame_of ft v | None => no_blame end) (go r)
             end) fs
      | _ => no_blame
      end
  | TUnion d vs =>
      blame_or (if union_safe safe d vs j then no_blame else node_blame d vs j)
        ((fix go (vs : list ty) : blame :=
            match vs with [] => no_blame | v :: r => blame_or (blame_of v j) (go r) end) vs)
  | _ => no_blame
  end.
