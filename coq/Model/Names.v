(* C20 — model of name derivation: core/utils.py NameSanitizer.*, visit/model/enum_generator.py member
   naming, core/writers/python_construct_renderer.py _to_module_name.

   Python [str] = list of code points.  The regex pipelines are written as direct tokenisers /
   scanners; their equivalence with Python's [re] is what the correspondence run (Corr/C20.v) checks.
   Everything ASCII is exact Gallina.  What CPython decides with its Unicode database for NON-ASCII
   code points ([\w], str.lower/upper/title full mappings, str.isdigit, the Cased / Case_Ignorable
   properties used by the final-sigma rule of str.lower) is a Section variable; in the correspondence
   run the variables are instantiated by finite tables produced by Python's own str methods.

   Open defects are transcribed as they are (F20d digit-leading tag names, F20h non-identifier word characters);
   guards at the end.
   No proofs in this file. *)
From PG Require Import Lib.Strs Gen.Tables Gen.T_C20.

(* ---------- small string helpers ---------- *)
Fixpoint span (p : N -> bool) (s : str) : str * str :=
  match s with
  | [] => ([], [])
  | c :: r => if p c then let (a, b) := span p r in (c :: a, b) else ([], s)
  end.

Fixpoint dropwhile (p : N -> bool) (s : str) : str :=
  match s with
  | [] => []
  | c :: r => if p c then dropwhile p r else s
  end.

Definition is_us (c : N) : bool := c =? 95.
Definition nonempty (s : str) : bool := match s with [] => false | _ => true end.

(* str.strip("_") *)
Definition strip_us (s : str) : str := rev (dropwhile is_us (rev (dropwhile is_us s))).

(* decimal rendering of a non-negative integer: str(n) *)
Fixpoint uint_chars (u : Decimal.uint) : str :=
  match u with
  | Decimal.Nil => []
  | Decimal.D0 u => 48 :: uint_chars u | Decimal.D1 u => 49 :: uint_chars u
  | Decimal.D2 u => 50 :: uint_chars u | Decimal.D3 u => 51 :: uint_chars u
  | Decimal.D4 u => 52 :: uint_chars u | Decimal.D5 u => 53 :: uint_chars u
  | Decimal.D6 u => 54 :: uint_chars u | Decimal.D7 u => 55 :: uint_chars u
  | Decimal.D8 u => 56 :: uint_chars u | Decimal.D9 u => 57 :: uint_chars u
  end.
Definition dec (n : N) : str := uint_chars (N.to_uint n).

Definition is_kw (s : str) : bool := mem_str s keywords.          (* keyword.iskeyword *)
Definition is_reserved (s : str) : bool := mem_str s reserved_names. (* in NameSanitizer.RESERVED_NAMES *)

(* the property's predicate: ASCII identifier that is not a keyword *)
Definition valid_name (s : str) : bool := is_ident s && negb (is_kw s).

(* ---------- the camel-case tokeniser ----------
   re.findall(r"[A-Z]+(?=[A-Z][a-z])|[A-Z]?[a-z]+|[A-Z]+|[0-9]+", name)
   At an upper-case run of length n followed by a lower-case letter: n >= 2 -> alternative 1 takes n-1
   letters (greedy, one step of backtracking); n = 1 -> alternative 2 takes the letter and the lower run.
   An upper run not followed by a lower-case letter is taken whole (alternative 3).
   The classes are explicit ASCII ranges, so every non-ASCII code point is a separator. *)
Fixpoint tokens_fuel (fuel : nat) (s : str) : list str :=
  match fuel with
  | O => []
  | S f =>
    match s with
    | [] => []
    | c :: r =>
      if is_upper c then
        let (us, rest) := span is_upper s in
        match rest with
        | l :: _ =>
          if is_lower l then
            match us with
            | [] => []                                   (* impossible: c is upper *)
            | [u] => let (ls, rest') := span is_lower rest in (u :: ls) :: tokens_fuel f rest'
            | _ => removelast us :: tokens_fuel f (last us 0 :: rest)
            end
          else us :: tokens_fuel f rest
        | [] => [us]
        end
      else if is_lower c then
        let (ls, rest) := span is_lower s in ls :: tokens_fuel f rest
      else if is_digit c then
        let (ds, rest) := span is_digit s in ds :: tokens_fuel f rest
      else tokens_fuel f r
    end
  end.
Definition tokens (s : str) : list str := tokens_fuel (S (length s)) s.

(* re.split(<class>+, s) : pieces between maximal separator runs, empty pieces at the ends kept *)
Fixpoint split_go (sep : N -> bool) (cur : str) (insep : bool) (s : str) : list str :=
  match s with
  | [] => [rev cur]
  | c :: r =>
    if sep c then (if insep then split_go sep cur true r else rev cur :: split_go sep [] true r)
    else split_go sep (c :: cur) false r
  end.
Definition split_on (sep : N -> bool) (s : str) : list str := split_go sep [] false s.

(* str.capitalize() on an ASCII word *)
Definition cap_ascii (w : str) : str :=
  match w with [] => [] | c :: r => upper_ascii c :: map lower_ascii r end.

Definition starts_digit (s : str) : bool := match s with c :: _ => is_digit c | [] => false end.

(* ---------- sanitize_class_name ---------- *)
Definition class_core (s : str) : str :=
  let words := match tokens s with
               | [] => filter nonempty (split_on (fun c => negb (is_alnum c)) s)
               | ws => ws
               end in
  concat (map cap_ascii (filter nonempty words)).

(* the suffix test: keyword as it is ("None"), keyword / reserved name when lower-cased, or one of the typing names
   the generated modules use unqualified (class_exact_names = ("Protocol", "Union"), F01k) *)
Definition class_flag (c2 : str) : bool :=
  let low := map lower_ascii c2 in
  is_kw c2 || is_kw low || is_reserved low || mem_str c2 class_exact_names.
Definition class_name (s : str) : str :=
  let c0 := class_core s in
  let c1 := match c0 with [] => s_unnamed_class | _ => c0 end in
  let c2 := if starts_digit c1 then 95 :: c1 else c1 in
  if class_flag c2 then c2 ++ [95] else c2.

(* ---------- IRSchema.__post_init__ (ir.py): the name stored in an IRSchema ----------
   Before the F20k fix: always sanitize_class_name(name).  With it (post_init_keeps_output, read from the source by
   the translator): a name that fully matches _?(?:[A-Z][a-z]*|[0-9]+)+_? (the shape of sanitiser output) and that
   a second sanitisation would only re-case is kept. *)
Fixpoint groups_ok (after_letter : bool) (s : str) : bool :=   (* (?:[A-Z][a-z]*|[0-9]+)* from a group boundary *)
  match s with
  | [] => true
  | c :: r => if is_upper c then groups_ok true r
              else if is_lower c then after_letter && groups_ok true r
              else if is_digit c then groups_ok false r
              else false
  end.
Definition output_shape (s : str) : bool :=
  let s1 := match s with c :: r => if c =? 95 then r else s | [] => s end in
  let s2 := match rev s1 with c :: r => if c =? 95 then rev r else s1 | [] => s1 end in
  nonempty s2 && groups_ok false s2.
Definition ir_name (name : str) : str :=
  let sanitized := class_name name in
  if post_init_keeps_output && output_shape name && str_eqb (map lower_ascii sanitized) (map lower_ascii name)
  then name else sanitized.

(* ---------- sanitize_method_name ---------- *)
Definition is_brace (c : N) : bool := (c =? 123) || (c =? 125).
Definition is_lower_or_digit (c : N) : bool := is_lower c || is_digit c.

(* re.sub(r"([a-z0-9])([A-Z])", r"\1_\2", s): the second char of a match is upper-case, hence never the
   first char of another match, so non-overlap is immaterial *)
Fixpoint camel1 (s : str) : str :=
  match s with
  | a :: ((b :: _) as r) => if is_lower_or_digit a && is_upper b then a :: 95 :: camel1 r else a :: camel1 r
  | _ => s
  end.

(* re.sub(r"([A-Z]+)([A-Z][a-z])", r"\1_\2", s): "_" goes before an upper-case letter that is preceded by
   an upper-case letter and followed by a lower-case letter *)
Fixpoint camel2 (s : str) : str :=
  match s with
  | a :: ((b :: c :: _) as r) =>
      if is_upper a && is_upper b && is_lower c then a :: 95 :: camel2 r else a :: camel2 r
  | _ => s
  end.

(* re.sub(r"_+", "_", s).strip("_") as one scan: runs of underscores become one "_" between two other
   characters and disappear at both ends.  [started] = a non-underscore character has been emitted,
   [pending] = underscores were seen since then. *)
Fixpoint norm_go (started pending : bool) (s : str) : str :=
  match s with
  | [] => []
  | c :: r => if is_us c then norm_go started started r
              else (if pending then [95] else []) ++ c :: norm_go true false r
  end.
Definition norm_us (s : str) : str := norm_go false false s.

Definition method_s3 (s : str) : str :=
  map (fun c => if is_ident_char c then c else 95)
      (camel2 (camel1 (filter (fun c => negb (is_brace c)) s))).
Definition method_core (s : str) : str := map lower_ascii (norm_us (method_s3 s)).

Definition finish_snake (m : str) : str :=
  let m1 := if starts_digit m then 95 :: m else m in
  if is_kw m1 || is_reserved m1 then m1 ++ [95] else m1.

(* `if not name: name = "unnamed"` — the empty-name fallback shared by the snake-case sanitisers *)
Definition or_unnamed (m : str) : str := match m with [] => s_unnamed | _ => m end.
Definition method_name (s : str) : str := finish_snake (or_unnamed (method_core s)).

(* ---------- is_valid_python_identifier ----------
   non-empty, not a keyword, re.fullmatch(r"[a-zA-Z_][a-zA-Z0-9_]*", name) *)
Definition is_valid_python_identifier (s : str) : bool :=
  nonempty s && negb (is_kw s) && is_ident s.

(* ---------- _to_module_name (python_construct_renderer.py) ----------
   s1 = re.sub("(.)([A-Z][a-z]+)", r"\1_\2", name); s2 = re.sub("([a-z0-9])([A-Z])", r"\1_\2", s1); s2.lower()
   "." does not match "\n".  A match consumes the char before, the upper-case letter and its lower run. *)
Fixpoint tomod1_fuel (fuel : nat) (s : str) : str :=
  match fuel with
  | O => s
  | S f =>
    match s with
    | a :: ((b :: c :: _) as r) =>
        if negb (a =? 10) && is_upper b && is_lower c then
          let (ls, rest) := span is_lower (tl r) in
          a :: 95 :: b :: ls ++ tomod1_fuel f rest
        else a :: tomod1_fuel f r
    | _ => s
    end
  end.
Definition to_module_name_ascii (s : str) : str :=
  map lower_ascii (camel1 (tomod1_fuel (S (length s)) s)).

(* ---------- sanitize_module_name, main path (findall found at least one token) ----------
   tokens are ASCII, so word.lower() and module[0].isdigit() are the ASCII functions *)
Definition module_of_tokens (ws : list str) : str :=
  finish_snake (or_unnamed (join [95] (map (map lower_ascii) (filter nonempty ws)))).
Definition module_name_tok (s : str) : str := module_of_tokens (tokens s).

(* ---------- enum member names: the common tail of both namers ----------
   keyword suffix (on the lower-cased name), start check, final shape check (None = raise ValueError) *)
Definition is_member_char (c : N) : bool := is_upper c || is_digit c || is_us c.
Definition starts_upper_or_us (s : str) : bool :=   (* re.match(r"^[A-Z_]", s.upper()) on an ASCII name *)
  match s with c :: _ => is_upper (upper_ascii c) || is_us c | [] => false end.
Definition member_shape (s : str) : bool :=         (* re.match(r"^[A-Z_][A-Z0-9_]*$", s.upper()) *)
  is_ident (map upper_ascii s).
Definition kw_suffix_upper (n1 : str) : str := if is_kw (map lower_ascii n1) then n1 ++ [95] else n1.
Definition member_check (n3 : str) : option str := if nonempty n3 && member_shape n3 then Some n3 else None.
Definition member_tail (pre : str) (n1 : str) : option str :=
  let n2 := kw_suffix_upper n1 in
  member_check (if starts_upper_or_us n2 then n2 else pre ++ n2).
Definition member_tail_int (fb : N) (n1 : str) : option str :=
  let n2 := kw_suffix_upper n1 in
  member_check
    (if starts_upper_or_us n2 then n2
     else let n := filter is_member_char (map upper_ascii (s_enum_member_ ++ n2)) in
          match n with [] => s_enum_member_unknown_ ++ dec fb | _ => n end).

(* ================================================================= Unicode-aware functions *)
Section Oracles.
  (* behaviour of CPython's Unicode database on NON-ASCII code points (never consulted below 128) *)
  Variable u_word : N -> bool.       (* re: \w  (= str.isalnum() or "_") *)
  Variable u_lower : N -> str.       (* full lower-case mapping of one code point *)
  Variable u_upper : N -> str.       (* full upper-case mapping *)
  Variable u_title : N -> str.       (* full title-case mapping *)
  Variable u_isdigit : N -> bool.    (* str.isdigit *)
  Variable u_ign : N -> bool.        (* Case_Ignorable *)
  Variable u_cased : N -> bool.      (* Cased (only consulted on non-ignorable code points) *)

  Definition word (c : N) : bool := if is_ascii c then is_ident_char c else u_word c.
  Definition lower1 (c : N) : str := if is_ascii c then [lower_ascii c] else u_lower c.
  Definition upper1 (c : N) : str := if is_ascii c then [upper_ascii c] else u_upper c.
  Definition title1 (c : N) : str := if is_ascii c then [upper_ascii c] else u_title c.
  Definition isdigit1 (c : N) : bool := if is_ascii c then is_digit c else u_isdigit c.
  Definition ign (c : N) : bool :=
    if is_ascii c then (c =? 39) || (c =? 46) || (c =? 58) || (c =? 94) || (c =? 96) else u_ign c.
  Definition cased (c : N) : bool := if is_ascii c then is_alpha c else u_cased c.

  (* str.lower(): per code point, except GREEK CAPITAL SIGMA whose image depends on the context
     (unicodeobject.c handle_capital_sigma) *)
  Definition first_nonign_cased (l : str) : bool :=
    match dropwhile ign l with c :: _ => cased c | [] => false end.
  Fixpoint py_lower_go (prev : str) (s : str) : str :=
    match s with
    | [] => []
    | c :: r =>
        (if c =? 931
         then [if first_nonign_cased prev && negb (first_nonign_cased r) then 962 else 963]
         else lower1 c) ++ py_lower_go (c :: prev) r
    end.
  Definition py_lower (s : str) : str := py_lower_go [] s.
  Definition py_upper (s : str) : str := concat (map upper1 s).
  (* str.capitalize(): title-case of the first code point, lower() of the rest *)
  Definition py_capitalize (s : str) : str :=
    match s with [] => [] | c :: r => title1 c ++ py_lower_go [c] r end.

  (* ---------- sanitize_module_name ---------- *)
  Definition module_name (s : str) : str :=
    match tokens s with
    | [] =>
        (* fallback re.split(r"\W+", name): only underscores and non-ASCII word characters can survive *)
        let words := split_on (fun c => negb (word c)) s in
        let m := or_unnamed (join [95] (map py_lower (filter nonempty words))) in
        let m1 := match m with c :: _ => if isdigit1 c then 95 :: m else m | [] => m end in
        if is_kw m1 || is_reserved m1 then m1 ++ [95] else m1
    | ws => module_of_tokens ws
    end.

  (* ---------- sanitize_tag_class_name ---------- *)
  Definition tag_class_name (s : str) : str :=
    concat (map py_capitalize (filter nonempty (split_on (fun c => negb (word c) || is_us c) s))) ++ s_client.

  (* ---------- sanitize_tag_attr_name : re.sub(r"[\W]+", "_", tag).lower().strip("_") ---------- *)
  Fixpoint sub_nonword (insep : bool) (s : str) : str :=
    match s with
    | [] => []
    | c :: r => if word c then c :: sub_nonword false r
                else if insep then sub_nonword true r else 95 :: sub_nonword true r
    end.
  Definition tag_attr_name (s : str) : str :=
    let a := or_unnamed (strip_us (py_lower (sub_nonword false s))) in
    if is_kw a then a ++ [95] else a.

  (* ---------- normalize_tag_key : re.sub(r"[\W_]+", "", tag).lower() ---------- *)
  Definition normalize_tag_key (s : str) : str :=
    py_lower (filter (fun c => word c && negb (is_us c)) s).

  (* ---------- enum member names (enum_generator.py) ---------- *)
  (* first part of _generate_member_name_for_string_enum: the name before the keyword / start checks *)
  Definition enum_str_base (v : str) : str :=
    let base := map (fun c => if (c =? 45) || (c =? 32) then 95 else c) (py_upper v) in
    let san := filter is_member_char base in
    match san with
    | [] =>
        let alnum := filter is_alnum v in
        match alnum with
        | [] => s_member_empty
        | _ => let n := s_member_ ++ map upper_ascii alnum in
               if starts_digit n then s_member_ ++ n else n
        end
    | _ => if starts_digit san then s_member_ ++ san else san
    end.

  (* None = the function raises ValueError *)
  Definition enum_member_str (v : str) : option str := member_tail s_member_ (enum_str_base v).

  (* value rendered as str(value); [fb] = |int_value_for_fallback|, [neg] = (int_value_for_fallback < 0) *)
  Definition enum_int_base (v : str) (neg : bool) (fb : N) : str :=
    let base := concat (map (fun c => if (c =? 45) || (c =? 32) then [95]
                                      else if c =? 46 then s_dot_ else [c]) (py_upper v)) in
    let san := filter is_member_char base in
    match san with
    | [] => if neg then s_value_neg_ ++ dec fb else s_value_ ++ dec fb
    | _ => if starts_upper_or_us san then san else s_value_ ++ san
    end.
  Definition enum_member_int (v : str) (neg : bool) (fb : N) : option str :=
    member_tail_int fb (enum_int_base v neg fb).
  (* ---------- clean_auto_generated_operation_id (FastAPI ids: <handler>_<path>_<method>) ----------
     s[:-k] (k >= 1) = firstn (length s - k) s;  str.endswith on the lower-cased text, slicing on the original. *)
  Definition strip_char (ch : N) (s : str) : str :=
    rev (dropwhile (fun c => c =? ch) (rev (dropwhile (fun c => c =? ch) s))).
  Definition drop_last (k : nat) (s : str) : str := firstn (length s - k) s.
  Definition norm_path (path : str) : str :=
    map lower_ascii (norm_us (map (fun c => if is_ident_char c then c else 95)
                                  (filter (fun c => negb (is_brace c)) (strip_char 47 path)))).
  Definition clean_op_id (op_id method path : str) : str :=
    let msuf := 95 :: py_lower method in
    if negb (suffixb msuf (py_lower op_id)) then op_id
    else
      let without := drop_last (length msuf) op_id in
      match norm_path path with
      | [] => op_id
      | np =>
          let psuf := 95 :: np in
          if suffixb psuf (py_lower without)
          then match drop_last (length psuf) without with [] => op_id | prefix => prefix end
          else op_id
      end.

  (* guard F20h: no non-ASCII code point of the tag is a word character (for the tag sanitisers, which keep them) *)
  Definition no_foreign_word (s : str) : bool := forallb (fun c => is_ascii c || negb (word c)) s.
End Oracles.

(* ================================================================= guards (executable) *)
(* fixed: F20a (None/True/False), F20b/F20c (empty names), F20g (keyword tag attribute), F20i (trailing newline).
   has_alnum is kept as a helper: with an ASCII letter or digit no Unicode oracle is ever consulted. *)
Definition has_alnum (s : str) : bool := existsb is_alnum s.
(* F20d: the tag sanitisers have no digit prefix: the first ASCII letter-or-digit must not be a digit *)
Definition first_alnum_not_digit (s : str) : bool :=
  negb (starts_digit (dropwhile (fun c => negb (is_alnum c)) s)).
