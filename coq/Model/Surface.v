(* C13 — model of the two line scanners that derive a Protocol stub and a mock method from the text
   of a generated endpoint method (visit/endpoint/endpoint_visitor.py generate_endpoint_protocol,
   visit/endpoint/generators/mock_generator.py _transform_to_mock), of the signature rendering they
   scan (core/writers/code_writer.py write_function_signature; overload_generator's star-style
   signatures), and of the mock grouping of emitters/mocks_emitter.py (first tag, raw) against the
   grouping of Model/Tags.v.  Transcribed branch for branch.  No proofs in this file. *)
From PG Require Import Lib.Strs Model.Tags.

Definition line := str.

Definition k_overload : str := [64;111;118;101;114;108;111;97;100].   (* '@overload' *)
Definition k_async_def : str := [97;115;121;110;99;32;100;101;102;32].   (* 'async def ' *)
Definition k_def : str := [100;101;102;32].   (* 'def ' *)
Definition k_async : str := [97;115;121;110;99;32].   (* 'async ' *)
Definition k_lparen : str := [40].   (* '(' *)
Definition k_colon : str := [58].   (* ':' *)
Definition k_comma : str := [44].   (* ',' *)
Definition k_stub_end : str := [58;32;46;46;46].   (* ': ...' *)
Definition k_AsyncIterator : str := [65;115;121;110;99;73;116;101;114;97;116;111;114].   (* 'AsyncIterator' *)
Definition k_ret_gen : str := [41;32;45;62;32;65;115;121;110;99;73;116;101;114;97;116;111;114;91].   (* ') -> AsyncIterator[' *)
Definition k_space : str := [32].   (* ' ' *)
Definition k_close_arrow : str := [41;32;45;62;32].   (* ') -> ' *)
Definition k_self : str := [115;101;108;102].   (* 'self' *)
Definition k_q3 : str := [34;34;34].   (* '<dq><dq><dq>' *)
Definition k_doc1 : str := [77;111;99;107;32;105;109;112;108;101;109;101;110;116;97;116;105;111;110;32;116;104;97;116;32;114;97;105;115;101;115;32;78;111;116;73;109;112;108;101;109;101;110;116;101;100;69;114;114;111;114;46].   (* 'Mock implementation that raises NotImplementedError.' *)
Definition k_doc2 : str := [79;118;101;114;114;105;100;101;32;116;104;105;115;32;109;101;116;104;111;100;32;105;110;32;121;111;117;114;32;116;101;115;116;32;115;117;98;99;108;97;115;115;32;116;111;32;112;114;111;118;105;100;101].   (* 'Override this method in your test subclass to provide' *)
Definition k_doc3 : str := [116;104;101;32;98;101;104;97;118;105;111;114;32;110;101;101;100;101;100;32;102;111;114;32;121;111;117;114;32;116;101;115;116;32;115;99;101;110;97;114;105;111;46].   (* 'the behavior needed for your test scenario.' *)
Definition k_raise_pre : str := [114;97;105;115;101;32;78;111;116;73;109;112;108;101;109;101;110;116;101;100;69;114;114;111;114;40;34].   (* 'raise NotImplementedError(<dq>' *)
Definition k_raise_post : str := [40;41;32;110;111;116;32;105;109;112;108;101;109;101;110;116;101;100;46;32;79;118;101;114;114;105;100;101;32;116;104;105;115;32;109;101;116;104;111;100;32;105;110;32;121;111;117;114;32;116;101;115;116;32;115;117;98;99;108;97;115;115;46;34;41].   (* '() not implemented. Override this method in your test subclass.<dq>)' *)
Definition k_yield : str := [121;105;101;108;100;32;32;35;32;112;114;97;103;109;97;58;32;110;111;32;99;111;118;101;114].   (* 'yield  # pragma: no cover' *)
Definition k_indent : str := [32;32;32;32].   (* '    ' *)
Definition k_dots : str := [46;46;46].   (* '...' *)
Definition k_colon_sp : str := [58;32].   (* ': ' *)
Definition k_eq : str := [32;61;32].   (* ' = ' *)
Definition k_star : str := [42].   (* '*' *)


(* str.strip(): ASCII white space + NEL + NBSP (the other Unicode spaces are not modelled) *)
Definition is_ws (c : N) : bool :=
  (c =? 32) || ((9 <=? c) && (c <=? 13)) || ((28 <=? c) && (c <=? 31)) || (c =? 133) || (c =? 160).
Fixpoint lstrip (s : str) : str :=
  match s with
  | c :: r => if is_ws c then lstrip r else s
  | [] => []
  end.
Definition strip (s : str) : str := rev (lstrip (rev (lstrip s))).

(* ------------------------------------------------------------------ signatures and their text *)
Inductive kind := Coroutine | AsyncGen.
Inductive arg :=
| ASelf
| AStar                                                    (* keyword-only separator of overload-style signatures *)
| AParam (name annot : str) (default : option str).
Inductive style := Standard | StarStyle.
(* Standard  : write_function_signature — every argument line ends with a comma
   StarStyle : overload_generator — arguments joined by comma-newline-indent, the last one has no comma *)
Record sig := { s_name : str; s_args : list arg; s_ret : str; s_kind : kind; s_style : style }.

Definition render_arg (a : arg) : str :=
  match a with
  | ASelf => k_self
  | AStar => k_star
  | AParam n t d => n ++ k_colon_sp ++ t ++ match d with Some v => k_eq ++ v | None => [] end
  end.

Fixpoint arg_lines (st : style) (l : list str) : list line :=
  match l with
  | [] => []
  | [a] => [k_indent ++ a ++ match st with Standard => k_comma | StarStyle => [] end]
  | a :: r => (k_indent ++ a ++ k_comma) :: arg_lines st r
  end.

(* the lines of the signature as EndpointMethodGenerator returns them (method at indent 0,
   arguments indented one level); [term] is a colon for a definition, colon-space-dots for a stub *)
Definition render_sig_with (def_kw : str) (term : str) (s : sig) : list line :=
  (def_kw ++ s_name s ++ k_lparen)
  :: arg_lines (s_style s) (map render_arg (s_args s))
  ++ [k_close_arrow ++ s_ret s ++ term].
Definition render_sig (s : sig) : list line := render_sig_with k_async_def k_colon s.
(* an @overload block *)
Definition render_overload (s : sig) : list line := k_overload :: render_sig_with k_async_def k_stub_end s.
(* the full method text: overload blocks separated by a blank line, the signature, then any body *)
Definition render_method (ovs : list sig) (s : sig) (body : list line) : list line :=
  flat_map (fun o => render_overload o ++ [[]]) ovs ++ render_sig s ++ body.

(* ------------------------------------------------------------------ EndpointVisitor.generate_endpoint_protocol *)
Definition ends_sig (s : line) : bool := suffixb k_colon s && negb (suffixb k_comma s).

Definition proto_emit (acc : list line) : list line :=
  let lst := last acc [] in
  let init := removelast acc in
  let is_gen := containsb k_ret_gen lst in   (* ') -> AsyncIterator[' in sig_stripped (fix of F13c) *)
  let init' := match init with
               | f :: r => (if is_gen && prefixb k_async_def f then k_def ++ skipn 10 f else f) :: r
               | [] => []
               end in
  init' ++ [ (if suffixb k_colon lst then removelast lst else lst) ++ k_stub_end; [] ].

Inductive pmode := PScan | POver | PSig (acc : list line).

Fixpoint proto_go (m : pmode) (ls : list line) : list line :=
  match ls with
  | [] => []
  | l :: r =>
      let s := strip l in
      match m with
      | PScan =>
          if prefixb k_overload s then s :: proto_go POver r
          else if prefixb k_async_def s && containsb k_lparen s then
            (if ends_sig s then proto_emit [s] else proto_go (PSig [s]) r)
          else proto_go PScan r
      | POver =>
          if suffixb k_stub_end s then s :: [] :: proto_go PScan r else s :: proto_go POver r
      | PSig acc =>
          if ends_sig s then proto_emit (acc ++ [s]) else proto_go (PSig (acc ++ [s])) r
      end
  end.
Definition extract_protocol (ls : list line) : list line := proto_go PScan ls.

(* ------------------------------------------------------------------ MockGenerator._transform_to_mock *)
Fixpoint collect_sig (ls : list line) : list line * bool :=
  match ls with
  | [] => ([], false)
  | l :: r =>
      let s := strip l in
      if ends_sig s then ([s], true)
      else let (a, t) := collect_sig r in (s :: a, t)
  end.

Definition mock_body (who : str) (is_gen : bool) : list line :=
  [k_q3; k_doc1; []; k_doc2; k_doc3; k_q3; k_raise_pre ++ who ++ k_raise_post]
  ++ (if is_gen then [k_yield] else []).

Inductive mmode := MScan | MOver.
Fixpoint mock_go (who : str) (m : mmode) (ls : list line) : list line :=
  match ls with
  | [] => []
  | l :: r =>
      let s := strip l in
      match m with
      | MScan =>
          if prefixb k_overload s then s :: mock_go who MOver r
          else if (prefixb k_async_def s || prefixb k_def s) && containsb k_lparen s then
            let (sg, term) := collect_sig ls in
            let is_gen := term && containsb k_ret_gen (last sg []) in   (* the closing line only (fix of F13c) *)
            sg ++ mock_body who is_gen
          else mock_go who MScan r
      | MOver =>
          if suffixb k_stub_end s then s :: [] :: mock_go who MScan r else s :: mock_go who MOver r
      end
  end.
Definition to_mock (who : str) (ls : list line) : list line := mock_go who MScan ls.

(* ------------------------------------------------------------------ reading a signature back *)
(* what inspect sees of a def block written one argument per line: the inverse of render_sig_with *)
Record rsig := { r_async : bool; r_name : str; r_args : list str; r_ret : str; r_stub : bool }.

Definition rstrip_comma (s : str) : str := if suffixb k_comma s then removelast s else s.
Fixpoint split_at_lparen (s : str) : option (str * str) :=
  match s with
  | [] => None
  | c :: r => if c =? 40 then Some ([], r)
              else match split_at_lparen r with Some (a, b) => Some (c :: a, b) | None => None end
  end.
Fixpoint read_args (ls : list line) : option (list str * line) :=
  match ls with
  | [] => None
  | l :: r => if prefixb k_close_arrow l then Some ([], l)
              else match read_args r with Some (a, c) => Some (rstrip_comma l :: a, c) | None => None end
  end.
(* input: stripped lines of ONE def block *)
Definition read_sig (ls : list line) : option rsig :=
  match ls with
  | [] => None
  | h :: r =>
      let '(is_async, h') := if prefixb k_async_def h then (true, skipn 10 h)
                             else if prefixb k_def h then (false, skipn 4 h) else (false, []) in
      match split_at_lparen h', read_args r with
      | Some (name, []), Some (args, close) =>
          let t := skipn 5 close in
          if suffixb k_stub_end t then
            Some {| r_async := is_async; r_name := name; r_args := args;
                    r_ret := firstn (length t - 5) t; r_stub := true |}
          else if suffixb k_colon t then
            Some {| r_async := is_async; r_name := name; r_args := args;
                    r_ret := removelast t; r_stub := false |}
          else None
      | _, _ => None
      end
  end.

Definition ret_is_gen (s : sig) : bool := containsb k_AsyncIterator (s_ret s).
(* what the Protocol must declare for s: same name, arguments (text: names, order, annotations,
   defaults) and return; `async def` for a coroutine, plain `def … -> AsyncIterator[…]` for an
   async generator *)
Definition proto_view (s : sig) : rsig :=
  {| r_async := match s_kind s with Coroutine => true | AsyncGen => false end;
     r_name := s_name s; r_args := map render_arg (s_args s); r_ret := s_ret s; r_stub := true |}.
(* what the mock must define: the very signature, `async def` *)
Definition mock_view (s : sig) : rsig :=
  {| r_async := true; r_name := s_name s; r_args := map render_arg (s_args s); r_ret := s_ret s; r_stub := false |}.

(* ------------------------------------------------------------------ grouping: MocksEmitter vs EndpointsEmitter *)
Section Names.
  Variable method_name tag_key tag_attr tag_class : str -> str.
  Variable score : str -> bool * N * N.
  Variable py_ident : str -> bool.

  (* MocksEmitter._group_operations_by_tag (after the fix of F13a/F13b): for every canonical tag of
     ClientVisitor.tag_tuples(spec) — sorted by key — the operations that carry a tag with the same
     normalised key (each once, document order); the dict is keyed by the canonical tag; emit() passes
     over a tag without operations *)
  Definition ops_of_key (k : str) (l : list op) : list op :=
    filter (fun o => mem_str k (map tag_key (tags_or_default o))) l.
  Definition mock_groups (l : list op) : list (str * list op) :=
    match client_tags tag_key score l with
    | Some m => filter (fun tg => negb (is_nil (snd tg)))
                       (dict_of (map (fun kc => (snd kc, ops_of_key (tag_key (snd kc)) l)) (sort_by_key m)))
    | None => []                                   (* max() of an empty candidate list: unreachable *)
    end.

  (* mocks/endpoints/mock_<module>.py : (module, (Mock<Class>Client, method definitions)); later
     file with the same module name overwrites the earlier one *)
  Definition k_Mock : str := [77;111;99;107].
  Definition mock_files (l : list op) : list (str * (str * list str)) :=
    let e := emitted_ops method_name l in
    dict_of (map (fun tg => (tag_attr (fst tg),
                             (k_Mock ++ class_of tag_class (fst tg), map (fun o => method_name (o_id o)) (snd tg))))
                 (mock_groups e)).
  (* MockAPIClient's tag properties; None = mock_client.py does not compile/import: a repeated module
     name (duplicate argument) or a non-identifier (no tag at all: __init__ body is `pass`, fix of F01e) *)
  Definition mock_props (l : list op) : option (list str) :=
    let mods := map (fun tg => tag_attr (fst tg)) (mock_groups (emitted_ops method_name l)) in
    if negb (nodupb mods) || negb (forallb py_ident mods) then None else Some mods.
  Definition client_props (l : list op) : option (list str) :=
    match props method_name tag_key tag_attr tag_class score py_ident l with
    | Some p => Some (map fst p)
    | None => None
    end.

  (* the property's statement on groups *)
  Definition same_tags (l : list op) : Prop :=
    exists m c, mock_props l = Some m /\ client_props l = Some c /\ (forall x, In x m <-> In x c).
  Definition same_methods (l : list op) : Prop :=
    forall t g, In (t, g) (mock_groups l) -> alookup (tag_key t) (group tag_key l) = Some g.

End Names.
