(* C08 — model of core/parsing/unified_cycle_detection.py (unified_cycle_check / unified_enter_schema /
   unified_exit_schema, analyze_cycle), of ParsingContext's use of it, and of the
   enter / early-return / try-finally SKELETON of schema_parser._parse_schema, transcribed branch for
   branch, defects included.  No proofs in this file.

   The 900 lines between `try:` and `finally:` are NOT modelled here: a [call] is an ARBITRARY tree of
   nested _parse_schema invocations (with arbitrary registrations into context.parsed_schemas
   in between), so every theorem about [run] holds for whatever the parser body does. *)
From PG Require Import Lib.Strs.
From PG Require Export Gen.T_C08.

(* ---------- SchemaState / CycleAction ---------- *)
Inductive sstate := NotStarted | InProgress | Completed | PhCycle | PhDepth | PhSelf.
Inductive action := AContinue | APlaceholder | ACreate | AExisting.

Definition sstate_code (s : sstate) : N :=
  match s with NotStarted => 0 | InProgress => 1 | Completed => 2 | PhCycle => 3 | PhDepth => 4 | PhSelf => 5 end.
Definition action_code (a : action) : N :=
  match a with AContinue => 0 | APlaceholder => 1 | ACreate => 2 | AExisting => 3 end.

(* ---------- UnifiedCycleContext ---------- *)
Record ctx := mkctx {
  stack : list str;                (* schema_stack *)
  states : list (str * sstate);    (* schema_states (dict, insertion ordered) *)
  parsed : list str;               (* keys of parsed_schemas (shared with ParsingContext), insertion ordered *)
  depth : N;                       (* recursion_depth *)
  cycles : list (list str);        (* detected_cycles: the cycle_path of each CycleInfo *)
  exceeded : list str;             (* depth_exceeded_schemas (a set; kept duplicate-free, insertion order) *)
  flag : bool;                     (* cycle_detected *)
  max_depth : N;                   (* int(os.environ.get("PYOPENAPI_MAX_DEPTH", context.max_depth)) *)
  allow_self : bool;               (* allow_self_reference, overwritten by every _parse_schema call *)
  (* ---- ghost fields: read by no branch; they only record history for the theorems ---- *)
  g_nest : N;                      (* number of _parse_schema frames currently active (true nesting) *)
  g_peak_nest : N;                 (* maximum of g_nest so far *)
  g_peak : N;                      (* maximum of recursion_depth so far *)
  g_fell : list str;               (* names reset to NOT_STARTED by the RETURN_EXISTING fall-through *)
  g_entered : list str             (* every name unified_enter_schema was called with, in order *)
}.

Definition init (md : N) : ctx :=
  mkctx [] [] [] 0 [] [] false md false 0 0 0 [] [].

Definition set_stack (c : ctx) (v : list str) : ctx :=
  mkctx v (states c) (parsed c) (depth c) (cycles c) (exceeded c) (flag c) (max_depth c) (allow_self c)
        (g_nest c) (g_peak_nest c) (g_peak c) (g_fell c) (g_entered c).
Definition set_states (c : ctx) (v : list (str * sstate)) : ctx :=
  mkctx (stack c) v (parsed c) (depth c) (cycles c) (exceeded c) (flag c) (max_depth c) (allow_self c)
        (g_nest c) (g_peak_nest c) (g_peak c) (g_fell c) (g_entered c).
Definition set_parsed (c : ctx) (v : list str) : ctx :=
  mkctx (stack c) (states c) v (depth c) (cycles c) (exceeded c) (flag c) (max_depth c) (allow_self c)
        (g_nest c) (g_peak_nest c) (g_peak c) (g_fell c) (g_entered c).
Definition set_depth (c : ctx) (v : N) : ctx :=
  mkctx (stack c) (states c) (parsed c) v (cycles c) (exceeded c) (flag c) (max_depth c) (allow_self c)
        (g_nest c) (g_peak_nest c) (N.max (g_peak c) v) (g_fell c) (g_entered c).
Definition set_cycles (c : ctx) (v : list (list str)) : ctx :=
  mkctx (stack c) (states c) (parsed c) (depth c) v (exceeded c) (flag c) (max_depth c) (allow_self c)
        (g_nest c) (g_peak_nest c) (g_peak c) (g_fell c) (g_entered c).
Definition set_exceeded (c : ctx) (v : list str) : ctx :=
  mkctx (stack c) (states c) (parsed c) (depth c) (cycles c) v (flag c) (max_depth c) (allow_self c)
        (g_nest c) (g_peak_nest c) (g_peak c) (g_fell c) (g_entered c).
Definition set_flag (c : ctx) (v : bool) : ctx :=
  mkctx (stack c) (states c) (parsed c) (depth c) (cycles c) (exceeded c) v (max_depth c) (allow_self c)
        (g_nest c) (g_peak_nest c) (g_peak c) (g_fell c) (g_entered c).
Definition set_allow (c : ctx) (v : bool) : ctx :=
  mkctx (stack c) (states c) (parsed c) (depth c) (cycles c) (exceeded c) (flag c) (max_depth c) v
        (g_nest c) (g_peak_nest c) (g_peak c) (g_fell c) (g_entered c).
Definition set_nest (c : ctx) (v : N) : ctx :=
  mkctx (stack c) (states c) (parsed c) (depth c) (cycles c) (exceeded c) (flag c) (max_depth c) (allow_self c)
        v (N.max (g_peak_nest c) v) (g_peak c) (g_fell c) (g_entered c).
Definition add_fell (c : ctx) (n : str) : ctx :=
  mkctx (stack c) (states c) (parsed c) (depth c) (cycles c) (exceeded c) (flag c) (max_depth c) (allow_self c)
        (g_nest c) (g_peak_nest c) (g_peak c) (g_fell c ++ [n]) (g_entered c).

(* ---------- small helpers ---------- *)
Definition add_key (k : str) (l : list str) : list str := if mem_str k l then l else l ++ [k].
Fixpoint del_key (k : str) (l : list str) : list str :=
  match l with [] => [] | x :: r => if str_eqb k x then r else x :: del_key k r end.
(* list.remove(x): first occurrence *)
Definition remove1 := del_key.

(* Python truthiness of `schema_name : str | None` *)
Definition truthy (name : option str) : bool :=
  match name with Some (_ :: _) => true | _ => false end.

(* schema_states.get(n, NOT_STARTED) *)
Definition state_of (c : ctx) (n : str) : sstate :=
  match alookup n (states c) with Some s => s | None => NotStarted end.
Definition set_state (c : ctx) (n : str) (s : sstate) : ctx := set_states c (aset (states c) n s).
Definition registered (c : ctx) (n : str) : bool := mem_str n (parsed c).

(* ---------- analyze_cycle ---------- *)
(* schema_stack[schema_stack.index(n):] ; None = ValueError *)
Fixpoint from_first (n : str) (st : list str) : option (list str) :=
  match st with
  | [] => None
  | x :: r => if str_eqb n x then Some st else from_first n r
  end.
Definition cycle_path (n : str) (st : list str) : list str :=
  match from_first n st with
  | Some l => l ++ [n]
  | None => [n; n]
  end.
Definition is_direct (path : list str) : bool :=
  match path with
  | [a; b] => str_eqb a b
  | _ => false
  end.
Definition first_last_eq (path : list str) : bool :=
  match path with
  | [] => false (* unreachable: a cycle path has at least two entries *)
  | a :: _ => str_eqb a (last path a)
  end.

(* ---------- unified_cycle_check ---------- *)
(* branch 3: recursion_depth > max_depth *)
Definition depth_placeholder (n : str) (c : ctx) : ctx :=
  let c1 := set_exceeded c (add_key n (exceeded c)) in
  let c2 := set_state c1 n PhDepth in
  let c3 := set_flag c2 true in
  set_parsed c3 (add_key n (parsed c3)).

(* the placeholder storage policy of branch 4 (string heuristics included) *)
Definition should_store (n : str) (path : list str) : bool :=
  let direct := is_direct path in
  let synthetic := truthy (Some n) && (containsb s_syn1 n || containsb s_syn2 n) in
  let pstr := join s_path_sep path in
  let arr := containsb s_arr1 pstr && containsb s_arr2 pstr && first_last_eq path in
  let nested :=
    existsb (fun x => prefixb n x && negb (str_eqb x n) && negb (suffixb s_item_suffix x)) path
    && first_last_eq path in
  synthetic || direct || arr || nested.

(* branch 4: schema_name in schema_stack *)
Definition cycle_placeholder (n : str) (c : ctx) : ctx :=
  let path := cycle_path n (stack c) in
  let c1 := set_flag c true in
  let selfok := allow_self c && is_direct path in
  let c2 := if selfok then c1 else set_cycles c1 (cycles c1 ++ [path]) in
  if should_store n path
  then set_state (set_parsed c2 (add_key n (parsed c2))) n (if selfok then PhSelf else PhCycle)
  else c2.

Definition check (name : option str) (c : ctx) : ctx * action :=
  match name with
  | None => (c, AContinue)
  | Some n =>
    match state_of c n with
    | Completed => (c, AExisting)                               (* 1. *)
    | PhCycle | PhDepth | PhSelf => (c, APlaceholder)           (* 2. *)
    | NotStarted | InProgress =>
      if max_depth c <? depth c then (depth_placeholder n c, ACreate)        (* 3. *)
      else if mem_str n (stack c) then (cycle_placeholder n c, ACreate)      (* 4. *)
      else (set_state c n InProgress, AContinue)                             (* 5. *)
    end
  end.

(* ---------- unified_enter_schema / unified_exit_schema ---------- *)
Definition enter (name : option str) (c : ctx) : ctx * action :=
  let c1 := set_depth c (depth c + 1) in
  let (c2, a) := check name c1 in
  match a, name with
  | AContinue, Some n => if truthy name then (set_stack c2 (stack c2 ++ [n]), a) else (c2, a)
  | _, _ => (c2, a)
  end.

Definition exit (name : option str) (c : ctx) : ctx :=
  let c1 := if 0 <? depth c then set_depth c (depth c - 1) else c in
  match name with
  | Some n =>
      if truthy name then
        let c2 := if mem_str n (stack c1) then set_stack c1 (remove1 n (stack c1)) else c1 in
        match alookup n (states c2) with
        | Some InProgress => set_state c2 n Completed
        | _ => c2
        end
      else c1
  | None => c1
  end.

(* ---------- the skeleton of _parse_schema over arbitrary call trees ---------- *)
(* [Call name allow body]: one invocation _parse_schema(name, …, allow_self_reference=allow) whose body
   (between `try:` and `finally:`) performs the items of [body] in order;
   [Reg k] / [Unreg k]: a statement `context.parsed_schemas[k] = …` / `del …[k]` executed by the body
   (or, at top level, by the loader between two invocations). *)
Inductive call :=
| Call (name : option str) (allow : bool) (body : list call)
| Reg (k : str)
| Unreg (k : str).

Definition note_entered (c : ctx) (name : option str) : ctx :=
  mkctx (stack c) (states c) (parsed c) (depth c) (cycles c) (exceeded c) (flag c) (max_depth c) (allow_self c)
        (g_nest c) (g_peak_nest c) (g_peak c) (g_fell c)
        (match name with Some n => g_entered c ++ [n] | None => g_entered c end).
Definition frame_in (c : ctx) (name : option str) : ctx := note_entered (set_nest c (g_nest c + 1)) name.
Definition frame_out (c : ctx) : ctx := set_nest c (g_nest c - 1).

Fixpoint run (c : ctx) (t : call) : ctx :=
  match t with
  | Reg k => set_parsed c (add_key k (parsed c))
  | Unreg k => set_parsed c (del_key k (parsed c))
  | Call name allow body =>
      let run_body := fix run_body (c : ctx) (l : list call) : ctx :=
        match l with [] => c | t :: r => run_body (run c t) r end in
      let c0 := set_allow (frame_in c name) allow in
      let (c1, a) := enter name c0 in
      frame_out (
      match a with
      | AExisting =>
          let c2 := exit name c1 in                       (* "Balance the enter call" *)
          match name with
          | Some n =>
              if truthy name then
                if registered c2 n then c2                (* return existing_schema *)
                else
                  (* "state management issue": reset and CONTINUE TO NORMAL PARSING; the body's
                     `finally` exits a second time *)
                  let c3 := add_fell (set_state c2 n NotStarted) n in
                  exit name (run_body c3 body)
              else exit name (run_body c2 body)
          | None => exit name (run_body c2 body)
          end
      | APlaceholder => exit name c1
      | ACreate => exit name c1
      | AContinue => exit name (run_body c1 body)         (* try: body finally: exit *)
      end)
  end.

Fixpoint run_list (c : ctx) (l : list call) : ctx :=
  match l with [] => c | t :: r => run_list (run c t) r end.

(* ---------- the same execution, logging a snapshot after every enter and exit ---------- *)
(* event = (kind, action, ctx after): kind 0 = enter, 1 = exit; action code for enter, 9 for exit *)
Definition event := (N * N * ctx)%type.
Definition log_enter (a : action) (c : ctx) (acc : list event) := (0, action_code a, c) :: acc.
Definition log_exit (c : ctx) (acc : list event) := (1, 9, c) :: acc.

(* [acc] is in reverse order.  Same branches as [run]; the three ways out of the prologue are
   0 = return at once (existing schema found), 1 = balancing exit then return, 2 = body then `finally` exit *)
Fixpoint run_acc (c : ctx) (acc : list event) (t : call) {struct t} : ctx * list event :=
  match t with
  | Reg k => (set_parsed c (add_key k (parsed c)), acc)
  | Unreg k => (set_parsed c (del_key k (parsed c)), acc)
  | Call name allow body =>
      let c0 := set_allow (frame_in c name) allow in
      let (c1, a) := enter name c0 in
      let acc1 := log_enter a c1 acc in
      let '(mode, c2, acc2) :=
        match a with
        | AExisting =>
            let c2 := exit name c1 in
            let acc2 := log_exit c2 acc1 in
            match name with
            | Some n =>
                if truthy name then
                  if registered c2 n then (0%nat, c2, acc2)
                  else (2%nat, add_fell (set_state c2 n NotStarted) n, acc2)
                else (2%nat, c2, acc2)
            | None => (2%nat, c2, acc2)
            end
        | APlaceholder => (1%nat, c1, acc1)
        | ACreate => (1%nat, c1, acc1)
        | AContinue => (2%nat, c1, acc1)
        end in
      match mode with
      | O => (frame_out c2, acc2)
      | S O => let c' := exit name c2 in (frame_out c', log_exit c' acc2)
      | _ =>
          let (c3, acc3) :=
            (fix run_body (c : ctx) (acc : list event) (l : list call) {struct l} : ctx * list event :=
               match l with
               | [] => (c, acc)
               | t :: r => let (c', acc') := run_acc c acc t in run_body c' acc' r
               end) c2 acc2 body in
          let c' := exit name c3 in (frame_out c', log_exit c' acc3)
      end
  end.

Fixpoint run_list_acc (c : ctx) (acc : list event) (l : list call) : ctx * list event :=
  match l with [] => (c, acc) | t :: r => let (c', acc') := run_acc c acc t in run_list_acc c' acc' r end.

(* ---------- build_schemas: the top-level loop ---------- *)
(* schema_states.pop(k, None): a Python dict has unique keys, so removing every entry for k is the same thing *)
Definition pop_state (c : ctx) (k : str) : ctx :=
  set_states c (filter (fun kv => negb (str_eqb k (fst kv))) (states c)).

(* What happens between two moments at which no _parse_schema frame is active:
   [Plain t]   : a top-level invocation (build_schemas' first visit of a schema, or an inline schema of an
                 operation), or a registration done by the loader;
   [Fresh k t] : build_schemas' re-parse of a schema that was only registered as a depth-limit placeholder:
                 `context.unified_cycle_context.schema_states.pop(k, None)` followed by `_parse_schema(k, …)`. *)
Inductive top := Plain (t : call) | Fresh (k : str) (t : call).

Definition run_top (c : ctx) (x : top) : ctx :=
  match x with Plain t => run c t | Fresh k t => run (pop_state c k) t end.
Fixpoint run_tops (c : ctx) (l : list top) : ctx :=
  match l with [] => c | x :: r => run_tops (run_top c x) r end.

Definition run_top_acc (c : ctx) (acc : list event) (x : top) : ctx * list event :=
  match x with Plain t => run_acc c acc t | Fresh k t => run_acc (pop_state c k) acc t end.
Fixpoint run_tops_acc (c : ctx) (acc : list event) (l : list top) : ctx * list event :=
  match l with [] => (c, acc) | x :: r => let (c', acc') := run_top_acc c acc x in run_tops_acc c' acc' r end.

Definition trace (md : N) (tops : list top) : list event := rev (snd (run_tops_acc (init md) [] tops)).

(* the state is popped for exactly the schema that is parsed next *)
Definition fresh_ok (x : top) : bool :=
  match x with
  | Plain _ => true
  | Fresh k (Call (Some n) _ _) => str_eqb k n
  | Fresh _ _ => false
  end.
Definition top_call (x : top) : call := match x with Plain t => t | Fresh _ t => t end.

(* ---------- the property's predicates ---------- *)
Definition rest (c : ctx) : Prop := stack c = [] /\ depth c = 0.
Definition restb (c : ctx) : bool := match stack c with [] => true | _ => false end && (depth c =? 0).

Definition terminal (s : sstate) : bool :=
  match s with Completed | PhCycle | PhDepth | PhSelf => true | NotStarted | InProgress => false end.

(* true nesting depth of a call tree (number of nested _parse_schema frames) *)
Fixpoint height (t : call) : N :=
  match t with
  | Call _ _ body =>
      1 + (fix go (l : list call) : N := match l with [] => 0 | x :: r => N.max (height x) (go r) end) body
  | _ => 0
  end.

(* an anonymous chain: k nested invocations with schema_name = None (oneOf / anyOf / allOf members,
   additionalProperties, $ref / primitive items) *)
Fixpoint anon_chain (k : nat) : call :=
  match k with O => Call None false [] | S k' => Call None false [anon_chain k'] end.

(* every frame of the tree is named (non-empty schema_name) *)
Fixpoint all_named (t : call) : bool :=
  match t with
  | Call name _ body =>
      truthy name
      && (fix go (l : list call) : bool := match l with [] => true | x :: r => all_named x && go r end) body
  | _ => true
  end.

(* every declared schema name is a key of parsed_schemas *)
Definition all_present (declared : list str) (c : ctx) : bool := forallb (registered c) declared.

(* ---------- "every declared schema name is present": the contract between build_schemas and the parser body ---------- *)
Fixpoint no_unreg (t : call) : bool :=
  match t with
  | Unreg _ => false
  | Reg _ => true
  | Call _ _ body => (fix go (l : list call) : bool := match l with [] => true | x :: r => no_unreg x && go r end) body
  end.

(* build_schemas' post-condition accepts the raw name or its sanitised form [alt n] as key *)
Definition present (alt : str -> str) (c : ctx) (n : str) : bool := registered c n || registered c (alt n).

Definition before_top (c : ctx) (x : top) : ctx := match x with Plain _ => c | Fresh k _ => pop_state c k end.

(* names visited by a top-level invocation that starts with no tracker state for the name (what build_schemas
   arranges with schema_states.pop before every (re-)parse of a declared schema) *)
Definition visits (c : ctx) (x : top) : option str :=
  match top_call x with
  | Call (Some n) _ _ => match state_of (before_top c x) n with NotStarted => Some n | _ => None end
  | _ => None
  end.

(* THE CONTRACT WITH THE PARSER BODY (not provable from the skeleton; checked on every trace):
   when such an invocation is told to CONTINUE, the body has registered the name (or its sanitised form)
   by the time it reaches the `finally`. *)
Definition top_contract (alt : str -> str) (c : ctx) (x : top) : bool :=
  match top_call x with
  | Call (Some n) allow body =>
      match visits c x with
      | Some _ =>
          let (c1, a) := enter (Some n) (set_allow (frame_in (before_top c x) (Some n)) allow) in
          match a with AContinue => present alt (run_list c1 body) n | _ => true end
      | None => true
      end
  | _ => true
  end.
Fixpoint contract (alt : str -> str) (c : ctx) (l : list top) : bool :=
  match l with [] => true | x :: r => top_contract alt c x && contract alt (run_top c x) r end.
Fixpoint visited (c : ctx) (l : list top) : list str :=
  match l with
  | [] => []
  | x :: r => (match visits c x with Some n => [n] | None => [] end) ++ visited (run_top c x) r
  end.

(* ---------- executable guards of the partial theorem ---------- *)
(* F08b: the RETURN_EXISTING fall-through was taken somewhere (the schema is parsed a second time, exited
   twice and left NOT_STARTED) *)
Definition guard_F08b (md : N) (tops : list top) : bool :=
  match g_fell (run_tops (init md) tops) with [] => true | _ => false end.
(* F08a: the true nesting of _parse_schema frames stays within the configured limit (+1 for the frame that
   receives the depth placeholder) *)
Definition guard_F08a (md : N) (tops : list top) : bool :=
  g_peak_nest (run_tops (init md) tops) <=? md + 1.
(* every entered name is a non-empty string (the tracker treats "" like None in half of its tests) *)
Fixpoint names_truthy (t : call) : bool :=
  match t with
  | Call name _ body =>
      match name with Some [] => false | _ => true end
      && (fix go (l : list call) : bool := match l with [] => true | x :: r => names_truthy x && go r end) body
  | _ => true
  end.
