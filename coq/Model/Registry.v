(* C11 — model of the exception registry of a core package shared by several generated clients:
   emitters/exceptions_emitter.py (_is_shared_core, _update_registry, _generate_for_codes),
   visit/exception_visitor.py (which codes get a class), visit/endpoint/generators/
   response_handler_generator.py (which classes an endpoint module imports from the core) and the
   part of generator/client_generator.py that decides between the "diff" path (nothing is written)
   and the direct path (rmtree of the client directory, then emit).  Transcribed as the code is,
   defects included.  No proofs in this file. *)
From PG Require Import Lib.Strs.

(* ---------- status codes ---------- *)
(* http_status_codes.is_error_code: 400 <= code < 600 — these get a class in exception_aliases.py *)
Definition is_error (c : N) : bool := (400 <=? c) && (c <? 600).
(* response handler: status_code.startswith("2") on three-digit codes — every *other* declared
   numeric status makes the endpoint module import get_exception_class_name(code) from the core *)
Definition is_2xx (c : N) : bool := (200 <=? c) && (c <? 300).

(* sorted(set(...)) on ints *)
Fixpoint insert (x : N) (l : list N) : list N :=
  match l with
  | [] => [x]
  | y :: r => if x <? y then x :: l else if x =? y then l else y :: insert x r
  end.
Definition sort_set (l : list N) : list N := fold_right insert [] l.

(* ---------- layout of the project ---------- *)
(* A client is identified by its dotted output package name (the registry key), one to three
   components deep; no client package lies inside another.  The core package has [core_depth]
   dotted components ("core" = 1, "shared.core" / "clients.core" = 2, "a.b.core" = 3 ...);
   [core_inside_client = Some c] when the core package's leading components are the client
   package c (e.g. "c1.core", "clients.alpha.core"), so that c's directory contains the core. *)
Record layout := { core_depth : nat; core_inside_client : option str }.

(* _is_shared_core:  project_root in core_path.parents — the core lies strictly below the project
   root, at any depth (the root has depth 0) *)
Definition is_shared (l : layout) : bool := Nat.leb 1 (core_depth l).

(* ---------- the world: what is on disk under one project root ---------- *)
Definition reg := list (str * list N).
Record world := {
  registry : option reg;        (* .exception_registry.json in the core dir; None = no such file *)
  aliases  : option (list N);   (* classes in exception_aliases.py, as codes; None = core not emitted *)
  clients  : reg;               (* generated client packages -> codes whose classes they import from the core *)
  specs    : reg;               (* generated client packages -> [signature] of the call that generated them *)
  claimed  : list str           (* clients for which some generate call has returned successfully *)
}.
Definition init : world := {| registry := None; aliases := None; clients := []; specs := []; claimed := [] |}.

(* g_core_given = false: generate() is called WITHOUT core_package and resolves it to <client>.core itself
   (only possible for the client whose directory contains the core).  The registry treats both alike; the
   only difference is the rich client __init__.py, written (on both paths) only when core_package was given. *)
Record gen_call := { g_client : str; g_codes : list N (* declared numeric statuses *); g_force : bool;
                     g_core_given : bool }.
(* what the emitted client package is a function of: the core_package flag and the declared statuses *)
Definition signature (g : gen_call) : list N := (if g_core_given g then 1 else 0) :: g_codes g.

Definition amem {V} (k : str) (d : list (str * V)) : bool :=
  match alookup k d with Some _ => true | None => false end.
Definition is_some {A} (o : option A) : bool := match o with Some _ => true | None => false end.
Definition add_str (c : str) (l : list str) : list str := if mem_str c l then l else l ++ [c].

Definition inside (l : layout) (c : str) : bool :=
  match core_inside_client l with Some c' => str_eqb c c' | None => false end.

(* out_dir.exists(): the client was generated, or it merely holds the (already emitted) core *)
Definition dir_exists (l : layout) (w : world) (c : str) : bool :=
  amem c (clients w) || (inside l c && is_some (aliases w)).

Definition errs_of (g : gen_call) : list N := sort_set (filter is_error (g_codes g)).
Definition imports_of (g : gen_call) : list N := sort_set (filter (fun c => negb (is_2xx c)) (g_codes g)).
Definition union_codes (r : reg) : list N := sort_set (concat (map snd r)).
Definition reg_or_empty (o : option reg) : reg := match o with Some r => r | None => [] end.

Definition codes_eqb := list_eqb N.eqb.

(* one call of ClientGenerator.generate(spec, root, client, force, core_package=<layout>);
   second component: the call returned (true) / raised GenerationError (false) *)
(* [ex] = out_dir.exists() *)
Definition step_out_with (l : layout) (ex : bool) (w : world) (g : gen_call) : world * bool :=
  let c := g_client g in
  if negb (g_force g) && ex then
    (* diff path: everything is emitted under a temporary root — the temporary registry starts as a copy of
       the existing one, so the temporary aliases are the union over all clients with this client's entry
       replaced — then compared with the existing files in both directions; nothing under the project root
       changes.  The call returns iff nothing differs: the client was generated by a call with the same signature (a
       directory that only holds the core lacks client.py etc.) and the alias classes are up to date. *)
    let ok := amem c (clients w)
              && match alookup c (specs w) with Some cs => codes_eqb cs (signature g) | None => false end
              && opt_eqb codes_eqb (aliases w)
                   (Some (union_codes (aset (reg_or_empty (registry w)) c (errs_of g)))) in
    ({| registry := registry w; aliases := aliases w; clients := clients w; specs := specs w;
        claimed := if ok then add_str c (claimed w) else claimed w |}, ok)
  else
    (* direct path: shutil.rmtree(out_dir) when it exists — this takes the core with it when the
       core lives inside this client's directory, but the registry file is read before the
       clean-up and written back afterwards (the alias classes are regenerated from it) *)
    let reg0 := registry w in
    (* ExceptionsEmitter.emit *)
    let reg1 := if is_shared l then Some (aset (reg_or_empty reg0) c (errs_of g)) else reg0 in
    let al := if is_shared l then union_codes (reg_or_empty reg1) else errs_of g in
    ({| registry := reg1; aliases := Some al; clients := aset (clients w) c (imports_of g);
        specs := aset (specs w) c (signature g); claimed := add_str c (claimed w) |}, true).

Definition step_out (l : layout) (w : world) (g : gen_call) : world * bool :=
  step_out_with l (dir_exists l w (g_client g)) w g.

Definition step (l : layout) (w : world) (g : gen_call) : world := fst (step_out l w g).
Definition run (l : layout) (h : list gen_call) : world := fold_left (step l) h init.

(* the worlds after each call, with the call's outcome (what the correspondence check observes) *)
Fixpoint trace (l : layout) (w : world) (h : list gen_call) : list (world * bool) :=
  match h with
  | [] => []
  | g :: r => let wo := step_out l w g in wo :: trace l (fst wo) r
  end.

(* ---------- the property ---------- *)
Definition aliases_of (w : world) : list N := match aliases w with Some a => a | None => [] end.

(* every symbol a generated client takes from the core still exists there *)
Definition Inv (w : world) : Prop :=
  forall c cs, In (c, cs) (clients w) -> incl (filter is_error cs) (aliases_of w).
(* ... and every client reported as generated is really there *)
Definition Claimed_present (w : world) : Prop :=
  forall c, In c (claimed w) -> amem c (clients w) = true.
Definition Works (w : world) : Prop := Inv w /\ Claimed_present w.

(* executable form of [Works] (used by the correspondence driver and the witnesses) *)
Definition inclb (a b : list N) : bool := forallb (fun x => existsb (N.eqb x) b) a.
Definition works_b (w : world) : bool :=
  forallb (fun kv => inclb (filter is_error (snd kv)) (aliases_of w)) (clients w)
  && forallb (fun c => amem c (clients w)) (claimed w).

(* ---------- executable guards (one per finding) ---------- *)
(* well-formed layout: the core package has at least one component (F11a is fixed: a core is
   recognised as shared at any depth, so this is no longer a finding guard) *)
Definition wf_layout (l : layout) : bool := is_shared l.
Definition guard (l : layout) (h : list gen_call) : bool :=
  wf_layout l.
