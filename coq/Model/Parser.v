(* Reduced but branch-faithful model of the schema parser, defects included.

   core/parsing/schema_parser.py      _parse_schema / _parse_properties / _resolve_ref  (restricted to the node grammar below)
   core/parsing/unified_cycle_detection.py   unified_cycle_check / unified_enter_schema / unified_exit_schema
   core/parsing/keywords/{all_of,one_of,any_of}_parser.py
   core/loader/schemas/extractor.py   build_schemas

   SELF-CONTAINED: carries its own transcription of the cycle tracker (Model/Cycle.v of C08 is not imported).

   Name domain: NameSanitizer.sanitize_class_name is modelled by [cls] = "capitalise the first letter", which is what it
   computes on the names the harness generates (schema names made of Capitalised words, property keys of >= 2 lower-case
   letters, none reserved); the harness checks this per input against the real function and sends everything else to
   the oracle only.  IR objects are values carrying an identity [i_id] (Python `is`); the two mutations the parser performs
   on an object after it was stored (circular marking, renaming of a returned property object) are replayed on the
   registry entry with the same identity.  `required` (a set, later sorted) is a list; only membership is observed.
   No proofs here. *)
From PG Require Import Lib.Strs Model.AllOf Gen.T_C02.

(* ------------------------------------------------------------------ documents *)
Inductive prim := PString | PInteger | PNumber | PBoolean.

Inductive node :=
| Ref (n : str)                                   (* {"$ref": "#/components/schemas/n"} *)
| Obj (ps : list (str * node)) (req : list str)   (* {"type":"object","properties":{..},"required":[..]} *)
| Arr (x : node)                                  (* {"type":"array","items":x} *)
| OneOf (l : list node)
| AnyOf (l : list node)
| AllOf (l : list node)
| Prim (k : prim)                                 (* {"type": k} *)
| EnumN                                           (* {"type":"string","enum":[..]} *)
| MapN (x : node).                                (* {"type":"object","additionalProperties":x} *)

Definition spec := list (str * node).             (* components.schemas in declaration order *)

(* ------------------------------------------------------------------ IR *)
Inductive tyn := TyObject | TyArray | TyPrim (k : prim) | TyNamed (n : str).   (* IRSchema.type *)

Inductive ir := IR {
  i_id : N;                       (* object identity *)
  i_name : option str;
  i_ty : option tyn;
  i_props : list (str * ir);
  i_req : list str;
  i_items : option ir;
  i_ap : option ir;               (* additional_properties when it is a schema *)
  i_anyof : option (list ir);
  i_oneof : option (list ir);
  i_allof : bool;                 (* all_of is a non-empty list *)
  i_enum : bool;
  i_circ : bool;                  (* _is_circular_ref *)
  i_unres : bool;                 (* _from_unresolved_ref *)
  i_depthm : bool;                (* _max_depth_exceeded_marker *)
  i_stub : bool                   (* _is_self_referential_stub *)
}.

Definition blank (id : N) (name : option str) (ty : option tyn) : ir :=
  IR id name ty [] [] None None None None false false false false false false.

Definition set_name (nm : option str) (x : ir) : ir :=
  IR (i_id x) nm (i_ty x) (i_props x) (i_req x) (i_items x) (i_ap x) (i_anyof x) (i_oneof x) (i_allof x)
     (i_enum x) (i_circ x) (i_unres x) (i_depthm x) (i_stub x).
Definition set_items (it : option ir) (x : ir) : ir :=
  IR (i_id x) (i_name x) (i_ty x) (i_props x) (i_req x) it (i_ap x) (i_anyof x) (i_oneof x) (i_allof x)
     (i_enum x) (i_circ x) (i_unres x) (i_depthm x) (i_stub x).
Definition mark_circular (x : ir) : ir :=
  IR (i_id x) (i_name x) (i_ty x) (i_props x) (i_req x) (i_items x) (i_ap x) (i_anyof x) (i_oneof x) (i_allof x)
     (i_enum x) true true (i_depthm x) (i_stub x).

(* ------------------------------------------------------------------ strings *)
Definition cls (s : str) : str :=                 (* sanitize_class_name on the name domain *)
  match s with
  | c :: r => if is_lower c then upper_ascii c :: r else s
  | [] => s
  end.
Definition lower (s : str) : str := map lower_ascii s.
Definition nonempty (s : str) : bool := match s with [] => false | _ => true end.

Definition dec2 (n : N) : str :=                  (* str(n) for n < 100 (anonymous array item counter) *)
  if n <? 10 then [48 + n] else [48 + n / 10; 48 + n mod 10].

(* ------------------------------------------------------------------ tracker + parser state *)
Inductive sstate := NotStarted | InProgress | Completed | PhCycle | PhDepth | PhSelf.
Inductive action := AContinue | AExisting | APlaceholder | ACreate.

(* which of the loss-relevant branches fired (used by guards and by the _partial theorem) *)
Inductive event :=
| EvDepth          (* depth placeholder created and stored                       unified_cycle_check step 3 *)
| EvCycle          (* cycle detected, placeholder returned but NOT stored         step 4 *)
| EvCycleStored    (* cycle detected, placeholder stored under the schema's name  step 4, should_store_placeholder *)
| EvExisting       (* RETURN_EXISTING taken (state COMPLETED at entry) *)
| EvFallthrough    (* RETURN_EXISTING but nothing registered: state reset, body parsed again *)
| EvPlaceholder    (* RETURN_PLACEHOLDER taken *)
| EvShadowed       (* schema_parser 846-850: stored circular placeholder returned instead of the parsed schema *)
| EvOverwrite      (* registration over an existing key *)
| EvMarked         (* schema_parser 904-921: registered schema flagged circular/unresolved *)
| EvUnresolved.    (* $ref target not in components.schemas *)

Definition event_eqb (a b : event) : bool :=
  match a, b with
  | EvDepth, EvDepth | EvCycle, EvCycle | EvCycleStored, EvCycleStored | EvExisting, EvExisting
  | EvFallthrough, EvFallthrough | EvPlaceholder, EvPlaceholder | EvShadowed, EvShadowed
  | EvOverwrite, EvOverwrite | EvMarked, EvMarked | EvUnresolved, EvUnresolved => true
  | _, _ => false
  end.

Record st := ST {
  stack : list str;                 (* schema_stack *)
  states : list (str * sstate);     (* schema_states *)
  depth : N;                        (* recursion_depth *)
  parsed : list (str * ir);         (* context.parsed_schemas == unified_cycle_context.parsed_schemas (same dict) *)
  cycles : list (list str);         (* detected_cycles (cycle_path of each) *)
  nid : N;                          (* next object identity *)
  events : list event;
  oof : bool                        (* model ran out of fuel *)
}.

Definition st0 : st := ST [] [] 0 [] [] 0 [] false.

Definition w_stack v s := ST v (states s) (depth s) (parsed s) (cycles s) (nid s) (events s) (oof s).
Definition w_states v s := ST (stack s) v (depth s) (parsed s) (cycles s) (nid s) (events s) (oof s).
Definition w_depth v s := ST (stack s) (states s) v (parsed s) (cycles s) (nid s) (events s) (oof s).
Definition w_parsed v s := ST (stack s) (states s) (depth s) v (cycles s) (nid s) (events s) (oof s).
Definition w_cycles v s := ST (stack s) (states s) (depth s) (parsed s) v (nid s) (events s) (oof s).
Definition bump s := ST (stack s) (states s) (depth s) (parsed s) (cycles s) (nid s + 1) (events s) (oof s).
Definition add_ev e s := ST (stack s) (states s) (depth s) (parsed s) (cycles s) (nid s) (e :: events s) (oof s).
Definition w_oof s := ST (stack s) (states s) (depth s) (parsed s) (cycles s) (nid s) (events s) true.

Definition state_of (s : st) (n : str) : sstate :=
  match alookup n (states s) with Some x => x | None => NotStarted end.
Definition set_state (n : str) (x : sstate) (s : st) : st := w_states (aset (states s) n x) s.
Definition reg (k : str) (v : ir) (s : st) : st := w_parsed (aset (parsed s) k v) s.
Definition registered (k : str) (s : st) : bool := match alookup k (parsed s) with Some _ => true | None => false end.
Definition cut_off (k : str) (s : st) : bool :=            (* registered as a depth-limit placeholder *)
  match alookup k (parsed s) with Some e => i_depthm e | None => false end.

Fixpoint update_id (id : N) (f : ir -> ir) (l : list (str * ir)) : list (str * ir) :=
  match l with
  | [] => []
  | (k, v) :: r => (k, if i_id v =? id then f v else v) :: update_id id f r
  end.

Definition nonempty_list {A} (l : list A) : bool := match l with [] => false | _ => true end.

Fixpoint from_first (n : str) (l : list str) : list str :=     (* l[l.index(n):] *)
  match l with
  | [] => []
  | x :: r => if str_eqb x n then l else from_first n r
  end.
Fixpoint remove_first (n : str) (l : list str) : list str :=   (* l.remove(n) *)
  match l with
  | [] => []
  | x :: r => if str_eqb x n then r else x :: remove_first n r
  end.

Section WithConfig.
  Variable max_depth : N.           (* PYOPENAPI_MAX_DEPTH or the default *)
  Variable S : spec.                (* context.raw_spec_schemas *)
  Definition allow_self := true.    (* build_schemas passes allow_self_reference=True and it is propagated everywhere *)

  (* ---------------- unified_cycle_check (name is not None) *)
  Definition cycle_placeholder (id : N) (name : str) : ir :=
    IR id (Some (cls name)) (Some TyObject) [] [] None None None None false false true true false false.
  Definition self_placeholder (id : N) (name : str) : ir :=
    IR id (Some (cls name)) (Some TyObject) [] [] None None None None false false false false false true.
  Definition depth_placeholder (id : N) (name : str) : ir :=
    IR id (Some (cls name)) (Some TyObject) [] [] None None None None false false false false true false.

  Definition should_store (name : str) (path : list str) (direct : bool) : bool :=
    let synthetic := containsb s_Item name || containsb s_Property name in
    let pstr := join s_arrow path in
    let ends_eq := str_eqb (hd [] path) (last path []) in
    let arr_self := containsb s_Children pstr && containsb s_ChildrenItem pstr && ends_eq in
    let nested := existsb (fun x => prefixb name x && negb (str_eqb x name) && negb (suffixb s_ends_Item x)) path
                  && ends_eq in
    synthetic || direct || arr_self || nested.

  Definition cycle_check (name : str) (s : st) : action * option ir * st :=
    match state_of s name with
    | Completed => (AExisting, None, s)
    | PhCycle | PhDepth | PhSelf => (APlaceholder, None, s)
    | _ =>
      if max_depth <? depth s then
        let ph := depth_placeholder (nid s) name in
        (ACreate, Some ph, add_ev EvDepth (reg name ph (set_state name PhDepth (bump s))))
      else if mem_str name (stack s) then
        let path := from_first name (stack s) ++ [name] in
        let direct := Nat.eqb (length path) 2 in     (* path[0] == path[1] holds by construction *)
        let self_ok := allow_self && direct in
        let ph := if self_ok then self_placeholder (nid s) name else cycle_placeholder (nid s) name in
        let s1 := bump s in
        let s2 := if self_ok then s1 else w_cycles (cycles s1 ++ [path]) s1 in
        if should_store name path direct then
          (ACreate, Some ph,
           add_ev EvCycleStored (set_state name (if self_ok then PhSelf else PhCycle) (reg name ph s2)))
        else (ACreate, Some ph, add_ev EvCycle s2)
      else (AContinue, None, set_state name InProgress s)
    end.

  (* unified_enter_schema *)
  Definition enter (name : option str) (s : st) : action * option ir * st :=
    let s1 := w_depth (depth s + 1) s in
    match name with
    | None => (AContinue, None, s1)
    | Some n =>
      let '(a, ph, s2) := cycle_check n s1 in
      match a with
      | AContinue => (a, ph, if nonempty n then w_stack (stack s2 ++ [n]) s2 else s2)
      | _ => (a, ph, s2)
      end
    end.

  (* unified_exit_schema *)
  Definition exit_schema (name : option str) (s : st) : st :=
    let s1 := if 0 <? depth s then w_depth (depth s - 1) s else s in
    match name with
    | None => s1
    | Some n =>
      if nonempty n then
        let s2 := if mem_str n (stack s1) then w_stack (remove_first n (stack s1)) s1 else s1 in
        match state_of s2 n with
        | InProgress => set_state n Completed s2
        | _ => s2
        end
      else s1
    end.

  (* ---------------- node predicates (what the `in node` / node.get("type") tests of the parser see) *)
  Definition is_simple_primitive (x : node) : bool := match x with Prim _ => true | _ => false end.
  Definition prim_typed (x : node) : bool := match x with Prim _ | EnumN => true | _ => false end.
  Definition is_ref (x : node) : bool := match x with Ref _ => true | _ => false end.
  Definition is_simple_array (x : node) : bool :=
    match x with Arr y => is_ref y || prim_typed y | _ => false end.
  Definition type_object (x : node) : bool := match x with Obj _ _ | MapN _ => true | _ => false end.

  Definition opt_str_eqb := opt_eqb str_eqb.
  Definition flagged (x : ir) : bool := i_unres x || i_depthm x || i_circ x.

  (* one_of/any_of parser: members that carry no information are dropped; empty result = None *)
  Definition vacuous (x : ir) : bool :=
    match i_ty x with
    | None => match i_props x, i_items x, i_anyof x, i_oneof x with
              | [], None, None, None => negb (i_enum x) && negb (i_allof x)
              | _, _, _, _ => false
              end
    | Some _ => false
    end.
  Definition filter_members (l : list ir) : option (list ir) :=
    match filter (fun x => negb (vacuous x)) l with [] => None | r => Some r end.

  Definition as_member (x : ir) : member := (i_props x, i_req x).

  (* prop_context_name of _parse_properties *)
  Definition prop_ctx_name (parent : option str) (key : str) : str :=
    let sp := cls key in
    match parent with
    | Some p => if nonempty p then (if prefixb (lower p) (lower sp) then sp else p ++ sp) else sp
    | None => sp
    end.

  Definition parent_truthy (parent : option str) : option str :=
    match parent with Some p => if nonempty p then Some p else None | None => None end.

  (* synthetic name for the recursive parse of `items` *)
  Fixpoint uniq_loop (fuel : nat) (orig : str) (c : N) (s : st) : str :=
    match fuel with
    | O => orig ++ dec2 c
    | Datatypes.S f => if registered (orig ++ dec2 c) s then uniq_loop f orig (c + 1) s else orig ++ dec2 c
    end.
  Definition item_name (name : option str) (x : node) (s : st) : option str :=
    if is_ref x || prim_typed x then None
    else
      let named := match name with Some n => nonempty n | None => false end in
      let base := match name with Some n => if nonempty n then n else s_AnonymousArray | None => s_AnonymousArray end in
      let n := cls (base ++ s_item_suffix) in
      if negb named && registered n s then Some (uniq_loop 60 n 2 s) else Some n.

  (* ---------------- one level of the parser, given the parser for strictly smaller fuel *)
  Section Step.
    Variable rec : option str -> node -> st -> ir * st.     (* _parse_schema *)

    (* _resolve_ref *)
    Definition resolve_ref (m : str) (s : st) : ir * st :=
      match alookup m (parsed s) with
      | Some e => if i_depthm e then
                    match alookup m S with
                    | None => (IR (nid s) (Some (cls m)) None [] [] None None None None false false false true false false,
                               add_ev EvUnresolved (bump s))
                    | Some nd => rec (Some m) nd s
                    end
                  else (e, s)
      | None =>
        match alookup m S with
        | None => (IR (nid s) (Some (cls m)) None [] [] None None None None false false false true false false,
                   add_ev EvUnresolved (bump s))
        | Some nd => rec (Some m) nd s
        end
      end.

    Fixpoint parse_list (l : list node) (s : st) : list ir * st :=
      match l with
      | [] => ([], s)
      | x :: r => let '(i, s1) := rec None x s in
                  let '(is_, s2) := parse_list r s1 in (i :: is_, s2)
      end.

    Definition parse_items (name : option str) (x : node) (s : st) : ir * st :=
      let iname := item_name name x s in
      let '(actual, s1) := rec iname x s in
      if type_object x && opt_str_eqb (i_name actual) iname then
        (blank (nid s1) None (option_map TyNamed (i_name actual)), bump s1)
      else (actual, s1).

    (* _parse_properties; acc = parsed_props so far (starts as the allOf-merged ones) *)
    Fixpoint parse_props (ps : list (str * node)) (parent : option str) (acc : list (str * ir)) (s : st)
      : list (str * ir) * st :=
      match ps with
      | [] => (acc, s)
      | (key, pn) :: r =>
        match alookup key acc with
        | Some _ => parse_props r parent acc s
        | None =>
          match pn with
          | Ref m => let '(v, s1) := resolve_ref m s in parse_props r parent (acc ++ [(key, v)]) s1
          | _ =>
            match pn, parent_truthy parent with
            | Obj _ _, Some p =>
              (* promotion of an inline object to <Parent><Prop> *)
              let pname := p ++ cls key in
              let '(pr, s1) := rec (Some pname) pn s in
              let holder := blank (nid s1) (Some (cls key)) (option_map TyNamed (i_name pr)) in
              let s2 := bump s1 in
              let s3 := if flagged pr then s2
                        else
                          let rk := match i_name pr with Some n => if nonempty n then n else pname | None => pname end in
                          let rk' := match alookup rk (parsed s2) with
                                     | Some e => if i_id e =? i_id pr then rk else pname
                                     | None => rk
                                     end in
                          reg rk' pr s2 in
              parse_props r parent (acc ++ [(key, holder)]) s3
            | _, _ =>
              let simple := is_simple_primitive pn || is_simple_array pn in
              let pname := if simple then None else Some (prop_ctx_name parent key) in
              let '(pr, s1) := rec pname pn s in
              let e := match pname with Some n => alookup n (parsed s1) | None => None end in
              let same_name := match pname with Some _ => opt_str_eqb (i_name pr) pname | None => false end in
              let identical := match e with Some x => i_id x =? i_id pr | None => false end in
              let kind_ok := match i_ty pr with
                             | Some TyObject => true
                             | Some TyArray => negb (is_simple_array pn)
                             | _ => false
                             end in
              let create_ref := same_name && identical && kind_ok && negb (flagged pr) && negb (is_simple_primitive pn) in
              let standalone := same_name && match e with Some _ => true | None => false end in
              if create_ref then
                let h := set_items (match i_ty pr with Some TyArray => i_items pr | _ => None end)
                                   (blank (nid s1) None (option_map TyNamed (i_name pr))) in
                parse_props r parent (acc ++ [(key, h)]) (bump s1)
              else if standalone then
                parse_props r parent (acc ++ [(key, blank (nid s1) None (option_map TyNamed (i_name pr)))]) (bump s1)
              else
                (* final_prop_ir.name = prop_name : mutation of the returned object *)
                let s2 := w_parsed (update_id (i_id pr) (set_name (Some key)) (parsed s1)) s1 in
                parse_props r parent (acc ++ [(key, set_name (Some key) pr)]) s2
            end
          end
        end
      end.

    (* the body of _parse_schema after CONTINUE_PARSING (inside try) *)
    Definition finish (name : option str) (x : ir) (s : st) : ir * st :=
      match name with
      | None => (x, s)
      | Some n =>
        if negb (nonempty n) then (x, s) else
        match (match alookup n (parsed s) with Some e => if i_circ e then Some e else None | None => None end) with
        | Some e => (e, add_ev EvShadowed s)          (* `existing is not schema_ir` always holds: schema_ir is fresh *)
        | None =>
          let is_prim := match i_ty x with Some (TyPrim _) => negb (i_enum x) | _ => false end in
          let top := match alookup n S with Some _ => true | None => false end in
          let s1 := if is_prim && negb top then s
                    else
                      (* key = schema_ir.name, or the raw name on collision: the same string on the name domain *)
                      let key := cls n in
                      let key' := if registered key s then n else key in
                      reg key' x (if registered key s then add_ev EvOverwrite s else s) in
          (* lines 904-921; since the fix of F02f only when self references are NOT allowed *)
          if allow_self then (x, s1) else
          match find (fun p => str_eqb (hd [] p) n && str_eqb (last p []) n && nonempty_list p) (cycles s1) with
          | Some p =>
            if Nat.eqb (length p) 2 || (Nat.eqb (length p) 3 && containsb s_mark_Item (nth 1 p [])) then
              (mark_circular x, add_ev EvMarked (w_parsed (update_id (i_id x) mark_circular (parsed s1)) s1))
            else (x, s1)
          | None => (x, s1)
          end
        end
      end.

    Definition parse_body (name : option str) (nd : node) (s : st) : ir * st :=
      let sname := match name with Some n => if nonempty n then Some (cls n) else None | None => None end in
      match nd with
      | Ref m =>
        let '(r, s1) := resolve_ref m s in
        match name with
        | Some n =>
          if nonempty n then
            (* since fix 635317b: names declared in components.schemas are exempt from the "pure reference" shortcut,
               so a top-level alias is registered under its own name as the resolved target object *)
            let declared_name := match alookup n S with Some _ => true | None => false end in
            let pure_ref := match i_name r with
                            | Some rn => nonempty rn && negb (str_eqb rn n) && registered rn s1 && negb declared_name
                            | None => false
                            end in
            if pure_ref then (r, s1)
            (* a depth placeholder under the alias name is replaced by the re-parse (follow-up of F02d) *)
            else if registered n s1 && negb (cut_off n s1) then (r, s1) else (r, reg n r s1)
          else (r, s1)
        | None => (r, s1)
        end
      | Obj ps rq =>
        let '(props, s1) := parse_props ps sname [] s in
        finish name (IR (nid s1) sname (Some TyObject) props rq None None None None false false false false false false)
               (bump s1)
      | Arr x =>
        let '(it, s1) := parse_items name x s in
        let id := nid s1 in
        (* items are parsed a second time after the IRSchema was built (schema_parser 782-844) *)
        let '(it2, s2) := parse_items name x (bump s1) in
        finish name (IR id sname (Some TyArray) [] [] (Some it2) None None None false false false false false false) s2
      | AnyOf l =>
        let '(ms, s1) := parse_list l s in
        let f := filter_members ms in
        finish name (IR (nid s1) sname (match f with Some _ => None | None => Some TyObject end) [] [] None None f None
                        false false false false false false) (bump s1)
      | OneOf l =>
        let '(ms, s1) := parse_list l s in
        let f := filter_members ms in
        finish name (IR (nid s1) sname (match f with Some _ => None | None => Some TyObject end) [] [] None None None f
                        false false false false false false) (bump s1)
      | AllOf l =>
        let '(ms, s1) := parse_list l s in
        let mem := map as_member ms in
        finish name (IR (nid s1) sname (Some TyObject) (merge_props mem) (merge_req [] mem) None None None None
                        (match ms with [] => false | _ => true end) false false false false false) (bump s1)
      | Prim k =>
        finish name (blank (nid s) sname (Some (TyPrim k))) (bump s)
      | EnumN =>
        finish name (IR (nid s) sname (Some (TyPrim PString)) [] [] None None None None false true false false false false)
               (bump s)
      | MapN x =>
        let '(ap, s1) := rec None x s in
        finish name (IR (nid s1) sname (Some TyObject) [] [] None (Some ap) None None false false false false false false)
               (bump s1)
      end.

    Definition step (name : option str) (nd : node) (s : st) : ir * st :=
      let '(a, ph, s1) := enter name s in
      let body (s' : st) := let '(r, s2) := parse_body name nd s' in (r, exit_schema name s2) in
      match a with
      | AContinue => body s1
      | AExisting =>
        let s2 := exit_schema name s1 in
        match name with
        | Some n =>
          if nonempty n then
            match alookup n (parsed s2) with
            | Some e => (e, add_ev EvExisting s2)
            | None => body (add_ev EvFallthrough (set_state n NotStarted s2))
            end
          else body s2
        | None => body s2
        end
      | APlaceholder =>
        let s2 := add_ev EvPlaceholder (exit_schema name s1) in
        match name with
        | Some n => match alookup n (parsed s2) with
                    | Some e => (e, s2)
                    | None => (blank (nid s2) (Some (cls n)) None, bump s2)
                    end
        | None => (blank (nid s2) None None, bump s2)
        end
      | ACreate =>
        let s2 := exit_schema name s1 in
        match ph with
        | Some p => (p, s2)
        | None => (blank (nid s2) None None, bump s2)   (* unreachable: CREATE always carries a placeholder *)
        end
      end.
  End Step.

  Fixpoint parse_schema (fuel : nat) (name : option str) (nd : node) (s : st) : ir * st :=
    match fuel with
    | O => (blank (nid s) None None, w_oof (bump s))
    | Datatypes.S f => step (parse_schema f) name nd s
    end.

  (* build_schemas (since the fix of F02d): a depth placeholder stored while parsing ANOTHER schema does not count as
     parsed; passes are repeated (at most len(raw_schemas)+1 times); before a schema is (re-)parsed its tracker state is dropped (schema_states.pop: modelled as NOT_STARTED,
     which is what a missing key reads as). *)
  Definition unparsed (k : str) (s : st) : bool :=
    match alookup k (parsed s) with Some e => i_depthm e | None => true end.

  Fixpoint build_pass (fuel : nat) (l : spec) (s : st) : st :=
    match l with
    | [] => s
    | (n, nd) :: r =>
      if unparsed n s && unparsed (cls n) s
      then build_pass fuel r (snd (parse_schema fuel (Some n) nd (set_state n NotStarted s)))
      else build_pass fuel r s
    end.

  (* passes (follow-up of F02d): the first pass visits every schema; later passes only the schemas that are registered
     as depth-limit placeholders; the loop stops when nothing is pending or a pass left the pending list unchanged *)
  Definition cutoff_b (s : st) (p : str * node) : bool := cut_off (fst p) s || cut_off (cls (fst p)) s.
  Definition is_nil {A} (l : list A) : bool := match l with [] => true | _ => false end.
  Definition same_names (prev : option spec) (pend : spec) : bool :=
    match prev with
    | None => false
    | Some p => list_eqb str_eqb (map fst p) (map fst pend)
    end.

  Fixpoint build_iter (k : nat) (fuel : nat) (pend : spec) (prev : option spec) (s : st) : st :=
    match k with
    | O => s
    | Datatypes.S k' =>
      if is_nil pend || same_names prev pend then s
      else let s1 := build_pass fuel pend s in
           build_iter k' fuel (filter (cutoff_b s1) S) (Some pend) s1
    end.
  Definition build (fuel : nat) (s : st) : st := build_iter (length S + 1) fuel S None s.
  Definition all_present (s : st) : bool :=
    forallb (fun p => registered (fst p) s || registered (cls (fst p)) s) S.
End WithConfig.


(* ------------------------------------------------------------------ whole document *)
Definition fuel_for (max_depth : N) : nat := N.to_nat max_depth + 50.

Definition parse_doc (max_depth : N) (S : spec) : st :=
  build max_depth S (fuel_for max_depth) st0.

(* ------------------------------------------------------------------ observation (the same function the harness applies
   to IRSpec.schemas): a property designates a model by name when its `type` is a schema name (holder) or when it is a
   named object other than a fresh inline one (those carry their own property key as name) *)
Inductive tyref :=
| TRef (n : str) | TList (t : tyref) | TPrim (k : prim) | TEnum | TInline (ks : list str) | TMap (t : tyref)
| TObject | TUnion (l : list tyref) | TAny.

Definition olist {A} (o : option (list A)) : list A := match o with Some l => l | None => [] end.

Fixpoint tyref_of (key : option str) (p : ir) {struct p} : tyref :=
  match p with
  | IR _ name ty props _ items ap anyof oneof _ enum _ _ _ _ =>
    match ty with
    | Some (TyNamed n) => TRef n
    | _ =>
      match (match name with Some nm => if opt_eqb str_eqb (Some nm) key then None else Some nm | None => None end) with
      | Some nm => TRef nm
      | None =>
        match ty with
        | Some TyArray => TList (match items with Some it => tyref_of None it | None => TAny end)
        | Some (TyPrim k) => if enum then TEnum else TPrim k
        | Some TyObject =>
          match props with
          | _ :: _ => TInline (map fst props)
          | [] => match ap with Some a => TMap (tyref_of None a) | None => TObject end
          end
        | Some (TyNamed n) => TRef n
        | None =>
          match anyof, oneof with
          | None, None => TAny
          | _, _ => TUnion ((match anyof with Some l => map (tyref_of None) l | None => [] end)
                            ++ (match oneof with Some l => map (tyref_of None) l | None => [] end))
          end
        end
      end
    end
  end.

(* structural kind of a registered schema itself (its own name is not a reference) *)
Definition struct_of (p : ir) : tyref :=
  match i_ty p with
  | Some (TyNamed n) => TRef n
  | _ => tyref_of (i_name p) (set_name (i_name p) p)
  end.

Definition flags_of (p : ir) : N :=
  (if i_circ p then 1 else 0) + (if i_unres p then 2 else 0) + (if i_depthm p then 4 else 0) + (if i_stub p then 8 else 0).

Definition field : Type := (str * bool * tyref)%type.
Definition fields_of (e : ir) : list field :=
  map (fun kv => (fst kv, mem_str (fst kv) (i_req e), tyref_of (Some (fst kv)) (snd kv))) (i_props e).

Definition sobs : Type := (str * option str * N * tyref * list field)%type.
Definition observe (s : st) : list sobs :=
  map (fun kv => (fst kv, i_name (snd kv), flags_of (snd kv), struct_of (snd kv), fields_of (snd kv))) (parsed s).

(* inl observation | inr 1 = RuntimeError "was not parsed" | inr 3 = model out of fuel *)
Definition run_doc (max_depth : N) (S : spec) : list sobs + N :=
  let s := parse_doc max_depth S in
  if oof s then inr 3 else if all_present S s then inl (observe s) else inr 1.

(* the fields the model gives to schema n *)
Definition model_fields (s : st) (n : str) : option (list field) :=
  match alookup n (parsed s) with Some e => Some (fields_of e) | None => None end.

(* ------------------------------------------------------------------ executable guards *)
Definition has_ev (e : event) (s : st) : bool := existsb (event_eqb e) (events s).

(* names under which nodes are parsed (tracker keys / registry keys), statically, without the items re-parse *)
Fixpoint named_parses (name : option str) (nd : node) {struct nd} : list str :=
  (match name with Some n => [n] | None => [] end) ++
  match nd with
  | Obj ps _ =>
    (fix go (ps : list (str * node)) : list str :=
       match ps with
       | [] => []
       | (key, pn) :: r =>
         (match pn with
          | Ref _ => []
          | Obj _ _ =>
            match parent_truthy name with
            | Some p => named_parses (Some (p ++ cls key)) pn
            | None => named_parses (Some (prop_ctx_name name key)) pn
            end
          | _ => if is_simple_primitive pn || is_simple_array pn then named_parses None pn
                 else named_parses (Some (prop_ctx_name name key)) pn
          end) ++ go r
       end) ps
  | Arr x =>
    if is_ref x || prim_typed x then named_parses None x
    else named_parses (Some (cls ((match parent_truthy name with Some n => n | None => s_AnonymousArray end)
                                  ++ s_item_suffix))) x
  | OneOf l | AnyOf l | AllOf l =>
    (fix go (l : list node) : list str := match l with [] => [] | x :: r => named_parses None x ++ go r end) l
  | MapN x => named_parses None x
  | _ => []
  end.

Fixpoint nodup_strs (l : list str) : bool :=
  match l with [] => true | x :: r => negb (mem_str x r) && nodup_strs r end.

Definition all_named (S : spec) : list str := concat (map (fun p => named_parses (Some (fst p)) (snd p)) S).
(* no_name_capture: no two nodes (declared or inline) are parsed under the same name *)
Definition no_capture (S : spec) : bool := nodup_strs (all_named S).

Definition guard_F02a (s : st) : bool := negb (has_ev EvCycleStored s) && negb (has_ev EvShadowed s).
Definition guard_F02b (S : spec) : bool := no_capture S.
Definition guard_F02c (s : st) : bool := negb (has_ev EvCycle s).
(* since the fix of F02d a DECLARED schema cut off at the depth limit is parsed again from depth 0 by build_schemas, so
   the placeholder no longer replaces its model; the placeholder object itself is still what the reference that hit
   the limit got (lossy when that reference is an allOf parent) and inline (synthetic) names are never re-parsed *)
Definition guard_F02d (s : st) : bool := negb (has_ev EvDepth s).

(* ------------------------------------------------------------------ the property's own statement: declared fields.
   INDEPENDENT reference semantics (no tracker, no registry): the fields of a schema are its own properties plus those
   inherited through allOf, resolved by plain recursion; a property's type is what its node says. *)
Fixpoint ty_of (x : node) {struct x} : tyref :=
  match x with
  | Ref m => TRef m
  | Prim k => TPrim k
  | EnumN => TEnum
  | Arr y => TList (ty_of y)
  | MapN y => TMap (ty_of y)
  | OneOf l | AnyOf l => TUnion ((fix go (l : list node) := match l with [] => [] | y :: r => ty_of y :: go r end) l)
  | Obj ps _ => TInline (map fst ps)
  | AllOf _ => TObject
  end.

Definition dmember : Type := @member tyref.

(* the type a property denotes, given the (sanitised) name of the schema it belongs to: an inline object property is
   promoted to the schema <Parent><Prop> and the property refers to it *)
Definition ty_of_prop (parent : option str) (key : str) (x : node) : tyref :=
  match x with
  | Obj _ _ => match parent_truthy parent with Some p => TRef (p ++ cls key) | None => ty_of x end
  | _ => ty_of x
  end.

Fixpoint decl_members (rec : node -> option dmember) (l : list node) (acc : list dmember) : option dmember :=
  match l with
  | [] => Some (merge_props (rev acc), merge_req [] (rev acc))
  | x :: r => match rec x with Some m => decl_members rec r (m :: acc) | None => None end
  end.

Fixpoint decl_node (fuel : nat) (S : spec) (parent : option str) (nd : node) {struct fuel} : option dmember :=
  match fuel with
  | O => None
  | Datatypes.S f =>
    match nd with
    | Obj ps rq => Some (merge_into [] (map (fun kv => (fst kv, ty_of_prop parent (fst kv) (snd kv))) ps), rq)
    | Ref m => match alookup m S with
               | Some nd' => decl_node f S (Some m) nd'
               | None => Some ([], [])
               end
    | AllOf l => decl_members (decl_node f S None) l []
    | _ => Some ([], [])
    end
  end.

Definition fields_of_member (m : dmember) : list field :=
  map (fun kt => (fst kt, mem_str (fst kt) (snd m), snd kt)) (fst m).

Definition declared_f (fuel : nat) (S : spec) (n : str) : option (list field) :=
  match alookup n S with
  | Some nd => option_map fields_of_member (decl_node fuel S (Some n) nd)
  | None => None
  end.
Definition declared (S : spec) (n : str) : option (list field) := declared_f (2 * length S + 2) S n.

(* ------------------------------------------------------------------ decidable equality of observations *)
Definition prim_eqb (a b : prim) : bool :=
  match a, b with
  | PString, PString | PInteger, PInteger | PNumber, PNumber | PBoolean, PBoolean => true
  | _, _ => false
  end.

Fixpoint tyref_eqb (a b : tyref) {struct a} : bool :=
  match a, b with
  | TRef x, TRef y => str_eqb x y
  | TList x, TList y => tyref_eqb x y
  | TPrim x, TPrim y => prim_eqb x y
  | TEnum, TEnum => true
  | TInline x, TInline y => list_eqb str_eqb x y
  | TMap x, TMap y => tyref_eqb x y
  | TObject, TObject => true
  | TUnion x, TUnion y =>
    (fix go (x y : list tyref) : bool :=
       match x, y with
       | [], [] => true
       | p :: x', q :: y' => tyref_eqb p q && go x' y'
       | _, _ => false
       end) x y
  | TAny, TAny => true
  | _, _ => false
  end.

Definition field_eqb (a b : field) : bool :=
  str_eqb (fst (fst a)) (fst (fst b)) && Bool.eqb (snd (fst a)) (snd (fst b)) && tyref_eqb (snd a) (snd b).


(* ------------------------------------------------------------------ the property for one declared schema n:
   it has a model, the model is not a placeholder, and its fields are exactly the declared ones *)
Definition faithful (S : spec) (s : st) (n : str) : Prop :=
  exists e, alookup n (parsed s) = Some e /\ flags_of e = 0 /\ exists f, declared_f f S n = Some (fields_of e).

Definition faithful_b (S : spec) (s : st) (n : str) : bool :=
  match alookup n (parsed s), declared S n with
  | Some e, Some d => (flags_of e =? 0) && list_eqb field_eqb d (fields_of e)
  | _, _ => false
  end.

(* ------------------------------------------------------------------ the fragment C02_partial is proved for (executable):
   properties are $refs, primitives or arrays of ($ref | primitive | enum); top-level schemas are such objects, allOf
   over ($ref | such object), primitives, enums or arrays of ($ref | primitive | enum); declared names are unique,
   non-empty, fixed by [cls], and no property key is a declared name.  No inline objects => no synthetic names. *)
Definition core_item (x : node) : bool := match x with Ref _ | Prim _ | EnumN => true | _ => false end.
Definition core_prop (x : node) : bool :=
  match x with Ref _ | Prim _ => true | Arr y => core_item y | _ => false end.
Definition core_obj (x : node) : bool :=
  match x with Obj ps _ => forallb (fun kv => core_prop (snd kv)) ps | _ => false end.
Definition core_member (x : node) : bool := is_ref x || core_obj x || prim_typed x.
Definition core_top (x : node) : bool :=
  match x with
  | Obj _ _ => core_obj x
  | AllOf l => forallb core_member l
  | Prim _ | EnumN => true
  | Arr y => core_item y
  | MapN y => core_item y                       (* top-level map of ($ref | primitive | enum) *)
  | OneOf l | AnyOf l => forallb core_item l    (* top-level union of ($ref | primitive | enum) *)
  | _ => false
  end.
Fixpoint prop_keys (x : node) : list str :=
  match x with
  | Obj ps _ => map fst ps
  | AllOf l => (fix go l := match l with [] => [] | y :: r => prop_keys y ++ go r end) l
  | _ => []
  end.
Definition core_spec (S : spec) : bool :=
  forallb (fun p => core_top (snd p) && str_eqb (cls (fst p)) (fst p) && nonempty (fst p)
                    && forallb (fun k => negb (mem_str k (map fst S))) (prop_keys (snd p))) S
  && nodup_strs (map fst S).

(* ------------------------------------------------------------------ static guard of C02_partial: acyclic references.
   [rk] is a rank witness: every $ref points to a declared schema of strictly smaller rank; the depth condition says
   the deepest $ref chain (4 parser frames per hop at most) stays within the depth limit. *)
Fixpoint refs (nd : node) {struct nd} : list str :=
  match nd with
  | Ref m => [m]
  | Obj ps _ => (fix go (ps : list (str * node)) := match ps with [] => [] | (_, x) :: r => refs x ++ go r end) ps
  | Arr y | MapN y => refs y
  | OneOf l | AnyOf l | AllOf l => (fix go (l : list node) := match l with [] => [] | x :: r => refs x ++ go r end) l
  | _ => []
  end.
Definition rank_of (rk : list (str * nat)) (n : str) : nat := match alookup n rk with Some k => k | None => O end.
(* every $ref points to a declared schema of strictly smaller rank: the reference graph is acyclic *)
Definition ranked_b (rk : list (str * nat)) (S : spec) : bool :=
  forallb (fun p => forallb (fun m => match alookup m S with Some _ => true | None => false end
                                      && Nat.ltb (rank_of rk m) (rank_of rk (fst p))) (refs (snd p))) S.
Definition depth_ok (rk : list (str * nat)) (S : spec) (md : N) : bool :=
  forallb (fun p => (4 * N.of_nat (rank_of rk (fst p)) + 4 <=? md)%N) S.


(* ------------------------------------------------------------------ structural kind of a schema's own model:
   "typed with the structural kind the spec gives" for the schema itself (unions are not claimed: members that carry no
   information are filtered out by the oneOf/anyOf parser) *)
Definition kind_ok (nd : node) (e : ir) : Prop :=
  match nd with
  | Obj _ _ | AllOf _ => i_ty e = Some TyObject /\ i_anyof e = None /\ i_oneof e = None /\ i_enum e = false
  | Arr y => struct_of e = TList (ty_of y)
  | MapN y => struct_of e = TMap (ty_of y)
  | Prim k => struct_of e = TPrim k
  | EnumN => struct_of e = TEnum
  | _ => True
  end.

(* ------------------------------------------------------------------ one level of inline object properties.
   An inline object property `key` of a top-level object schema n is promoted to the schema n ++ cls key (registered under
   that synthetic name); [nt] is the name table: declared schemas followed by the promoted inline objects.
   [inl_spec] widens [core_spec]: properties of a top-level object may also be inline objects of core properties; the
   executable negation of name capture is that all names of the table are distinct, and no property key is one of them. *)
Definition is_obj (x : node) : bool := match x with Obj _ _ => true | _ => false end.
Definition inl_prop (x : node) : bool := core_prop x || core_obj x.
Definition inl_obj (x : node) : bool :=
  match x with Obj ps _ => forallb (fun kv => inl_prop (snd kv)) ps | _ => false end.
Definition inl_top (x : node) : bool := match x with Obj _ _ => inl_obj x | _ => core_top x end.
Definition syn_of (p : str) (nd : node) : spec :=
  match nd with
  | Obj ps _ => flat_map (fun kv => if is_obj (snd kv) then [(p ++ cls (fst kv), snd kv)] else []) ps
  | _ => []
  end.
Definition nt (S : spec) : spec := S ++ flat_map (fun p => syn_of (fst p) (snd p)) S.
Definition deep_keys (x : node) : list str :=
  prop_keys x ++
  match x with
  | Obj ps _ => flat_map (fun kv => if is_obj (snd kv) then prop_keys (snd kv) else []) ps
  | _ => []
  end.
Definition inl_spec (S : spec) : bool :=
  forallb (fun p => inl_top (snd p) && str_eqb (cls (fst p)) (fst p) && nonempty (fst p)
                    && forallb (fun k => negb (mem_str k (map fst (nt S)))) (deep_keys (snd p))
                    && forallb (fun m => mem_str m (map fst S)) (refs (snd p))) S     (* every $ref is declared *)
  && nodup_strs (map fst (nt S)).
