(* C04 — behavioural model of one generated endpoint method: (operation, argument assignment) -> the
   single request handed to httpx, transcribed from
     visit/endpoint/processors/parameter_processor.py   (ordered_params, body variable, stable sort)
     visit/endpoint/generators/signature_generator.py    (python argument names)
     visit/endpoint/generators/url_args_generator.py     (path serialisation, f-string URL, params / headers dicts)
     visit/endpoint/generators/request_generator.py      (params= / json= / files= / data= / headers=)
     visit/endpoint/generators/endpoint_method_generator.py + overload_generator.py  (>= 2 content types:
         implementation signature and the runtime dispatch, which passes params=None, headers=None)
     core/utils.py DataclassSerializer.serialize on parameter values (str/int subclasses — generated Enum
         members — are returned unchanged)
   and, as the documented behaviour of httpx 0.28 (trusted, observed through MockTransport):
     query value -> str (True/False -> "true"/"false", None -> "", list -> one entry per item, else str());
     header value must be str (str subclasses are sent raw), anything else raises TypeError;
     json= -> Content-Type application/json; files= -> multipart/form-data; data=dict -> form-urlencoded;
     content=bytes -> raw content without a Content-Type of its own (the generator adds the header);
     cookies=dict -> Cookie header, values must be str;
     urllib.parse.quote(v, safe="") / the server's unquote: a quoted value is ONE path segment.
   The open defects are kept (F04c, F04d, F04j, F04k); F04a, F04b, F04e, F04f, F04g, F04h, F04i are fixed in the code
   and the model transcribes the fixed code.  No proofs in this file. *)
From PG Require Import Lib.Strs.
From PG Require Export Gen.T_C04.

(* ------------------------------------------------------------------ operations *)
Inductive loc := Path | Query | Header | Cookie.
Definition loc_eqb (a b : loc) : bool :=
  match a, b with
  | Path, Path | Query, Query | Header, Header | Cookie, Cookie => true
  | _, _ => false
  end.

Inductive seg := Lit (s : str) | Var (name : str).
Inductive ty := TStr | TInt | TBool | TEnum | TDate | TDateTime.

Record param := { p_name : str; p_loc : loc; p_required : bool; p_ty : ty; p_array : bool }.

(* o_method: the upper-case method token; o_params: path-level parameters followed by operation-level
   ones (core/loader/operations/parser.py concatenates them); o_body: the request content types in
   document order ([] = no requestBody) *)
Record op := { o_method : str; o_path : list seg; o_params : list param;
               o_body : list str; o_body_required : bool }.

(* ------------------------------------------------------------------ caller's values *)
(* Leaf renderings are inputs (oracles): VInt carries str(n); VEnum carries .value rendered and
   str(member) (= "Class.MEMBER" for the generated (str|int, Enum) classes); VDate carries isoformat()
   (= str(d)); VDateTime carries isoformat() and str(dt). *)
Inductive scalar :=
| VStr (s : str) | VInt (dec : str) | VBool (b : bool)
| VEnum (is_str : bool) (val fmt : str) | VDate (iso : str) | VDateTime (iso pystr : str).
Inductive value := Sc (s : scalar) | Arr (l : list scalar).

(* body argument: BJson j = a JSON-able argument identified by the canonical JSON text of its
   serialisation (DataclassSerializer itself is C16's subject); BFiles = dict name -> file content;
   BForm = dict[str,str]; BBytes = bytes *)
Inductive bval := BJson (j : str) | BFiles (fs : list (str * str)) | BForm (kv : list (str * str)) | BBytes (b : str).

(* an argument assignment: values for some of the declared parameters (keyed by location and ORIGINAL
   name) and, optionally, a body for one of the declared content types *)
Record args := { a_params : list (loc * str * value); a_body : option (str * bval) }.

Fixpoint arg_of (l : list (loc * str * value)) (lc : loc) (n : str) : option value :=
  match l with
  | [] => None
  | (lc', n', v) :: r => if loc_eqb lc lc' && str_eqb n n' then Some v else arg_of r lc n
  end.

(* ------------------------------------------------------------------ the observable request *)
Inductive bobs := ONone | OJson (j : str) | OFiles (fs : list (str * str)) | OForm (kv : list (str * str)) | OBytes (b : str).
(* r_segs: the decoded segments of the RAW path, i.e. the path as a router sees it;
   r_headers: the per-request headers the client hands to the transport, names as written by the
   generator (httpx lower-cases them on the wire; the correspondence compares modulo that) *)
Record request := { r_method : str; r_segs : list str; r_query : list (str * str); r_headers : list (str * str);
                    r_cookies : list (str * str); r_ctype : option str; r_body : bobs }.

(* ------------------------------------------------------------------ python values and renderings *)
Inductive pyval := PNone | PV (v : value) | PB (b : bval).

Definition s_True : str := [84;114;117;101].
Definition s_False : str := [70;97;108;115;101].
Definition s_true : str := [116;114;117;101].
Definition s_false : str := [102;97;108;115;101].
Definition s_None : str := [78;111;110;101].

(* DataclassSerializer.serialize on a parameter value: Enum members -> their value (checked before the
   primitives); str/int/float/bool unchanged; date/datetime -> isoformat; lists recurse *)
Definition ser_scalar (s : scalar) : scalar :=
  match s with
  | VEnum true v _ => VStr v
  | VEnum false v _ => VInt v
  | VDate iso => VStr iso
  | VDateTime iso _ => VStr iso
  | _ => s
  end.
Definition ser_value (v : value) : value :=
  match v with Sc s => Sc (ser_scalar s) | Arr l => Arr (map ser_scalar l) end.
Definition ser_py (p : pyval) : pyval := match p with PV v => PV (ser_value v) | _ => p end.

(* f"{x}" *)
Definition fmt_scalar (s : scalar) : str :=
  match s with
  | VStr s => s | VInt d => d | VBool b => if b then s_True else s_False
  | VEnum _ _ f => f | VDate iso => iso | VDateTime _ ps => ps
  end.
(* list / body objects inside an f-string are outside the model (None) *)
Definition fmt_py (p : pyval) : option str :=
  match p with
  | PNone => Some s_None
  | PV (Sc s) => Some (fmt_scalar s)
  | _ => None
  end.

(* core/utils.py serialize_simple on a serialised value (OpenAPI `simple` style): booleans -> true/false,
   lists comma-joined, everything else str() *)
Definition comma : str := [44].
Definition simple_scalar (s : scalar) : str :=
  match s with VBool b => if b then s_true else s_false | _ => fmt_scalar s end.
Definition simple_py (p : pyval) : option str :=
  match p with
  | PNone => Some s_None
  | PV (Sc s) => Some (simple_scalar s)
  | PV (Arr l) => Some (join comma (map simple_scalar l))
  | PB _ => None
  end.

(* httpx primitive_value_to_str *)
Definition q_scalar (s : scalar) : str :=
  match s with
  | VStr s => s | VInt d => d | VBool b => if b then s_true else s_false
  | VEnum _ _ f => f | VDate iso => iso | VDateTime _ ps => ps
  end.
Definition q_py (p : pyval) : list str :=
  match p with
  | PNone => [[]]
  | PV (Sc s) => [q_scalar s]
  | PV (Arr l) => map q_scalar l
  | PB _ => []
  end.

(* header / cookie value: headers = {name: serialize_simple(value) ...} makes every value a str *)
Definition h_py (p : pyval) : option str := simple_py p.

(* json.dumps(separators=(",",":")) of a parameter value that ended up as the JSON body (F04d);
   exact for strings without characters that need escaping *)
Definition dq : str := [34].
Definition json_scalar (s : scalar) : str :=
  match s with
  | VStr s => dq ++ s ++ dq
  | VInt d => d
  | VBool b => if b then s_true else s_false
  | VEnum true v _ => dq ++ v ++ dq
  | VEnum false v _ => v
  | VDate iso => dq ++ iso ++ dq
  | VDateTime iso _ => dq ++ iso ++ dq
  end.
Definition json_value (v : value) : str :=
  match v with
  | Sc s => json_scalar s
  | Arr l => [91] ++ join [44] (map json_scalar l) ++ [93]
  end.

(* what httpx puts on the wire for the body keyword the generator chose *)
Definition wire_files (fs : list (str * str)) : option str * bobs :=
  match fs with [] => (None, ONone) | _ => (Some s_multipart, OFiles fs) end.
Definition wire_form (kv : list (str * str)) : option str * bobs :=
  match kv with [] => (None, ONone) | _ => (Some s_form, OForm kv) end.
(* content=bytes with headers {"Content-Type": ct} (added whenever the bytes argument is not None) *)
Definition wire_bytes (ct : str) (b : str) : option str * bobs :=
  match b with [] => (Some ct, ONone) | _ => (Some ct, OBytes b) end.

Inductive ckind := KJson | KMultipart | KForm | KOther.
Definition kind_of (ct : str) : ckind :=
  if str_eqb ct s_json then KJson else if str_eqb ct s_multipart then KMultipart
  else if str_eqb ct s_form then KForm else KOther.

(* json=serialize(x) *)
Definition send_json (x : pyval) : option (option str * bobs) :=
  match x with
  | PNone => Some (None, ONone)
  | PB (BJson j) => Some (Some s_json, OJson j)
  | PV v => Some (Some s_json, OJson (json_value (ser_value v)))
  | PB _ => None
  end.
Definition send_files (x : pyval) : option (option str * bobs) :=
  match x with
  | PNone => Some (None, ONone)
  | PB (BFiles fs) => Some (wire_files fs)
  | _ => None
  end.
Definition send_form (x : pyval) : option (option str * bobs) :=
  match x with
  | PNone => Some (None, ONone)
  | PB (BForm kv) => Some (wire_form kv)
  | _ => None
  end.
Definition send_bytes (ct : str) (x : pyval) : option (option str * bobs) :=
  match x with
  | PNone => Some (None, ONone)
  | PB (BBytes b) => Some (wire_bytes ct b)
  | _ => None
  end.

Fixpoint nodup_str (l : list str) : bool :=
  match l with
  | [] => true
  | x :: r => negb (mem_str x r) && nodup_str r
  end.

Fixpoint opt_concat (l : list (option str)) : option str :=
  match l with
  | [] => Some []
  | None :: _ => None
  | Some s :: r => match opt_concat r with Some t => Some (s ++ t) | None => None end
  end.

Fixpoint opt_all {A} (l : list (option A)) : option (list A) :=
  match l with
  | [] => Some []
  | None :: _ => None
  | Some s :: r => match opt_all r with Some t => Some (s :: t) | None => None end
  end.

Fixpoint path_vars (p : list seg) : list str :=
  match p with
  | [] => []
  | Lit _ :: r => path_vars r
  | Var v :: r => v :: path_vars r
  end.

(* path segments: what a server's router sees.  [segments] splits the (decoded) path at '/';
   [segs_tok] is the intended segmentation: template literals are split at '/', a parameter value is
   ONE piece of a segment whatever characters it contains *)
Definition slash : N := 47.
Fixpoint split_acc (acc s : str) : list str :=
  match s with
  | [] => [acc]
  | c :: r => if c =? slash then acc :: split_acc [] r else split_acc (acc ++ [c]) r
  end.
Definition segments (s : str) : list str := split_acc [] s.

Inductive tok := TSep | TCh (c : N) | TAtom (s : str).
Fixpoint segs_tok (acc : str) (l : list tok) : list str :=
  match l with
  | [] => [acc]
  | TSep :: r => acc :: segs_tok [] r
  | TCh c :: r => segs_tok (acc ++ [c]) r
  | TAtom s :: r => segs_tok (acc ++ s) r
  end.
Definition toks_of_lit (t : str) : list tok := map (fun c => if c =? slash then TSep else TCh c) t.
Definition tok_str (t : tok) : str := match t with TSep => [slash] | TCh c => [c] | TAtom s => s end.
Definition flatten (l : list tok) : str := flat_map tok_str l.

(* httpx normalize_path (RFC 3986 5.2.4) on the path components: "." is dropped, ".." pops the last
   component unless the output is empty or [""]; an empty result path is sent as "/" *)
Definition s_dot : str := [46].
Definition s_dotdot : str := [46;46].
Fixpoint norm_acc (out : list str) (l : list str) : list str :=      (* [out] is reversed *)
  match l with
  | [] => rev out
  | c :: r =>
      if str_eqb c s_dot then norm_acc out r
      else if str_eqb c s_dotdot
           then norm_acc (match out with
                          | [] => []
                          | [x] => if str_eqb x [] then [x] else []
                          | _ :: t => t
                          end) r
           else norm_acc (c :: out) r
  end.
Definition fix_empty (l : list str) : list str := match l with [[]] => [[]; []] | _ => l end.
Definition normalize (l : list str) : list str := fix_empty (norm_acc [] l).
Definition not_dot (c : str) : bool := negb (str_eqb c s_dot || str_eqb c s_dotdot).

Definition env := list (str * pyval).
Definition env_get (e : env) (x : str) : pyval := match alookup x e with Some v => v | None => PNone end.

(* core/loader/operations/parser.py: the operation's parameter list = the path-level parameters, then each
   operation-level parameter REPLACES, in place, the first parameter already in the list with the same
   (name, in), or is appended *)
Definition same_key (p q : param) : bool := loc_eqb (p_loc p) (p_loc q) && str_eqb (p_name p) (p_name q).
Fixpoint replace_first (p : param) (l : list param) : option (list param) :=
  match l with
  | [] => None
  | q :: r => if same_key p q then Some (p :: r)
              else match replace_first p r with Some r' => Some (q :: r') | None => None end
  end.
Definition add_param (l : list param) (p : param) : list param :=
  match replace_first p l with Some l' => l' | None => l ++ [p] end.
Definition merge_params (path_level op_level : list param) : list param := fold_left add_param op_level path_level.
Definition with_params (o : op) (ps : list param) : op :=
  {| o_method := o_method o; o_path := o_path o; o_params := ps; o_body := o_body o;
     o_body_required := o_body_required o |}.

(* a path item: its path-level parameters and its operations (each with its own operation-level
   parameters, o_params left empty).  EVERY operation of the item inherits the path-level list *)
Record path_item := { pi_params : list param; pi_ops : list (op * list param) }.
Definition item_ops (it : path_item) : list op :=
  map (fun x => with_params (fst x) (merge_params (pi_params it) (snd x))) (pi_ops it).
Definition no_op : op :=
  {| o_method := []; o_path := []; o_params := []; o_body := []; o_body_required := false |}.

(* a finite table for sanitize_method_name (identity outside the table) *)
Definition mn_of (tbl : list (str * str)) (s : str) : str :=
  match alookup s tbl with Some x => x | None => s end.

(* ================================================================== the generator, as data *)
Section Wire.
  (* NameSanitizer.sanitize_method_name (C20's subject): instantiated in the correspondence run by the
     real function's table for the strings that occur *)
  Variable mn : str -> str.

  Inductive pin := InParam (l : loc) | InBody.
  (* one entry of parameter_processor's ordered_params *)
  Record info := { i_name : str; i_required : bool; i_in : pin; i_orig : str }.

  Definition is_in (l : loc) (i : info) : bool :=
    match i_in i with InParam l' => loc_eqb l l' | InBody => false end.

  Definition info_of_param (p : param) : info :=
    {| i_name := mn (p_name p); i_required := p_required p; i_in := InParam (p_loc p); i_orig := p_name p |}.

  (* primary content type: multipart > json > form > first *)
  Definition primary (cts : list str) : option str :=
    if mem_str s_multipart cts then Some s_multipart
    else if mem_str s_json cts then Some s_json
    else if mem_str s_form cts then Some s_form
    else match cts with c :: _ => Some c | [] => None end.

  Definition body_var_std (ct : str) : str :=
    match kind_of ct with
    | KMultipart => v_std_multipart | KJson => v_std_json | KForm => v_std_form | KOther => v_std_other
    end.

  (* the body parameter is appended unless its name is already taken by a parameter (then it is
     DROPPED with a log line — F04d) *)
  Definition with_body (o : op) (l : list info) : list info :=
    match primary (o_body o) with
    | None => l
    | Some ct =>
        let n := body_var_std ct in
        if mem_str n (map i_name l) then l
        else l ++ [{| i_name := n; i_required := o_body_required o; i_in := InBody; i_orig := n |}]
    end.

  (* _ensure_path_variables_as_params (iteration order of the set of undeclared variables is not
     modelled: the well-formedness condition of the theorems has every variable declared) *)
  Fixpoint add_path_vars (vars : list str) (l : list info) : list info :=
    match vars with
    | [] => l
    | v :: r =>
        let n := mn v in
        if mem_str n (map i_name l) then add_path_vars r l
        else add_path_vars r (l ++ [{| i_name := n; i_required := true; i_in := InParam Path; i_orig := v |}])
    end.

  (* list.sort(key=lambda p: not p["required"]) — stable *)
  Definition stable_required_first (l : list info) : list info :=
    filter i_required l ++ filter (fun i => negb (i_required i)) l.

  Definition ordered (o : op) : list info :=
    stable_required_first
      (add_path_vars (path_vars (o_path o)) (with_body o (map info_of_param (o_params o)))).

  (* the python name the signature generator writes: sanitize_method_name(p["name"]) *)
  Definition pyname (i : info) : str := mn (i_name i).

  Inductive useg := ULit (s : str) | UVar (py : str).
  Inductive body_plan :=
  | BPNone                                  (* json=None, data=None *)
  | BPStd (k : ckind) (var : str) (ct : str)  (* json=serialize(var) | files=serialize(var) | data=serialize(var) | content=var + Content-Type ct *)
  | BPDispatch (branches : list (str * ckind)) (optional : bool).
      (* if var is not None: … elif … else: raise ValueError (required body) | request without a body *)

  (* what the generator emits for one operation *)
  Record plan := {
    pl_sig : list str;                         (* argument names after self, in order; duplicates = SyntaxError *)
    pl_bind : list (str * pin * str);          (* python name <- (where it comes from, original name) *)
    pl_accepts_cookie : bool;                  (* cookie parameters are part of the signature *)
    pl_path_ser : list str;                    (* x = quote(str(DataclassSerializer.serialize(x)), safe="") before the URL *)
    pl_url : list useg;
    pl_params : option (list (str * str * bool));   (* key, python name, required;  None = params=None *)
    pl_headers : option (list (str * str * bool));
    pl_cookies : option (list (str * str * bool));  (* None = no cookies= argument *)
    pl_body : body_plan }.

  Definition url_plan (p : list seg) : list useg :=
    map (fun s => match s with Lit t => ULit t | Var v => UVar (mn v) end) p.

  Definition dict_plan (l : loc) (is : list info) : list (str * str * bool) :=
    map (fun i => (i_orig i, pyname i, i_required i)) (filter (is_in l) is).

  Definition plan_std (o : op) : plan :=
    let is := ordered o in
    {| pl_sig := v_self :: map pyname is;
       pl_bind := map (fun i => (pyname i, i_in i, i_orig i)) is;
       pl_accepts_cookie := true;
       pl_path_ser := map pyname (filter (is_in Path) is);
       pl_url := url_plan (o_path o);
       pl_params := if existsb (fun p => loc_eqb (p_loc p) Query) (o_params o)
                    then Some (dict_plan Query is) else None;
       pl_headers := if existsb (is_in Header) is then Some (dict_plan Header is) else None;
       pl_cookies := if existsb (fun p => loc_eqb (p_loc p) Cookie) (o_params o)
                     then Some (dict_plan Cookie is) else None;
       pl_body := match primary (o_body o) with
                  | None => BPNone
                  | Some ct => BPStd (kind_of ct) (body_var_std ct) ct
                  end |}.

  Definition body_var_multi (ct : str) : str :=
    match kind_of ct with
    | KJson => v_multi_json | KMultipart => v_multi_multipart | KForm => v_multi_form | KOther => v_multi_other
    end.

  Fixpoint dedup (l : list str) (seen : list str) : list str :=
    match l with
    | [] => []
    | x :: r => if mem_str x seen then dedup r seen else x :: dedup r (x :: seen)
    end.

  Definition nonbody (is : list info) : list info :=
    filter (fun i => match i_in i with InBody => false | InParam _ => true end) is.

  (* >= 2 content types: generate_implementation_signature (every parameter, cookies included, in
     document order and without defaults; then the body keywords; `content_type` is accepted and
     ignored) + _generate_implementation_method: the URL / params / headers / cookies are emitted by the
     SAME generate_url_and_args as in the standard method, from ordered_params without the body entry,
     and passed on every dispatch branch; with an optional request body the final else sends the request
     without a body *)
  Definition plan_multi (o : op) : plan :=
    let ps := o_params o in
    let bvars := dedup (map body_var_multi (o_body o)) [] in
    let is := nonbody (ordered o) in
    {| pl_sig := v_self :: map (fun p => mn (p_name p)) ps ++ bvars ++ [v_content_type];
       pl_bind := map (fun p => (mn (p_name p), InParam (p_loc p), p_name p)) ps
                  ++ map (fun v => (v, InBody, v)) bvars;
       pl_accepts_cookie := true;
       pl_path_ser := map pyname (filter (is_in Path) is);
       pl_url := url_plan (o_path o);
       pl_params := if existsb (fun p => loc_eqb (p_loc p) Query) (o_params o)
                    then Some (dict_plan Query is) else None;
       pl_headers := if existsb (is_in Header) is then Some (dict_plan Header is) else None;
       pl_cookies := if existsb (fun p => loc_eqb (p_loc p) Cookie) (o_params o)
                     then Some (dict_plan Cookie is) else None;
       pl_body := BPDispatch (map (fun ct => (body_var_multi ct, kind_of ct)) (o_body o))
                             (negb (o_body_required o)) |}.

  Definition is_multi (o : op) : bool :=
    match o_body o with _ :: _ :: _ => true | _ => false end.

  Definition plan_of (o : op) : plan := if is_multi o then plan_multi o else plan_std o.

  (* ================================================================ interpreting the plan *)
  (* the keyword the caller uses for the body argument *)
  Definition body_kw (o : op) (ct : str) : str :=
    if is_multi o then body_var_multi ct else body_var_std ct.

  (* binding of the call: every signature argument gets the assigned value or None (its default, or an
     explicit None for the optional positional arguments of the dispatch signature).  A body can only be
     passed if the body variable of the chosen content type is bound to the body in the signature. *)
  Definition bind (o : op) (a : args) (b : str * pin * str) : str * pyval :=
    let '(py, src, orig) := b in
    (py, match src with
         | InParam l => match arg_of (a_params a) l orig with Some v => PV v | None => PNone end
         | InBody => match a_body a with
                     | Some (ct, bv) => if str_eqb (body_kw o ct) orig then PB bv else PNone
                     | None => PNone
                     end
         end).

  Definition assigned_cookie (a : args) : bool :=
    existsb (fun k => match k with (Cookie, _, _) => true | _ => false end) (a_params a).

  (* the f-string, as pieces: a literal contributes its characters ('/' separates segments); a variable
     that went through quote(serialize_simple(…), safe="") contributes ONE atom; a variable interpolated raw (dispatch
     implementation) contributes its characters like a literal *)
  Definition eval_url (path_ser : list str) (e : env) (u : list useg) : option (list tok) :=
    option_map (@concat tok)
      (opt_all (map (fun s => match s with
                              | ULit t => Some (toks_of_lit t)
                              | UVar x => match alookup x e with
                                          | None => None                         (* NameError *)
                                          | Some pv =>
                                              if mem_str x path_ser
                                              then option_map (fun w => [TAtom w]) (simple_py (ser_py pv))
                                              else option_map toks_of_lit (fmt_py pv)
                                          end
                              end) u)).

  (* {"k": serialize(x), **({"k2": serialize(y)} if y is not None else {})} *)
  Definition eval_dict (e : env) (d : list (str * str * bool)) : list (str * pyval) :=
    dict_of (flat_map (fun t : str * str * bool =>
                                let '(k, x, req) := t in
                                let v := env_get e x in
                                if req then [(k, ser_py v)]
                                else match v with PNone => [] | _ => [(k, ser_py v)] end) d).

  Definition expand_query (d : list (str * pyval)) : list (str * str) :=
    flat_map (fun kv => map (fun s => (fst kv, s)) (q_py (snd kv))) d.

  Definition expand_headers (d : list (str * pyval)) : option (list (str * str)) :=
    opt_all (map (fun kv => match h_py (snd kv) with Some s => Some (fst kv, s) | None => None end) d).

  Definition send_kind (k : ckind) (ct : str) (x : pyval) : option (option str * bobs) :=
    match k with
    | KJson => send_json x | KMultipart => send_files x | KForm => send_form x | KOther => send_bytes ct x
    end.

  (* dispatch branch: json -> json=serialize(x); multipart -> files=x; anything else -> data=serialize(x)
     (serialize(bytes) is base64 text: outside the model, None) *)
  Definition send_dispatch (k : ckind) (x : pyval) : option (option str * bobs) :=
    match k with
    | KJson => match x with PB (BJson j) => Some (Some s_json, OJson j) | _ => None end
    | KMultipart => send_files x
    | _ => match x with PB (BForm kv) => Some (wire_form kv) | _ => None end
    end.

  Fixpoint dispatch (e : env) (opt : bool) (bs : list (str * ckind)) : option (option str * bobs) :=
    match bs with
    | [] => if opt then Some (None, ONone) else None     (* no body | raise ValueError *)
    | (x, k) :: r => match env_get e x with
                     | PNone => dispatch e opt r
                     | v => send_dispatch k v
                     end
    end.

  Definition eval_body (e : env) (b : body_plan) : option (option str * bobs) :=
    match b with
    | BPNone => Some (None, ONone)
    | BPStd k x ct => match alookup x e with
                   | None => None                  (* NameError: the body variable is not an argument *)
                   | Some v => send_kind k ct v
                   end
    | BPDispatch bs opt => dispatch e opt bs
    end.

  Definition run (o : op) (pl : plan) (a : args) : option request :=
    if negb (nodup_str (pl_sig pl)) then None                        (* SyntaxError: duplicate argument *)
    else if negb (pl_accepts_cookie pl) && assigned_cookie a then None  (* TypeError: unexpected keyword *)
    else
      let e := map (bind o a) (pl_bind pl) in
      match eval_url (pl_path_ser pl) e (pl_url pl) with
      | None => None
      | Some toks =>
          let q := match pl_params pl with Some d => expand_query (eval_dict e d) | None => [] end in
          match (match pl_headers pl with Some d => expand_headers (eval_dict e d) | None => Some [] end) with
          | None => None                                             (* httpx: TypeError *)
          | Some hs =>
              match (match pl_cookies pl with Some d => expand_headers (eval_dict e d) | None => Some [] end) with
              | None => None                                         (* httpx/cookiejar: TypeError *)
              | Some cs =>
                  match eval_body e (pl_body pl) with
                  | None => None
                  | Some (ct, body) =>
                      Some {| r_method := o_method o; r_segs := normalize (segs_tok [] toks);
                              r_query := q; r_headers := hs; r_cookies := cs; r_ctype := ct; r_body := body |}
                  end
              end
          end
      end.

  Definition call (o : op) (a : args) : option request := run o (plan_of o) a.

  (* ================================================================ the property *)
  (* canonical wire text of a value (OpenAPI: enum -> its value, booleans lower-case, RFC 3339 dates) *)
  Definition wire (s : scalar) : str :=
    match s with
    | VStr s => s | VInt d => d | VBool b => if b then s_true else s_false
    | VEnum _ v _ => v | VDate iso => iso | VDateTime iso _ => iso
    end.
  Definition wires (v : value) : list str :=
    match v with Sc s => [wire s] | Arr l => map wire l end.
  (* OpenAPI `simple` style (path and header parameters; taken for cookies as well): an array is one
     comma-separated value *)
  Definition wire_simple (v : value) : str :=
    match v with Sc s => wire s | Arr l => join comma (map wire l) end.

  Definition declared (o : op) (l : loc) (n : str) : bool :=
    existsb (fun p => loc_eqb (p_loc p) l && str_eqb (p_name p) n) (o_params o).

  (* the values that must appear under name n at location l: those of the supplied argument; nothing
     for an argument left as None; nothing for a name that is not a parameter *)
  Definition wire_at (l : loc) (v : value) : list str :=
    match l with
    | Query => wires v                (* style=form, explode=true: one pair per item *)
    | _ => [wire_simple v]            (* style=simple: one comma-joined value *)
    end.
  Definition expected (o : op) (a : args) (l : loc) (n : str) : list str :=
    if declared o l n then match arg_of (a_params a) l n with Some v => wire_at l v | None => [] end else [].

  Definition values_at (n : str) (d : list (str * str)) : list str :=
    map snd (filter (fun kv => str_eqb (fst kv) n) d).

  Definition spec_toks (o : op) (a : args) : option (list tok) :=
    option_map (@concat tok)
      (opt_all (map (fun s => match s with
                              | Lit t => Some (toks_of_lit t)
                              | Var v => match arg_of (a_params a) Path v with
                                         | Some v => Some [TAtom (wire_simple v)]
                                         | None => None
                                         end
                              end) (o_path o))).
  Definition spec_segments (o : op) (a : args) : option (list str) :=
    option_map (segs_tok []) (spec_toks o a).

  Definition spec_body (a : args) : option str * bobs :=
    match a_body a with
    | None => (@None str, ONone)
    | Some (ct, BJson j) => (Some ct, OJson j)
    | Some (ct, BFiles []) => (@None str, ONone)
    | Some (ct, BFiles fs) => (Some ct, OFiles fs)
    | Some (ct, BForm []) => (@None str, ONone)
    | Some (ct, BForm kv) => (Some ct, OForm kv)
    | Some (ct, BBytes []) => (Some ct, ONone)
    | Some (ct, BBytes b) => (Some ct, OBytes b)
    end.

  Definition Spec (o : op) (a : args) (r : request) : Prop :=
    r_method r = o_method o
    /\ Some (r_segs r) = spec_segments o a                 (* each value stays inside its own segment *)
    /\ (forall n, values_at n (r_query r) = expected o a Query n)
    /\ (forall n, values_at n (r_headers r) = expected o a Header n)
    /\ (forall n, values_at n (r_cookies r) = expected o a Cookie n)
    /\ (r_ctype r, r_body r) = spec_body a.

  (* ================================================================ well-typed calls *)
  Definition has_ty (t : ty) (s : scalar) : bool :=
    match t, s with
    | TStr, VStr _ | TInt, VInt _ | TBool, VBool _ | TEnum, VEnum _ _ _
    | TDate, VDate _ | TDateTime, VDateTime _ _ => true
    | _, _ => false
    end.
  Definition value_ok (p : param) (v : value) : bool :=
    match v with
    | Sc s => negb (p_array p) && has_ty (p_ty p) s
    | Arr l => p_array p && forallb (has_ty (p_ty p)) l
    end.

  Definition find_param (o : op) (l : loc) (n : str) : option param :=
    find (fun p => loc_eqb (p_loc p) l && str_eqb (p_name p) n) (o_params o).

  Definition body_ok (ct : str) (b : bval) : bool :=
    match kind_of ct, b with
    | KJson, BJson _ | KMultipart, BFiles _ | KForm, BForm _ | KOther, BBytes _ => true
    | _, _ => false
    end.

  (* the operation is a valid OpenAPI operation as far as this property is concerned: the path
     variables are exactly the declared path parameters, which are required; the python names
     are stable under a second sanitisation (the signature generator sanitises twice, the URL once) and
     the body-variable literals are their own sanitisation *)
  Definition wf_op (o : op) : bool :=
    forallb (fun v => declared o Path v) (path_vars (o_path o))
    && forallb (fun p => match p_loc p with
                         | Path => mem_str (p_name p) (path_vars (o_path o)) && p_required p
                         | _ => true
                         end) (o_params o)
    && forallb (fun p => str_eqb (mn (mn (p_name p))) (mn (p_name p))) (o_params o)
    && forallb (fun v => str_eqb (mn v) v) [v_std_json; v_std_multipart; v_std_form; v_std_other]
    && nodup_str (o_body o).

  Definition well_typed (o : op) (a : args) : bool :=
    wf_op o
    (* every supplied value belongs to a declared parameter and has its type *)
    && forallb (fun k => let '(l, n, v) := k in
                         match find_param o l n with Some p => value_ok p v | None => false end) (a_params a)
    (* required parameters are supplied *)
    && forallb (fun p => negb (p_required p)
                         || match arg_of (a_params a) (p_loc p) (p_name p) with Some _ => true | None => false end)
               (o_params o)
    (* the body is for a declared content type and of its kind; a required body is supplied *)
    && match a_body a with
       | Some (ct, b) => mem_str ct (o_body o) && body_ok ct b
       | None => negb (o_body_required o) || match o_body o with [] => true | _ => false end
       end.

  (* ================================================================ guards (one per OPEN finding) *)
  Definition known_kind (ct : str) : bool := match kind_of ct with KOther => false | _ => true end.
  Definition no_slash (s : str) : bool := forallb (fun c => negb (c =? slash)) s.

  (* F04j (what is left of F04b, which is fixed): inside a multi-content operation a media type other
     than json/multipart/form shares the `body` keyword with JSON: [json, octet-stream] + bytes is sent as
     a JSON base64 string, [octet-stream, json] + a JSON object is sent form-encoded (observed on a
     generated client; serialize(bytes) -> base64 is outside the model, which answers None there, so
     such operations are not generated by the correspondence run) *)
  Definition guard_F04j (o : op) (a : args) : bool :=
    negb (is_multi o) || forallb known_kind (o_body o).

  (* F04c: two arguments of the generated signature get the same python name *)
  Definition guard_F04c (o : op) (a : args) : bool := nodup_str (pl_sig (plan_of o)).

  (* F04d: a parameter's python name is the body variable's name (single content type) *)
  Definition guard_F04d (o : op) (a : args) : bool :=
    is_multi o
    || match primary (o_body o) with
       | None => true
       | Some ct => negb (mem_str (body_var_std ct) (map (fun p => mn (p_name p)) (o_params o)))
       end.

  (* F04k: an intended path segment is "." or ".." (a path VALUE equal to "." or ".." is not escaped by
     quote(); httpx then treats it as a dot segment: /f/g/.. is sent as /f).  The degenerate empty path
     template is excluded as well *)
  Definition guard_F04k (o : op) (a : args) : bool :=
    match spec_segments o a with
    | Some l => forallb not_dot l && negb (list_eqb str_eqb l [[]])
    | None => true
    end.

  Definition guards (o : op) (a : args) : list bool :=
    [guard_F04j o a; guard_F04c o a; guard_F04d o a; guard_F04k o a].
  Definition guard (o : op) (a : args) : bool := forallb (fun b => b) (guards o a).
End Wire.
