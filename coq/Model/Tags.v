(* C07 — model of: core/loader/operations/parser.py (parse_operations, the blanket
   `except Exception: warn; continue`), the explicit raise conditions of
   loader/responses/parser.py and loader/parameters/parser.py, the operation-id de-duplication and
   tag grouping of emitters/endpoints_emitter.py (EndpointsEmitter.emit) and the hand-copied tag
   grouping of visit/client_visitor.py (ClientVisitor.visit).  Transcribed branch for branch,
   defects included.  No proofs in this file.

   Name sanitisation (NameSanitizer.sanitize_method_name / normalize_tag_key /
   sanitize_module_name / sanitize_class_name / clean_auto_generated_operation_id), the nested
   function tag_score and Python's identifier test are Section variables; the correspondence run
   instantiates them by finite tables produced by the real functions for the strings that occur. *)
From PG Require Import Lib.Strs.

(* ---------- constants ---------- *)
Definition s_default : str := [100;101;102;97;117;108;116].       (* "default" *)
Definition s_Client : str := [67;108;105;101;110;116].            (* "Client" *)
Definition c_us : N := 95.   (* _ *)
Definition c_slash : N := 47.
(* HTTPMethod.__members__ *)
Definition http_methods : list str :=
  [[71;69;84]; [80;79;83;84]; [80;85;84]; [80;65;84;67;72]; [68;69;76;69;84;69];
   [79;80;84;73;79;78;83]; [72;69;65;68]; [84;82;65;67;69]].
Definition is_http_method (mu : str) : bool := mem_str mu http_methods.
Definition upper_str (s : str) : str := map upper_ascii s.  (* str.upper(), exact on ASCII *)

(* ---------- decimal rendering of the de-dup counter ---------- *)
Fixpoint dec_fuel (f : nat) (n : N) (acc : str) : str :=
  match f with
  | O => acc
  | S f' => let acc' := (48 + n mod 10) :: acc in
            if n <? 10 then acc' else dec_fuel f' (n / 10) acc'
  end.
Definition dec (n : N) : str := dec_fuel (S (N.size_nat n)) n [].

(* ---------- the document as the loader sees it ---------- *)
Inductive key := KStr (s : str) | KInt (n : N).      (* a YAML `200:` loads as an int key; parse_operations passes str(key) on *)
Inductive pshape := POk | PNoName | PNotMap.        (* parameter node: mapping with name / mapping without / not a mapping *)
Inductive tagsnode := TAbsent | TList (l : list str) | TBad.   (* TBad: `tags: null` or a scalar: list(...) raises *)
Inductive strategy := SOpId | SClean | SPath.

Record raw_op := {
  r_path : str;
  r_method : str;                   (* the key in the path item, as written *)
  r_node_ok : bool;                 (* the operation node is a mapping *)
  r_opid : option str;
  r_tags : tagsnode;
  r_resp : list (key * bool);       (* response key, and whether its node is a mapping *)
  r_params : list pshape            (* path-level parameters followed by operation-level ones *)
}.

Record op := { o_id : str; o_method : str; o_path : str; o_tags : list str }.
Definition set_id (o : op) (i : str) : op :=
  {| o_id := i; o_method := o_method o; o_path := o_path o; o_tags := o_tags o |}.

Fixpoint lstrip_slash (s : str) : str :=
  match s with
  | c :: r => if c =? c_slash then lstrip_slash r else s
  | [] => []
  end.
Definition strip_slash (s : str) : str := rev (lstrip_slash (rev (lstrip_slash s))).

Definition is_kstr (k : key) : bool := match k with KStr _ => true | KInt _ => false end.
Definition is_pok (p : pshape) : bool := match p with POk => true | _ => false end.
Definition is_nil {A} (l : list A) : bool := match l with [] => true | _ => false end.

(* Python max(candidates, key=tag_score): first maximal element.  The score tuple is
   (is_pascal, word_count, upper, t); [score] gives the first three, t itself is compared last. *)
Fixpoint str_ltb (a b : str) : bool :=
  match a, b with
  | [], [] => false
  | [], _ :: _ => true
  | _ :: _, [] => false
  | x :: a', y :: b' => if x <? y then true else if y <? x then false else str_ltb a' b'
  end.

Section Names.
  Variable method_name : str -> str.            (* NameSanitizer.sanitize_method_name *)
  Variable tag_key : str -> str.                (* NameSanitizer.normalize_tag_key *)
  Variable tag_attr : str -> str.               (* NameSanitizer.sanitize_module_name *)
  Variable tag_class : str -> str.              (* NameSanitizer.sanitize_class_name (+ "Client" appended below) *)
  Variable clean_id : str -> str -> str -> str. (* clean_auto_generated_operation_id id MU path *)
  Variable score : str -> bool * N * N.         (* tag_score without its last component *)
  Variable py_ident : str -> bool.              (* s.isidentifier() and not keyword.iskeyword(s) *)

  (* ---------- parse_operations ---------- *)
  Definition fallback_id (o : raw_op) : str :=
    method_name (strip_slash (upper_str (r_method o) ++ [c_us] ++ r_path o)).

  Definition derive_id (st : strategy) (o : raw_op) : str :=
    match st with
    | SPath => fallback_id o
    | SClean => match r_opid o with
                | Some i => clean_id i (upper_str (r_method o)) (r_path o)
                | None => fallback_id o
                end
    | SOpId => match r_opid o with Some i => i | None => fallback_id o end
    end.

  (* the conjunction of the explicit raise conditions inside the try block; any of them false
     => `warnings.warn("Skipping operation parsing …"); continue` *)
  Definition parse_op_ok (st : strategy) (o : raw_op) : bool :=
    r_node_ok o                                                      (* "operationId" in None / .get on non-mapping *)
    && forallb is_pok (r_params o)                                   (* TypeError / "Parameter node must have a name" *)
    && forallb (fun kb => snd kb) (r_resp o)                        (* "node must be a Mapping"; the key is passed as str(key) (fix of F07b) *)
    && (negb (is_nil (derive_id st o)) || is_nil (r_resp o))         (* "operation_id_for_promo must be provided" *)
    && match r_tags o with TBad => false | _ => true end.            (* list(None) *)

  Definition is_op (o : raw_op) : bool := is_http_method (upper_str (r_method o)).

  Definition mk_op (st : strategy) (o : raw_op) : op :=
    {| o_id := derive_id st o; o_method := upper_str (r_method o); o_path := r_path o;
       o_tags := match r_tags o with TList l => l | _ => [] end |}.

  (* a document = the (path, method-key) entries in document order; keys that are not HTTP
     methods (parameters, summary, x-…) are not operations and are passed over *)
  Definition ops (doc : list raw_op) : list raw_op := filter is_op doc.
  Definition parse (st : strategy) (doc : list raw_op) : list op :=
    map (mk_op st) (filter (parse_op_ok st) (ops doc)).
  Definition skipped (st : strategy) (doc : list raw_op) : list raw_op :=
    filter (fun o => negb (parse_op_ok st o)) (ops doc).

  (* ---------- EndpointsEmitter._deduplicate_operation_ids_globally (after the fix of F07a) ---------- *)
  (* while sanitize(f"{id}_{suffix}") in used: suffix += 1 — the Python loop has no bound; the model
     searches |used|+1 candidates (enough whenever different suffixes give different method names) and
     reports exhaustion through [dedup_total] *)
  Fixpoint find_free (fuel : nat) (used : list str) (id : str) (n : N) : option str :=
    match fuel with
    | O => None
    | S f => let cand := id ++ [c_us] ++ dec n in
             if mem_str (method_name cand) used then find_free f used id (n + 1) else Some cand
    end.
  Fixpoint dedup_go (used : list str) (l : list op) : list op :=
    match l with
    | [] => []
    | o :: r =>
        let m := method_name (o_id o) in
        if mem_str m used then
          match find_free (S (length used)) used (o_id o) 2 with
          | Some i => set_id o i :: dedup_go (method_name i :: used) r
          | None => o :: dedup_go used r            (* model bound reached (never observed) *)
          end
        else o :: dedup_go (m :: used) r
    end.
  Definition dedup_ops (l : list op) : list op := dedup_go [] l.
  Fixpoint dedup_total_go (used : list str) (l : list op) : bool :=
    match l with
    | [] => true
    | o :: r =>
        let m := method_name (o_id o) in
        if mem_str m used then
          match find_free (S (length used)) used (o_id o) 2 with
          | Some i => dedup_total_go (method_name i :: used) r
          | None => false
          end
        else dedup_total_go (m :: used) r
    end.
  Definition dedup_total (l : list op) : bool := dedup_total_go [] l.
  (* ClientGenerator.generate calls endpoints_emitter.emit(ir.operations, …) twice on the direct
     path (the second call sits inside a log f-string); the ids are mutated in place, the files
     of the second call overwrite the first and the later emitters see the twice-processed ids.
     With the idempotent de-dup the second pass changes nothing (Proofs: emitted_unique). *)
  Definition emitted_ops (l : list op) : list op := dedup_ops (dedup_ops l).

  (* ---------- grouping in EndpointsEmitter.emit ---------- *)
  Definition tags_or_default (o : op) : list str :=
    match o_tags o with [] => [s_default] | l => l end.

  (* d.setdefault(k, []).append(v) *)
  Fixpoint aappend {V} (d : list (str * list V)) (k : str) (v : V) : list (str * list V) :=
    match d with
    | [] => [(k, [v])]
    | (k', l) :: d' => if str_eqb k k' then (k', l ++ [v]) :: d' else (k', l) :: aappend d' k v
    end.

  (* keys_of_op: a second spelling of a tag already seen on THIS operation does not append the
     operation again (fix of F07c); the candidate spelling is still recorded (cand_step) *)
  Fixpoint dedup_keys_go (seen : list str) (ts : list str) : list str :=
    match ts with
    | [] => []
    | t :: r => if mem_str (tag_key t) seen then dedup_keys_go seen r
                else t :: dedup_keys_go (tag_key t :: seen) r
    end.
  Definition group_tags (o : op) : list str := dedup_keys_go [] (tags_or_default o).
  Definition group_step (d : list (str * list op)) (o : op) : list (str * list op) :=
    fold_left (fun d t => aappend d (tag_key t) o) (group_tags o) d.
  Definition group (l : list op) : list (str * list op) := fold_left group_step l [].

  Definition cand_step (d : list (str * list str)) (o : op) : list (str * list str) :=
    fold_left (fun d t => aappend d (tag_key t) t) (tags_or_default o) d.
  Definition candidates (l : list op) : list (str * list str) := fold_left cand_step l [].

  Definition score_gtb (a b : str) : bool :=      (* tag_score a > tag_score b *)
    let '(pa, wa, ua) := score a in
    let '(pb, wb, ub) := score b in
    if Bool.eqb pa pb then
      if wa =? wb then
        if ua =? ub then str_ltb b a else ub <? ua
      else wb <? wa
    else pa && negb pb.
  Fixpoint max_by (cur : str) (l : list str) : str :=
    match l with
    | [] => cur
    | x :: r => if score_gtb x cur then max_by x r else max_by cur r
    end.
  (* emitter: best_tag_for_key = DEFAULT_TAG; if candidates: best = max(candidates, key=tag_score) *)
  Definition emitter_best (c : list str) : str :=
    match c with [] => s_default | x :: r => max_by x r end.
  Definition emitter_tags (l : list op) : list (str * str) :=
    map (fun kc => (fst kc, emitter_best (snd kc))) (candidates l).

  (* ---------- the copy in ClientVisitor.visit ---------- *)
  Fixpoint amem {V} (k : str) (d : list (str * V)) : bool :=
    match d with [] => false | (k', _) :: d' => str_eqb k k' || amem k d' end.
  Fixpoint aupd {V} (d : list (str * V)) (k : str) (f : V -> V) : list (str * V) :=
    match d with
    | [] => []
    | (k', v) :: d' => if str_eqb k k' then (k', f v) :: d' else (k', v) :: aupd d' k f
    end.
  (* if key not in tag_candidates: tag_candidates[key] = [] ; tag_candidates[key].append(tag) *)
  Definition cv_add (d : list (str * list str)) (t : str) : list (str * list str) :=
    let k := tag_key t in
    let d1 := if amem k d then d else d ++ [(k, [])] in
    aupd d1 k (fun l => l ++ [t]).
  Definition cv_step (d : list (str * list str)) (o : op) : list (str * list str) :=
    fold_left cv_add (match o_tags o with [] => [s_default] | l => l end) d.
  Definition cv_candidates (l : list op) : list (str * list str) := fold_left cv_step l [].
  (* best = max(candidates, key=tag_score): ValueError on an empty list = None *)
  Definition client_best (c : list str) : option str :=
    match c with [] => None | x :: r => Some (max_by x r) end.
  Fixpoint client_map (d : list (str * list str)) : option (list (str * str)) :=
    match d with
    | [] => Some []
    | (k, c) :: d' =>
        match client_best c, client_map d' with
        | Some b, Some m => Some ((k, b) :: m)
        | _, _ => None
        end
    end.
  Definition client_tags (l : list op) : option (list (str * str)) := client_map (cv_candidates l).

  (* sorted(tag_map): insertion sort by key, code-point order *)
  Definition str_leb (a b : str) : bool := negb (str_ltb b a).
  Fixpoint ins_sorted {V} (x : str * V) (l : list (str * V)) : list (str * V) :=
    match l with
    | [] => [x]
    | y :: r => if str_leb (fst x) (fst y) then x :: l else y :: ins_sorted x r
    end.
  Definition sort_by_key {V} (l : list (str * V)) : list (str * V) := fold_right ins_sorted [] l.

  (* ---------- what is on disk / importable after generation ---------- *)
  Definition class_of (canon : str) : str := tag_class canon ++ s_Client.
  Definition canonical_of (m : list (str * str)) (k : str) : str :=
    match alookup k m with Some c => c | None => s_default end.

  (* endpoints/<module>.py : (module, (class name, method definitions in order)); a later file with
     the same module name overwrites an earlier one *)
  Definition files (l : list op) : list (str * (str * list str)) :=
    let e := emitted_ops l in
    let m := emitter_tags e in
    dict_of (map (fun kg => let c := canonical_of m (fst kg) in
                            (tag_attr c, (class_of c, map (fun o => method_name (o_id o)) (snd kg))))
                 (group e)).

  (* APIClient's tag properties: (property name, class it returns); None = client.py is not
     importable: a property name is not an identifier, or `from .endpoints.<module> import <Class>`
     fails because a colliding tag's file (other class name) overwrote the module *)
  Definition props (l : list op) : option (list (str * str)) :=
    match client_tags (emitted_ops l) with
    | None => None
    | Some m =>
        let t := map (fun kc => (tag_attr (snd kc), class_of (snd kc))) (sort_by_key m) in
        let f := files l in
        if forallb (fun nc => py_ident (fst nc)) t
           && forallb (fun nc => match alookup (fst nc) f with
                                 | Some (c, _) => str_eqb c (snd nc)
                                 | None => false
                                 end) t
        then Some (dict_of t) else None
    end.

  Inductive outcome := Generated (f : list (str * (str * list str))) (p : option (list (str * str))) | Failed.
  (* after the fix of F07f: parse_operations raises once the loop is over if any operation was skipped *)
  Definition generate (st : strategy) (doc : list raw_op) : outcome :=
    if is_nil (skipped st doc) then let l := parse st doc in Generated (files l) (props l) else Failed.

  (* ---------- the property's statement (C07) ---------- *)
  Definition same_op (a b : op) : bool :=
    str_eqb (o_method a) (o_method b) && str_eqb (o_path a) (o_path b).
  Definition count_op (o : op) (l : list op) : nat := length (filter (same_op o) l).
  Fixpoint nodupb (l : list str) : bool :=
    match l with [] => true | x :: r => negb (mem_str x r) && nodupb r end.

  (* every operation exactly once in the group of each of its tags *)
  Definition once_per_tag (l : list op) : Prop :=
    forall o t, In o l -> In t (tags_or_default o) ->
      exists g, alookup (tag_key t) (group l) = Some g /\ count_op o g = 1%nat.
  (* method names unique per client *)
  Definition names_unique (l : list op) : Prop :=
    forall k g, In (k, g) (group l) -> NoDup (map (fun o => method_name (o_id o)) g).
  (* an operation that cannot be represented makes generation fail *)
  Definition visible_failure (st : strategy) (doc : list raw_op) : Prop :=
    skipped st doc <> [] -> generate st doc = Failed.

  (* ---------- executable guards (one per finding) ---------- *)
  (* F07f (the blanket except): no operation is skipped *)
  Definition guard_F07f (st : strategy) (doc : list raw_op) : bool :=
    forallb (parse_op_ok st) (ops doc).
  (* F07d: every tag's module/attribute name is a Python identifier *)
  Definition all_tags (l : list op) : list str := flat_map tags_or_default l.
  Definition guard_F07d (l : list op) : bool :=
    forallb (fun t => py_ident (tag_attr t)) (all_tags l).
  (* F07e: tags with different keys have different module and class names *)
  Definition guard_F07e (l : list op) : bool :=
    let ts := all_tags l in
    forallb (fun a => forallb (fun b =>
      str_eqb (tag_key a) (tag_key b)
      || (negb (str_eqb (tag_attr a) (tag_attr b)) && negb (str_eqb (tag_class a) (tag_class b)))) ts) ts.
End Names.

(* a function given by a finite table (identity outside it) — how the correspondence run and the
   witness theorems instantiate the Section variables *)
Definition tbl_fun (t : list (str * str)) (s : str) : str :=
  match alookup s t with Some v => v | None => s end.
