(* C09 — Gallina transcriptions of the ORDER-RELEVANT set-iteration sites listed by the translator
   (harness/tables_C09.py -> Gen/T_C09.v).  A Python `set` iterated by a `for` is modelled as the list of
   its elements in *some* order; the obligation per site is  Permutation l1 l2 -> f l1 = f l2.
   No proofs in this file. *)
From PG Require Import Lib.Strs.
From PG Require Export Gen.T_C09.

(* ------------------------------------------------------------------------------------------------
   shared: Python's str ordering (code-point lexicographic) and sorted() on lists of str *)
Fixpoint str_leb (a b : str) : bool :=
  match a, b with
  | [], _ => true
  | _ :: _, [] => false
  | x :: a', y :: b' => if x <? y then true else if y <? x then false else str_leb a' b'
  end.

Fixpoint insert_sorted (x : str) (l : list str) : list str :=
  match l with
  | [] => [x]
  | y :: r => if str_leb x y then x :: l else y :: insert_sorted x r
  end.
Definition sort_strs (l : list str) : list str := fold_right insert_sorted [] l.

(* sorted(iterable, key=k) for a key rendered as a str (insertion sort; stable) *)
Section SortBy.
  Context {A : Type} (key : A -> str).
  Fixpoint insert_by (x : A) (l : list A) : list A :=
    match l with
    | [] => [x]
    | y :: r => if str_leb (key x) (key y) then x :: l else y :: insert_by x r
    end.
  Definition sort_by (l : list A) : list A := fold_right insert_by [] l.
End SortBy.

(* a Python set of str, as a duplicate-free list; [set_add] = set.add *)
Definition set_add (x : str) (s : list str) : list str := if mem_str x s then s else s ++ [x].

(* ------------------------------------------------------------------------------------------------
   SITE 1  visit/endpoint/processors/parameter_processor.py
           EndpointParameterProcessor._ensure_path_variables_as_params  +  the stable sort that follows it
           in process_parameters.   (since the fix of F09a the inventory lists it as sorted-wrapped)

     url_vars = extract_url_variables(op.path)            # a set
     updated_params = list(current_params)
     for var in sorted(url_vars, key=lambda v: op.path.index("{" + v + "}")):     # template order
         sanitized_var_name = NameSanitizer.sanitize_method_name(var)
         if sanitized_var_name not in param_details_map:
             updated_params.append({name: sanitized_var_name, required: True, …})
             param_details_map[sanitized_var_name] = …
     …
     final_ordered_params.sort(key=lambda p: not p["required"])   # stable: required first

   [params] = (sanitised name, required) of the declared parameters (+ body parameter) in order; the keys of
   param_details_map are exactly the names occurring in the list.  [san] = sanitize_method_name.
   [template] = the variables of the path in order of first appearance; the set is [url_vars] in SOME order. *)
Definition param := (str * bool)%type.

Definition ensure_step (san : str -> str) (acc : list param) (v : str) : list param :=
  if mem_str (san v) (map fst acc) then acc else acc ++ [(san v, true)].

Definition ensure_path_vars (san : str -> str) (params : list param) (vars_in_order : list str) : list param :=
  fold_left (ensure_step san) vars_in_order params.

Definition required_first (ps : list param) : list param :=
  filter (fun p => snd p) ps ++ filter (fun p => negb (snd p)) ps.

(* op.path.index("{v}") orders the variables as their first occurrences in the template *)
Fixpoint index_of (v : str) (l : list str) : N :=
  match l with
  | [] => 0
  | x :: r => if str_eqb v x then 0 else 1 + index_of v r
  end.
Definition template_key (template : list str) (v : str) : str := [index_of v template].

(* the observable of the site: the order of the arguments in the generated signature *)
Definition signature_order (san : str -> str) (params : list param) (template url_vars : list str) : list str :=
  map fst (required_first (ensure_path_vars san params (sort_by (template_key template) url_vars))).

(* a finite sanitiser table (what the correspondence run ships: the real sanitize_method_name on the
   variables of the case); identity outside the table *)
Definition san_of (tbl : list (str * str)) (v : str) : str :=
  match alookup v tbl with Some s => s | None => v end.

(* ------------------------------------------------------------------------------------------------
   SITE 2  context/render_context.py  RenderContext.add_typing_imports_for_type + ImportCollector rendering

     potential_names_to_import = set(all_words_in_type_str)
     for name in potential_names_to_import:               # <- hash order
         … exactly one of:  nothing | add_import(module, name) -> imports[module].add(name)
                                    | relative_imports[module].add(name) | plain_imports.add(module)
   What the loop does with one name depends on the name and on the (fixed) rendering context only, never on
   what was imported before: [classify].  The collector keeps dict[str, set[str]] in insertion order; every
   renderer sorts modules and names (ImportCollector.get_formatted_imports, transcribed below). *)
Inductive action := ANone | AAbs (m n : str) | ARel (m n : str) | APlain (m : str).

Definition dsets := list (str * list str).          (* dict[str, set[str]], insertion ordered *)
Definition ds_get (m : str) (d : dsets) : list str := match alookup m d with Some s => s | None => [] end.
Definition ds_add (m n : str) (d : dsets) : dsets := aset d m (set_add n (ds_get m d)).

Record collector := { c_abs : dsets; c_rel : dsets; c_plain : list str }.
Definition empty_collector : collector := {| c_abs := []; c_rel := []; c_plain := [] |}.

Definition do_action (c : collector) (a : action) : collector :=
  match a with
  | ANone => c
  | AAbs m n => {| c_abs := ds_add m n (c_abs c); c_rel := c_rel c; c_plain := c_plain c |}
  | ARel m n => {| c_abs := c_abs c; c_rel := ds_add m n (c_rel c); c_plain := c_plain c |}
  | APlain m => {| c_abs := c_abs c; c_rel := c_rel c; c_plain := set_add m (c_plain c) |}
  end.

Definition add_names (classify : str -> action) (c : collector) (names : list str) : collector :=
  fold_left (fun c x => do_action c (classify x)) names c.

Definition s_from : str := [102;114;111;109;32].              (* "from " *)
Definition s_import : str := [32;105;109;112;111;114;116;32].  (* " import " *)
Definition s_import0 : str := [105;109;112;111;114;116;32].    (* "import " *)
Definition s_comma : str := [44;32].                           (* ", " *)
Definition s_nl : str := [10].

Definition from_line (d : dsets) (m : str) : str :=
  s_from ++ m ++ s_import ++ join s_comma (sort_strs (ds_get m d)).

Definition nonempty {A} (l : list A) : bool := match l with [] => false | _ => true end.

(* ImportCollector.get_formatted_imports, statement list *)
Definition formatted_statements (is_stdlib : str -> bool) (c : collector) : list str :=
  let std := sort_strs (filter is_stdlib (akeys (c_abs c))) in
  let oth := sort_strs (filter (fun m => negb (is_stdlib m)) (akeys (c_abs c))) in
  let s1 := map (from_line (c_abs c)) std in
  let s2 := s1 ++ (if nonempty std && nonempty oth then [[]] else []) in
  let s3 := s2 ++ map (from_line (c_abs c)) oth in
  let s4 := if nonempty (c_plain c)
            then s3 ++ (if nonempty s3 then [[]] else []) ++ map (fun m => s_import0 ++ m) (sort_strs (c_plain c))
            else s3 in
  let s5 := if nonempty (c_rel c) && (nonempty std || nonempty oth || nonempty (c_plain c))
            then s4 ++ [[]] else s4 in
  s5 ++ map (from_line (c_rel c)) (sort_strs (akeys (c_rel c))).

Definition formatted_imports (is_stdlib : str -> bool) (c : collector) : str :=
  join s_nl (formatted_statements is_stdlib c).

(* the observable of the site: the import block rendered after the loop *)
Definition typing_imports_render (is_stdlib : str -> bool) (classify : str -> action) (c0 : collector)
    (names : list str) : str :=
  formatted_imports is_stdlib (add_names classify c0 names).

(* finite tables for the correspondence run *)
Definition classify_of (tbl : list (str * action)) (x : str) : action :=
  match alookup x tbl with Some a => a | None => ANone end.
Definition stdlib_of (l : list str) (m : str) : bool := mem_str m l.

(* well-formed collector: what the Python data structure guarantees (dict keys unique, sets duplicate-free) *)
Fixpoint nodup_strs (l : list str) : bool :=
  match l with [] => true | x :: r => negb (mem_str x r) && nodup_strs r end.
Definition wf_dsets (d : dsets) : bool := nodup_strs (akeys d) && forallb (fun kv => nodup_strs (snd kv)) d.
Definition wf_collector (c : collector) : bool := wf_dsets (c_abs c) && wf_dsets (c_rel c) && nodup_strs (c_plain c).

(* ------------------------------------------------------------------------------------------------
   dispatch from the names the translator emits (Gen.T_C09.order_relevant_models) to the obligations.
   An unknown name has no transcription: its obligation is False (fail closed). *)
Definition m_ensure_path_vars : str := [101;110;115;117;114;101;95;112;97;116;104;95;118;97;114;115].
Definition m_typing_imports_render : str :=
  [116;121;112;105;110;103;95;105;109;112;111;114;116;115;95;114;101;110;100;101;114].
Definition m_show_diffs_fs : str := [115;104;111;119;95;100;105;102;102;115;95;102;115].   (* "show_diffs_fs" *)
