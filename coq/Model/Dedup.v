(* C20 — the de-duplication loops of the generator as functions on lists of names.

   dataclass fields   visit/model/dataclass_generator.py  (sorted props, "_2", "_3", ... suffix loop)
   enum members       visit/model/enum_generator.py       ("_1", "_2", ... suffix loop)
   class names        emitters/models_emitter.py          (sorted by name; "2", "3", ...; a trailing "_" is dropped)
   module stems       emitters/models_emitter.py          ("_2", "_3", ...)
   operation ids      emitters/endpoints_emitter.py       (_deduplicate_operation_ids_globally: first free
                                                            "_2", "_3", ... whose method name is unused)
   parameters         visit/endpoint/processors/parameter_processor.py (no de-duplication at all: F04c;
                                                            a colliding request-body parameter is dropped: F04d)
   The four `while candidate in seen` loops are instances of [assign]: a candidate stream per base name and
   a first-fit choice.  Python's loops are unbounded; the model gives them |seen|+1 steps, which by the
   pigeon-hole principle is always enough (Proofs/Dedup.v: pick_fresh_not_in).  No proofs here. *)
From PG Require Import Lib.Strs Gen.Tables Gen.T_C20 Model.Names.

(* ---------- first-fit choice ---------- *)
Fixpoint pick_fresh (fuel : nat) (cand : nat -> str) (i : nat) (seen : list str) : str :=
  match fuel with
  | O => cand i
  | S f => if mem_str (cand i) seen then pick_fresh f cand (S i) seen else cand i
  end.

Fixpoint assign (cand : str -> nat -> str) (seen : list str) (bases : list str) : list str :=
  match bases with
  | [] => []
  | b :: r => let x := pick_fresh (S (length seen)) (cand b) 0 seen in x :: assign cand (x :: seen) r
  end.

(* ---------- candidate streams ---------- *)
(* fields / module stems: base, base_2, base_3, ... *)
Definition cand_us2 (b : str) (i : nat) : str :=
  match i with O => b | S _ => b ++ [95] ++ dec (N.of_nat (S i)) end.
(* enum members: name, name_1, name_2, ... *)
Definition cand_us1 (b : str) (i : nat) : str :=
  match i with O => b | S _ => b ++ [95] ++ dec (N.of_nat i) end.
(* class names: base, stem2, stem3, ... where stem = base without one trailing "_" *)
Definition class_stem (b : str) : str :=
  match rev b with c :: r => if c =? 95 then rev r else b | [] => b end.
Definition cand_class (b : str) (i : nat) : str :=
  match i with O => b | S _ => class_stem b ++ dec (N.of_nat (S i)) end.

(* ---------- sorted(...) : stable insertion sort ---------- *)
Fixpoint str_leb (a b : str) : bool :=      (* Python's str <= : lexicographic on code points *)
  match a, b with
  | [], _ => true
  | _ :: _, [] => false
  | x :: a', y :: b' => if x <? y then true else if y <? x then false else str_leb a' b'
  end.

Section Sort.
  Context {A : Type} (leb : A -> A -> bool).
  Fixpoint insert (x : A) (l : list A) : list A :=
    match l with
    | [] => [x]
    | y :: r => if leb x y then x :: l else y :: insert x r
    end.
  Definition isort (l : list A) : list A := fold_right insert [] l.
End Sort.

(* ---------- dataclass fields ---------- *)
(* props: (wire key, required) in dict order; sorted by (not required, key) *)
Definition prop_leb (a b : str * bool) : bool :=
  match snd a, snd b with
  | true, false => true
  | false, true => false
  | _, _ => str_leb (fst a) (fst b)
  end.
Definition dedup_fields (props : list (str * bool)) : list (str * str) :=
  let keys := map fst (isort prop_leb props) in
  combine keys (assign cand_us2 [] (map method_name keys)).

(* ---------- class names and module stems ---------- *)
(* raw: the names given to IRSchema(name=...); IRSchema.__post_init__ replaces each by Names.ir_name of it, and the emitter sanitises that stored name again.  A stored name always contains an
   ASCII letter or digit, so sanitize_module_name is on its token path (module_name_tok, no Unicode oracle).
   Output: (position in the input, (class name, module stem)) in the emitter's sorted order. *)
Definition name_leb (a b : str * nat) : bool := str_leb (fst a) (fst b).
Definition dedup_models (raw : list str) : list (nat * (str * str)) :=
  let names := map ir_name raw in
  let sorted := isort name_leb (combine names (seq 0 (length names))) in
  let ns := map fst sorted in
  combine (map snd sorted)
          (combine (assign cand_class [] (map class_name ns)) (assign cand_us2 [] (map module_name_tok ns))).

(* ---------- enum members ---------- *)
Fixpoint all_some {A} (l : list (option A)) : option (list A) :=
  match l with
  | [] => Some []
  | None :: _ => None
  | Some x :: r => match all_some r with Some xs => Some (x :: xs) | None => None end
  end.
Definition dedup_enum (member : str -> option str) (vals : list str) : option (list str) :=
  match all_some (map member vals) with
  | Some ns => Some (assign cand_us1 [] ns)
  | None => None
  end.

(* ---------- operation ids ---------- *)
(* _deduplicate_operation_ids_globally: [used] = set of method names handed out so far.  An id whose method name
   is used takes the first suffix "_2", "_3", ... whose SANITISED name is unused; that name is then registered. *)
Fixpoint pick_idx (fuel : nat) (cand : nat -> str) (i : nat) (seen : list str) : nat :=
  match fuel with
  | O => i
  | S f => if mem_str (cand i) seen then pick_idx f cand (S i) seen else i
  end.
Definition op_suffixed (id : str) (j : nat) : str := id ++ [95] ++ dec (N.of_nat (j + 2)).
Fixpoint dedup_ops_go (used : list str) (ids : list str) : list str :=
  match ids with
  | [] => []
  | id :: r =>
      let m := method_name id in
      if mem_str m used then
        let k := pick_idx (S (length used)) (fun j => method_name (op_suffixed id j)) 0 used in
        let id' := op_suffixed id k in
        id' :: dedup_ops_go (method_name id' :: used) r
      else id :: dedup_ops_go (m :: used) r
  end.
Definition dedup_ops (ids : list str) : list str := dedup_ops_go [] ids.

(* ---------- endpoint parameters ---------- *)
(* names of op.parameters in order, the request-body parameter name if any ("body", "files", "form_data",
   "bytes_content"), the path variables of the URL template in order.  Result: the signature's names
   before the stable required-first sort. *)
Fixpoint add_missing (vars : list str) (acc : list str) : list str :=
  match vars with
  | [] => acc
  | v :: r => let n := method_name v in
              if mem_str n acc then add_missing r acc else add_missing r (acc ++ [n])
  end.
Definition params (names : list str) (body : option str) (vars : list str) : list str :=
  let ps := map method_name names in
  let ps1 := match body with
             | Some b => if mem_str b ps then ps else ps ++ [b]
             | None => ps
             end in
  add_missing vars ps1.

(* ---------- executable spec predicates ---------- *)
Fixpoint nodupb (l : list str) : bool :=
  match l with
  | [] => true
  | x :: r => negb (mem_str x r) && nodupb r
  end.

(* "x_<digits>" shape (used by the proofs: neither keywords nor reserved names have it) *)
Definition ends_us_digits (s : str) : bool :=
  match span is_digit (rev s) with
  | (_ :: _, c :: _) => c =? 95
  | _ => false
  end.
(* guard F04c: parameter names do not collide after sanitisation *)
Definition guard_F04c (names : list str) : bool := nodupb (map method_name names).
(* guard F04d: no parameter is named like the request-body parameter *)
Definition guard_F04d (names : list str) (body : option str) : bool :=
  match body with Some b => negb (mem_str b (map method_name names)) | None => true end.

(* ---------- component schemas in the loader (core/loader/schemas/extractor.py build_schemas) ----------
   For each raw schema name n in document order: skipped when n or sanitize_class_name(n) is already a key of
   context.parsed_schemas; otherwise parsed: IRSchema.__post_init__ derives the stored name
   from the (already sanitised) name (Names.ir_name), and the parser registers the schema under that name, or under the raw name when that key is taken
   (schema_parser.py "collision detected").  Afterwards every raw name must be found under n or its sanitised
   form, else RuntimeError (None).  Output: (registered key, position of the raw schema whose content it holds). *)
Fixpoint build_keys_go (keys : list (str * nat)) (i : nat) (raw : list str) : list (str * nat) :=
  match raw with
  | [] => keys
  | n :: r =>
      let ks := map fst keys in
      let c1 := class_name n in
      if mem_str n ks || mem_str c1 ks then build_keys_go keys (S i) r
      else let c2 := ir_name c1 in
           build_keys_go (keys ++ [(if mem_str c2 ks then n else c2, i)]) (S i) r
  end.
(* since F02d/ae5b020: one pass over all names; later passes revisit ONLY depth-limit placeholders, never names
   that are simply not registered — flat object schemas (this model's domain) never produce placeholders, so
   there is exactly one pass *)
Definition build_keys (raw : list str) : option (list (str * nat)) :=
  let keys := build_keys_go [] 0 raw in
  let ks := map fst keys in
  if forallb (fun n => mem_str n ks || mem_str (class_name n) ks) raw then Some keys else None.

(* guard F20k: sanitize_class_name is not idempotent on names with one-letter words ("a_b" -> "AB" -> "Ab") *)
Definition guard_F20k (raw : list str) : bool :=
  forallb (fun n => str_eqb (ir_name (class_name n)) (class_name n)) raw.
(* guard F20m: no two schema names collide after sanitisation, and no raw name is the sanitised form of a
   DIFFERENT schema (a raw name found among the sanitised names must be its own sanitised form) *)
Definition guard_F20m (raw : list str) : bool :=
  nodupb (map class_name raw)
  && forallb (fun n => negb (mem_str n (map class_name raw)) || str_eqb n (class_name n)) raw.

(* ---------- whole pipeline for component schemas that are all referenced by operations ----------
   spec -> build_schemas -> the operations' $ref resolution in document order (schema_parser.py: a $ref whose raw
   name is not a key of parsed_schemas is parsed again and registered under its doubly sanitised name, or under the
   raw name when that key is taken) -> ModelsEmitter de-collision over the registered schemas.
   Output: ((module stem, class name), position of the raw schema whose content the class has); None = RuntimeError. *)
Fixpoint refs_go (keys : list (str * nat)) (i : nat) (refs : list str) : list (str * nat) :=
  match refs with
  | [] => keys
  | r :: rest =>
      let ks := map fst keys in
      if mem_str r ks then refs_go keys (S i) rest
      else let c2 := ir_name (class_name r) in
           refs_go (keys ++ [(if mem_str c2 ks then r else c2, i)]) (S i) rest
  end.
Definition pipeline_models (raw : list str) : option (list ((str * str) * nat)) :=
  match build_keys raw with
  | None => None
  | Some keys =>
      let keys' := refs_go keys 0 raw in
      let stored := map (fun ki => class_name (nth (snd ki) raw [])) keys' in   (* name given to IRSchema(...) *)
      Some (map (fun x => ((snd (snd x), fst (snd x)), snd (nth (fst x) keys' ([], O))))
                (dedup_models stored))
  end.
