(* C09 — generator/client_generator.py: ClientGenerator._show_diffs exactly as coded, and the two code
   paths of ClientGenerator.generate (force / first run  vs.  temp-dir + diff) built from the same abstract
   emitters.  No proofs in this file. *)
From PG Require Import Lib.Strs.

(* ================================================================================================
   Part 1: _show_diffs   (as coded since the fix of F09b / F09f)

     has_diff = False
     for new_file in Path(new_dir).rglob("*.py"):
         old_file = Path(old_dir) / new_file.relative_to(new_dir)
         if not old_file.exists():
             has_diff = True; print("Only in newly generated output: …")
         elif old_file.read_bytes() != new_file.read_bytes():
             has_diff = True; print(unified diff, or "Files differ only in line endings: …")
     for old_file in Path(old_dir).rglob("*.py"):
         if not (Path(new_dir) / old_file.relative_to(old_dir)).exists():
             has_diff = True; print("Only in existing output: …")
     return has_diff

   A directory is the list of its regular files (path relative to the directory, as components) with their
   content (code points of the UTF-8 text = the bytes).  What is printed is not modelled, only the decision
   and which files are named. *)
Definition path := list str.
Definition tree := list (path * str).

Definition path_eqb (a b : path) : bool := list_eqb str_eqb a b.

Fixpoint tlookup {C} (p : path) (t : list (path * C)) : option C :=
  match t with
  | [] => None
  | (q, c) :: r => if path_eqb p q then Some c else tlookup p r
  end.

Definition dot_py : str := [46;112;121].
(* rglob("*.py"): fnmatch of the last component against "*.py" *)
Definition is_py (p : path) : bool :=
  match rev p with
  | [] => false
  | name :: _ => suffixb dot_py name
  end.

Definition paths_of {C} (t : list (path * C)) : list path := map fst t.
Definition mem_path (p : path) (l : list path) : bool := existsb (path_eqb p) l.

(* generic in the content type so that the mode model below can reuse it with abstract contents *)
Definition file_differs {C} (same : C -> C -> bool) (old : list (path * C)) (pc : path * C) : bool :=
  is_py (fst pc) &&
  match tlookup (fst pc) old with
  | Some c' => negb (same c' (snd pc))
  | None => true                       (* only in the newly generated output *)
  end.
(* *.py files only in the existing output *)
Definition old_only {C} (old new : list (path * C)) : list (path * C) :=
  filter (fun pc => is_py (fst pc) && negb (mem_path (fst pc) (paths_of new))) old.

(* the relative paths _show_diffs names *)
Definition differing_g {C} (same : C -> C -> bool) (old new : list (path * C)) : list path :=
  map fst (filter (file_differs same old) new) ++ map fst (old_only old new).

Definition show_diffs_g {C} (same : C -> C -> bool) (old new : list (path * C)) : bool :=
  match differing_g same old new with [] => false | _ => true end.

Definition show_diffs (old new : tree) : bool := show_diffs_g str_eqb old new.

(* the files the property talks about *)
Definition py_files {C} (t : list (path * C)) : list (path * C) := filter (fun pc => is_py (fst pc)) t.

(* ---- guard (executable) for the remaining finding class of the diff decision ---- *)
(* F09g: the non-*.py files of the two trees coincide *)
Definition sub_nonpy (a b : tree) : bool :=
  forallb (fun pc => is_py (fst pc) ||
                     match tlookup (fst pc) b with Some c' => str_eqb c' (snd pc) | None => false end) a.
Definition guard_F09g (old new : tree) : bool := sub_nonpy old new && sub_nonpy new old.

(* a directory listing has each path once *)
Fixpoint nodup_paths (l : list path) : bool :=
  match l with [] => true | p :: r => negb (mem_path p r) && nodup_paths r end.
Definition wf_tree {C} (t : list (path * C)) : bool := nodup_paths (paths_of t).

(* trees as finite maps: same files with the same bytes *)
Definition tree_sub (a b : tree) : bool :=
  forallb (fun pc => match tlookup (fst pc) b with Some c' => str_eqb c' (snd pc) | None => false end) a.
Definition tree_eqb (a b : tree) : bool := tree_sub a b && tree_sub b a.

(* ================================================================================================
   Part 2: the two code paths of ClientGenerator.generate

   Abstract emitters: a file's text is a token naming the emitter and the part of the input it depends on.
   Distinct tokens = distinct text (the renderers list one class per status code / one method per
   operation id, so this is how the real files behave); [CFixed k] is any text that is a function of
   (document, options) alone and is produced by the same call in both paths. *)
Definition registry := list (str * list N).   (* .exception_registry.json: client package -> sorted codes *)

Inductive content :=
| CEmpty                                  (* "" written by the __init__.py loops *)
| CRichInit (core : str)                  (* _write_client_init, when core_package was given *)
| CAliases (codes : list N)               (* core/exception_aliases.py *)
| CCoreInit (codes : list N)              (* core/__init__.py re-exports the alias classes *)
| CRegistry (r : registry)
| CEndpoints (ids : list str)             (* endpoints/<tag>.py: one method (+Protocol entry) per op id *)
| CMock (ids : list str)                  (* mocks/endpoints/mock_<tag>.py *)
| CFixed (k : N).

Definition codes_eqb (a b : list N) : bool := list_eqb N.eqb a b.
Definition registry_eqb (a b : registry) : bool := list_eqb (pair_eqb str_eqb codes_eqb) a b.
Definition content_eqb (a b : content) : bool :=
  match a, b with
  | CEmpty, CEmpty => true
  | CRichInit x, CRichInit y => str_eqb x y
  | CAliases x, CAliases y => codes_eqb x y
  | CCoreInit x, CCoreInit y => codes_eqb x y
  | CRegistry x, CRegistry y => registry_eqb x y
  | CEndpoints x, CEndpoints y => list_eqb str_eqb x y
  | CMock x, CMock y => list_eqb str_eqb x y
  | CFixed x, CFixed y => N.eqb x y
  | _, _ => false
  end.
Definition atree := list (path * content).

(* ---- decimal rendering of a counter (f"{n}") ---- *)
Fixpoint dec_fuel (f : nat) (n : N) : str :=
  match f with
  | O => []
  | S f' => if n <? 10 then [48 + n] else dec_fuel f' (n / 10) ++ [48 + n mod 10]
  end.
Definition dec (n : N) : str := dec_fuel (S (N.size_nat n)) n.

(* ---- EndpointsEmitter._deduplicate_operation_ids_globally (mutates op.operation_id in place) ----
   as coded since the fix of F07a:
     used_methods = set()
     for op in operations:
         method_name = sanitize_method_name(op.operation_id)
         if method_name in used_methods:
             suffix = 2
             while sanitize_method_name(f"{op.operation_id}_{suffix}") in used_methods: suffix += 1
             op.operation_id = f"{op.operation_id}_{suffix}"
             method_name = sanitize_method_name(op.operation_id)
         used_methods.add(method_name)
   The while loop is given fuel |used|+1 (enough whenever the suffixed candidates have distinct method names;
   with a sanitiser that maps all of them to one used name the real loop does not terminate either). *)
Section Dedup.
  Variable san : str -> str.
  Definition with_suffix (i : str) (k : N) : str := i ++ [95] ++ dec k.
  Fixpoint free_suffix (fuel : nat) (i : str) (k : N) (used : list str) : N :=
    match fuel with
    | O => k
    | S f => if mem_str (san (with_suffix i k)) used then free_suffix f i (k + 1) used else k
    end.
  Fixpoint dedup_go (used : list str) (ids : list str) : list str :=
    match ids with
    | [] => []
    | i :: r =>
        if mem_str (san i) used then
          let i' := with_suffix i (free_suffix (S (length used)) i 2 used) in
          i' :: dedup_go (san i' :: used) r
        else i :: dedup_go (san i :: used) r
    end.
  Definition dedup_ops (ids : list str) : list str := dedup_go [] ids.
End Dedup.

(* ---- the input of one generate() call, reduced to what the two paths treat differently ---- *)
Record gen_input := {
  g_client : str;                 (* output_package (registry key) *)
  g_out : path;                   (* out_dir relative to the project root *)
  g_core : path;                  (* core_dir relative to the project root *)
  g_core_given : bool;            (* the core_package argument was supplied *)
  g_shared : bool;                (* ExceptionsEmitter._is_shared_core(core_dir): depends on the depth only,
                                     equal for the real and the temporary root *)
  g_ops : list (str * str);       (* (tag module, operationId) in document order, one tag per operation *)
  g_codes : list N;               (* sorted distinct 4xx/5xx codes declared by this document *)
}.

Fixpoint is_prefix_path (a b : path) : bool :=
  match a, b with
  | [], _ => true
  | x :: a', y :: b' => str_eqb x y && is_prefix_path a' b'
  | _, [] => false
  end.
Definition core_inside_out (g : gen_input) : bool := is_prefix_path (g_out g) (g_core g).

(* sorted(set(…)) on status codes *)
Fixpoint insert_N (x : N) (l : list N) : list N :=
  match l with
  | [] => [x]
  | y :: r => if x <? y then x :: l else if x =? y then l else y :: insert_N x r
  end.
Definition sort_codes (l : list N) : list N := fold_right insert_N [] l.

Fixpoint reg_set (k : str) (v : list N) (r : registry) : registry :=
  match r with
  | [] => [(k, v)]
  | (k', v') :: r' => if str_eqb k k' then (k', v) :: r' else (k', v') :: reg_set k v r'
  end.

(* ExceptionsEmitter.emit: (alias codes, registry written) given the registry found in the core dir *)
Definition exceptions_emit (g : gen_input) (found : registry) : list N * option registry :=
  if g_shared g then
    let r' := reg_set (g_client g) (sort_codes (g_codes g)) found in
    (sort_codes (concat (map snd r')), Some r')
  else (sort_codes (g_codes g), None).

Definition s_init : str := [95;95;105;110;105;116;95;95;46;112;121].                 (* "__init__.py" *)
Definition s_client_py : str := [99;108;105;101;110;116;46;112;121].                (* "client.py" *)
Definition s_endpoints : str := [101;110;100;112;111;105;110;116;115].              (* "endpoints" *)
Definition s_mocks : str := [109;111;99;107;115].                                    (* "mocks" *)
Definition s_mock_ : str := [109;111;99;107;95].                                     (* "mock_" *)
Definition s_mock_client : str := [109;111;99;107;95;99;108;105;101;110;116;46;112;121].  (* "mock_client.py" *)
Definition s_models : str := [109;111;100;101;108;115].                              (* "models" *)
Definition s_aliases_py : str :=
  [101;120;99;101;112;116;105;111;110;95;97;108;105;97;115;101;115;46;112;121].     (* "exception_aliases.py" *)
Definition s_registry_json : str :=
  [46;101;120;99;101;112;116;105;111;110;95;114;101;103;105;115;116;114;121;46;106;115;111;110].
Definition s_py_typed : str := [112;121;46;116;121;112;101;100].                      (* "py.typed" *)
Definition s_exceptions_py : str := [101;120;99;101;112;116;105;111;110;115;46;112;121].

(* tags in first-occurrence order; ids of one tag *)
Fixpoint tags_of (ops : list (str * str)) (seen : list str) : list str :=
  match ops with
  | [] => []
  | (t, _) :: r => if mem_str t seen then tags_of r seen else t :: tags_of r (t :: seen)
  end.
Definition ids_of_tag (t : str) (ops : list (str * str)) : list str :=
  map snd (filter (fun o => str_eqb (fst o) t) ops).

(* ---- packages between the client directory and a core nested two or more levels inside it (output package c1,
   core c1.x.core: c1/x).  Since the fix of F09h every path ensures the __init__.py chain of the core's ancestors:
   the direct path whenever core_dir <> out_dir, the temp tree of the diff path with the same loop. *)
Fixpoint proper_prefixes (p : path) : list path :=      (* [], [a], [a;b] … strictly shorter than p *)
  match p with
  | [] => []
  | x :: r => [] :: map (cons x) (proper_prefixes r)
  end.
Fixpoint drop_prefix (a b : path) : option path :=      (* b = a ++ rest *)
  match a, b with
  | [], _ => Some b
  | x :: a', y :: b' => if str_eqb x y then drop_prefix a' b' else None
  | _, [] => None
  end.
(* the intermediate package directories strictly between out_dir and core_dir *)
Definition gap_dirs (g : gen_input) : list path :=
  match drop_prefix (g_out g) (g_core g) with
  | Some rest => map (fun q => g_out g ++ q) (filter (fun q => match q with [] => false | _ => true end) (proper_prefixes rest))
  | None => []
  end.
Definition gap_inits (g : gen_input) : list (path * content) := map (fun d => (d ++ [s_init], CEmpty)) (gap_dirs g).

(* files of one run of the emitters: [ids] are the operation ids the endpoint / mock emitters see *)
Definition emitted (g : gen_input) (root_init : content) (aliases : list N) (reg : option registry)
    (ids : list str) : atree :=
  let ops' := combine (map fst (g_ops g)) ids in
  let tags := tags_of ops' [] in
  [ (g_core g ++ [s_aliases_py], CAliases aliases);
    (g_core g ++ [s_init], CCoreInit aliases);
    (g_core g ++ [s_exceptions_py], CFixed 10);
    (g_core g ++ [s_py_typed], CFixed 11) ]
  ++ match reg with Some r => [(g_core g ++ [s_registry_json], CRegistry r)] | None => [] end
  ++ [ (g_out g ++ [s_init], root_init);
       (g_out g ++ [s_py_typed], CFixed 12);
       (g_out g ++ [s_models; s_init], CFixed 13);
       (g_out g ++ [s_endpoints; s_init], CFixed 14) ]
  ++ map (fun t => (g_out g ++ [s_endpoints; t ++ dot_py], CEndpoints (ids_of_tag t ops'))) tags
  ++ [ (g_out g ++ [s_client_py], CFixed 15);
       (g_out g ++ [s_mocks; s_init], CFixed 16);
       (g_out g ++ [s_mocks; s_mock_client], CFixed 17);
       (g_out g ++ [s_mocks; s_endpoints; s_init], CFixed 18) ]
  ++ map (fun t => (g_out g ++ [s_mocks; s_endpoints; s_mock_ ++ t ++ dot_py], CMock (ids_of_tag t ops'))) tags
  ++ gap_inits g.

Section Modes.
  Variable san : str -> str.

  Definition root_init (g : gen_input) : content := if g_core_given g then CRichInit (g_client g) else CEmpty.

  (* force / first-run path: out_dir is removed first (with the registry when the core lives inside it);
     EndpointsEmitter.emit runs TWICE on the same IR objects (the second call sits in the f-string of a
     progress message), the mocks emitter then sees the twice de-duplicated ids (harmless since the fix of
     F07a: the pass is the identity on its own collision-free output); _write_client_init writes the rich
     __init__.py last when core_package was given.  [found] = the registry in the core directory before the run. *)
  Definition tree_force (g : gen_input) (found : registry) : atree :=
    let found' := if core_inside_out g then [] else found in
    let (aliases, reg) := exceptions_emit g found' in
    emitted g (root_init g) aliases reg (dedup_ops san (dedup_ops san (map snd (g_ops g)))).

  (* temp-dir path: fresh temporary project root; since the fix of F09d the registry of the EXISTING core
     directory ([found]) is copied into the temporary core first; every emitter once; since the fix of F09c
     _write_client_init is called here as well. *)
  Definition tree_temp (g : gen_input) (found : registry) : atree :=
    let (aliases, reg) := exceptions_emit g found in
    emitted g (root_init g) aliases reg (dedup_ops san (map snd (g_ops g))).

  Definition under (d : path) (t : atree) : atree := filter (fun pc => is_prefix_path d (fst pc)) t.

  (* the .exception_registry.json found in the existing core directory (absent / unreadable as a registry: {}) *)
  Definition existing_registry (g : gen_input) (existing : atree) : registry :=
    match tlookup (g_core g ++ [s_registry_json]) existing with
    | Some (CRegistry r) => r
    | _ => []
    end.

  (* the two _show_diffs calls of the non-force path *)
  Definition rerun_differing (g : gen_input) (existing : atree) : list path :=
    let temp := tree_temp g (existing_registry g existing) in
    differing_g content_eqb (under (g_out g) existing) (under (g_out g) temp)
    ++ (if path_eqb (g_core g) (g_out g) then []
        else differing_g content_eqb (under (g_core g) existing) (under (g_core g) temp)).

  Inductive outcome := ROk | RDifferences.
  (* generate(force=False) over an existing out_dir: the file system is returned unchanged on both
     branches — everything is written under the TemporaryDirectory *)
  Definition run_noforce (g : gen_input) (existing : atree) : outcome * atree :=
    match rerun_differing g existing with
    | [] => (ROk, existing)
    | _ => (RDifferences, existing)
    end.

  (* the existing tree after generate(force) of this client, optionally followed by the generation of another
     client that uses the same core ([touched]): that run finds the whole __init__.py chain in place and, as far as
     this client's directories are concerned, changes nothing but the shared core files already accounted for by [found] *)
  Definition existing_after (g : gen_input) (found : registry) (touched : bool) : atree := tree_force g found.

  Fixpoint nodupb (l : list str) : bool :=
    match l with [] => true | x :: r => negb (mem_str x r) && nodupb r end.
  (* the de-duplication pass produced distinct method names — what the real loop guarantees whenever it
     terminates; in the model this can only fail when the suffix search runs out of fuel (not a finding) *)
  Definition dedup_total (g : gen_input) : bool := nodupb (map san (dedup_ops san (map snd (g_ops g)))).
  (* layout sanity (not a finding): no two emitted files share a path — false e.g. when core_package equals
     the output package, where the two __init__.py are one file and the list model is not exact *)
  Definition wf_layout (g : gen_input) : bool := wf_tree (tree_temp g []).
End Modes.
