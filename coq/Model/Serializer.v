(* C16 — model of core/utils.py DataclassSerializer on a heap, so that reference cycles exist.
   Objects are addressed by index (= id(obj)).  Two kinds of dataclass instance are distinguished,
   because cattrs treats them differently and the serializer's cycle protection depends on it:
     SData : every attribute is annotated with something cattrs can follow (Any, resolvable classes):
             unstructure_to_dict converts the whole sub-graph itself, WITHOUT any cycle guard;
     SFwd  : reference attributes carry an unresolvable / partially quoted forward reference
             (Optional["Node"], List["Node"], Dict[str, "Node"] on locally defined classes — the
             shape the project's own tests use): cattrs leaves those attribute values as they are
             and _ensure_all_dicts finishes the job, with the visited set.
   Walks are fuel-bounded; running out of fuel is the model of RecursionError.  Keys are the
   already-renamed wire keys.  No proofs here. *)
From PG Require Import Lib.Strs Model.Converter.

Inductive sobj :=
| SNone
| SScalar (j : json)                 (* str / int / float / bool *)
| SList (items : list nat)
| SDict (kvs : list (str * nat))
| SData (fs : list (str * nat))      (* dataclass instance, attributes followed by cattrs *)
| SFwd (fs : list (str * nat)).      (* dataclass instance, attributes left raw by cattrs *)

Definition heap := list sobj.
Definition deref (h : heap) (r : nat) : sobj := nth r h SNone.

(* what converter.unstructure returns: JSON, with raw (unconverted) Python objects at some leaves *)
Inductive mixed :=
| MNull | MScalar (j : json) | MArr (l : list mixed) | MObj (kvs : list (str * mixed))
| MRaw (r : nat).

(* outcomes of the serializer *)
Inductive sres (A : Type) :=
| SOk (a : A)
| SFuel.         (* RecursionError (or the exponential walk it degenerates into) *)
Arguments SOk {A} a. Arguments SFuel {A}.

Definition sbind {A B} (r : sres A) (f : A -> sres B) : sres B :=
  match r with SOk a => f a | SFuel => SFuel end.

Definition smap {A B} (f : A -> sres B) : list A -> sres (list B) :=
  fix go (l : list A) : sres (list B) :=
    match l with
    | [] => SOk []
    | x :: r => sbind (f x) (fun y => sbind (go r) (fun ys => SOk (y :: ys)))
    end.

Definition is_null (j : json) : bool := match j with JNull => true | _ => false end.

(* converter.unstructure(obj): full recursive conversion by runtime class, no visited set; the
   attributes of an SFwd instance are copied as they are *)
Fixpoint cattrs_walk (fuel : nat) (h : heap) (r : nat) : sres mixed :=
  match fuel with
  | O => SFuel
  | S f =>
      match deref h r with
      | SNone => SOk MNull
      | SScalar j => SOk (MScalar j)
      | SList items => sbind (smap (cattrs_walk f h) items) (fun l => SOk (MArr l))
      | SDict kvs | SData kvs =>
          sbind (smap (fun kv => sbind (cattrs_walk f h (snd kv)) (fun m => SOk (fst kv, m))) kvs)
                (fun l => SOk (MObj l))
      | SFwd kvs => SOk (MObj (map (fun kv => (fst kv, MRaw (snd kv))) kvs))
      end
  end.

Fixpoint remove_none_values (j : json) : json :=
  match j with
  | JObj kvs =>
      JObj ((fix go (kvs : list (str * json)) : list (str * json) :=
               match kvs with
               | [] => []
               | (k, v) :: r => if is_null v then go r else (k, remove_none_values v) :: go r
               end) kvs)
  | JArr l => JArr (map remove_none_values l)
  | _ => j
  end.

(* the dict loop of _ensure_all_dicts: a None value is skipped, and so is a value that becomes None *)
Definition dict_loop {A} (ens : A -> sres json) : list (str * A) -> sres (list (str * json)) :=
  fix go (kvs : list (str * A)) : sres (list (str * json)) :=
    match kvs with
    | [] => SOk []
    | (k, v) :: r =>
        sbind (ens v) (fun p => sbind (go r) (fun rest => SOk (if is_null p then rest else (k, p) :: rest)))
    end.

(* _ensure_all_dicts on cattrs output; [raw] handles an unconverted object *)
Fixpoint ens_mixed (raw : nat -> sres json) (m : mixed) : sres json :=
  match m with
  | MNull => SOk JNull
  | MScalar j => SOk j
  | MArr l => sbind (smap (ens_mixed raw) l) (fun l' => SOk (JArr l'))
  | MObj kvs => sbind (dict_loop (ens_mixed raw) kvs) (fun l => SOk (JObj l))
  | MRaw r => raw r
  end.

(* [ser fuel h true]  = _serialize_with_tracking(obj, visited)
   [ser fuel h false] = _ensure_all_dicts(obj, visited) on a raw (unconverted) object *)
Fixpoint ser (fuel : nat) (h : heap) (top : bool) (visited : list nat) (r : nat) : sres json :=
  match fuel with
  | O => SFuel
  | S f =>
      match deref h r with
      | SNone => SOk JNull
      | SScalar j => SOk j
      | o =>
          if top then
            if existsb (Nat.eqb r) visited then SOk JNull
            else match o with
                 | SList items =>
                     sbind (smap (ser f h true (r :: visited)) items) (fun l => SOk (JArr l))
                 | SData _ | SFwd _ =>
                     sbind (cattrs_walk f h r) (fun m =>
                     sbind (ens_mixed (ser f h false (r :: visited)) m) (fun j =>
                     SOk (remove_none_values j)))
                 | _ => (* dicts and everything else: cattrs, then _ensure_all_dicts (dicts are not tracked in
                           visited) and _remove_none_values *)
                     sbind (cattrs_walk f h r) (fun m =>
                     sbind (ens_mixed (ser f h false visited) m) (fun j =>
                     SOk (remove_none_values j)))
                 end
          else
            match o with
            | SData _ | SFwd _ => ser f h true visited r
            | SDict kvs => sbind (dict_loop (ser f h false visited) kvs) (fun l => SOk (JObj l))
            | SList items => sbind (smap (ser f h false visited) items) (fun l => SOk (JArr l))
            | _ => SOk JNull
            end
      end
  end.

(* the property's own statement about a result *)
Fixpoint no_null_keys (j : json) : bool :=
  match j with
  | JObj kvs => (fix go (kvs : list (str * json)) : bool :=
                   match kvs with
                   | [] => true
                   | (_, v) :: r => negb (is_null v) && no_null_keys v && go r
                   end) kvs
  | JArr l => forallb no_null_keys l
  | _ => true
  end.

Definition serializer_ok (r : sres json) : Prop := exists j, r = SOk j /\ no_null_keys j = true.

(* recursion budget of the model: quadratic, because a chain of up to |h| containers can sit between two
   dataclass visits (Proofs/SerializerCyclic.v shows it suffices whenever the walk is finite at all) *)
Definition fuel_for (h : heap) : nat := (length h + 2) * (length h + 2).
Definition serialize_top (h : heap) (r : nat) : sres json := ser (fuel_for h) h true [] r.

(* executable guard of the finding, for any heap: the walk of the faithful model does not exhaust its
   recursion budget (F16a) *)
Definition guard_F16a (h : heap) (r : nat) : bool :=
  match serialize_top h r with SFuel => false | _ => true end.
(* guard of the positive theorem: every stored reference points to a smaller index (topologically
   ordered, hence acyclic), no forward-reference dataclass, scalar cells hold scalars *)
Definition refs (o : sobj) : list nat :=
  match o with
  | SList items => items
  | SDict kvs | SData kvs | SFwd kvs => map snd kvs
  | _ => []
  end.
Fixpoint ranked_from (i : nat) (h : heap) : bool :=
  match h with
  | [] => true
  | o :: r => forallb (fun x => Nat.ltb x i) (refs o) && ranked_from (S i) r
  end.
Definition ranked (h : heap) : bool := ranked_from 0 h.
Definition fwd_free (h : heap) : bool :=
  forallb (fun o => match o with SFwd _ => false | _ => true end) h.
Definition scalar_json (j : json) : bool :=
  match j with JBool _ | JInt _ | JFloat _ | JStr _ => true | _ => false end.
Definition scalars_ok (h : heap) : bool :=
  forallb (fun o => match o with SScalar j => scalar_json j | _ => true end) h.
