(* C16 — model of core/utils.py DataclassSerializer on a heap, so that reference cycles exist.
   Objects are addressed by index (= id(obj)).  The walk cattrs does inside unstructure_to_dict has
   no cycle guard; it is fuel-bounded here and running out of fuel is the model of RecursionError.
   Field values are walked by their runtime class (exact for Any-typed fields and for instances that
   conform to their annotations); keys are the already-renamed wire keys.  No proofs here. *)
From PG Require Import Lib.Strs Model.Converter.

Inductive sobj :=
| SNone
| SScalar (j : json)                 (* str / int / float / bool *)
| SList (items : list nat)
| SDict (kvs : list (str * nat))
| SData (fs : list (str * nat)).     (* a dataclass instance: wire key -> attribute *)

Definition heap := list sobj.
Definition deref (h : heap) (r : nat) : sobj := nth r h SNone.

(* converter.unstructure(obj): full recursive conversion, no visited set *)
Fixpoint cattrs_walk (fuel : nat) (h : heap) (r : nat) : result json :=
  match fuel with
  | O => Err                                        (* RecursionError *)
  | S f =>
      match deref h r with
      | SNone => Ok JNull
      | SScalar j => Ok j
      | SList items => bind (map_result (cattrs_walk f h) items) (fun l => Ok (JArr l))
      | SDict kvs | SData kvs =>
          bind (map_result (fun kv => bind (cattrs_walk f h (snd kv)) (fun j => Ok (fst kv, j))) kvs)
               (fun l => Ok (JObj l))
      end
  end.

Definition is_null (j : json) : bool := match j with JNull => true | _ => false end.

(* _ensure_all_dicts on cattrs output (which holds no dataclass instance any more): drops None-valued
   keys, before and after processing *)
Fixpoint ensure_all_dicts (j : json) : json :=
  match j with
  | JObj kvs =>
      JObj ((fix go (kvs : list (str * json)) : list (str * json) :=
               match kvs with
               | [] => []
               | (k, v) :: r =>
                   if is_null v then go r
                   else let p := ensure_all_dicts v in if is_null p then go r else (k, p) :: go r
               end) kvs)
  | JArr l => JArr (map ensure_all_dicts l)
  | _ => j
  end.

Fixpoint remove_none_values (j : json) : json :=
  match j with
  | JObj kvs =>
      JObj ((fix go (kvs : list (str * json)) : list (str * json) :=
               match kvs with
               | [] => []
               | (k, v) :: r => if is_null v then go r else (k, remove_none_values v) :: go r
               end) kvs)
  | JArr l => JArr (map remove_none_values l)
  | _ => j
  end.

(* _serialize_with_tracking(obj, visited) *)
Fixpoint serialize (fuel : nat) (h : heap) (visited : list nat) (r : nat) : result json :=
  match fuel with
  | O => Err
  | S f =>
      match deref h r with
      | SNone => Ok JNull
      | SScalar j => Ok j
      | o =>
          if existsb (Nat.eqb r) visited then Ok JNull
          else match o with
               | SList items =>
                   bind (map_result (serialize f h (r :: visited)) items) (fun l => Ok (JArr l))
               | SData _ =>
                   bind (cattrs_walk f h r) (fun j => Ok (remove_none_values (ensure_all_dicts j)))
               | _ => bind (cattrs_walk f h r) (fun j => Ok (remove_none_values j))
               end
      end
  end.

(* the property's own statement about a result *)
Fixpoint no_null_keys (j : json) : bool :=
  match j with
  | JObj kvs => (fix go (kvs : list (str * json)) : bool :=
                   match kvs with
                   | [] => true
                   | (_, v) :: r => negb (is_null v) && no_null_keys v && go r
                   end) kvs
  | JArr l => forallb no_null_keys l
  | _ => true
  end.

Definition serializer_ok (r : result json) : Prop := exists j, r = Ok j /\ no_null_keys j = true.

(* executable guard (finding F16a and relatives): every reference stored in an object points to an
   object with a smaller index — a topologically ordered, hence acyclic, heap *)
Definition refs (o : sobj) : list nat :=
  match o with
  | SList items => items
  | SDict kvs | SData kvs => map snd kvs
  | _ => []
  end.
Fixpoint ranked_from (i : nat) (h : heap) : bool :=
  match h with
  | [] => true
  | o :: r => forallb (fun x => Nat.ltb x i) (refs o) && ranked_from (S i) r
  end.
Definition ranked (h : heap) : bool := ranked_from 0 h.

(* guard used by the correspondence run (any numbering): no cycle reachable from r passes through a
   dict or a dataclass; decided by walking with an explicit path, fuel = heap size + 1 *)
Fixpoint acyclic_walk (fuel : nat) (h : heap) (path : list nat) (r : nat) : bool :=
  match fuel with
  | O => false
  | S f =>
      if existsb (Nat.eqb r) path then false
      else forallb (acyclic_walk f h (r :: path)) (refs (deref h r))
  end.
(* list objects on the serializer's own path are protected by the visited set; everything below a
   dict / dataclass is walked by cattrs without protection *)
Fixpoint guard_walk (fuel : nat) (h : heap) (visited : list nat) (r : nat) : bool :=
  match fuel with
  | O => false
  | S f =>
      match deref h r with
      | SList items => if existsb (Nat.eqb r) visited then true
                       else forallb (guard_walk f h (r :: visited)) items
      | SDict _ | SData _ => if existsb (Nat.eqb r) visited then true
                             else acyclic_walk (S (length h)) h [] r
      | _ => true
      end
  end.
Definition guard_F16a (h : heap) (r : nat) : bool := guard_walk (S (length h)) h [] r.

Definition fuel_for (h : heap) : nat := 2 * length h + 4.
Definition serialize_top (h : heap) (r : nat) : result json := serialize (fuel_for h) h [] r.
