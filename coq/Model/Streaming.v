(* C18 — model of core/streaming_helpers.py (iter_bytes, iter_ndjson, iter_sse, _parse_sse_event,
   iter_sse_events_text) and of the httpx / CPython code they sit on:
     httpx.Response.aiter_bytes / aiter_text / aiter_lines, ByteChunker(None), TextChunker(None),
     TextDecoder (CPython incremental UTF-8 decoder), LineDecoder.decode / flush, str.splitlines.
   The httpx/CPython part is MODELLED, NOT VERIFIED (DESIGN §6); it is tied to the installed code by the
   correspondence run like everything else.  No proofs in this file. *)
From PG Require Import Lib.Strs.
From PG Require Export Gen.T_C18.
From Coq Require Export ZArith.
Open Scope N_scope.

Definition bytes := list N.

Definition nonemptyb {A} (l : list A) : bool := match l with [] => false | _ :: _ => true end.

(* newline_chars, whitespace_chars, f_data, f_event, f_id, f_retry, c_colon, c_join come from Gen.T_C18
   (regenerated from httpx/_decoders.py, streaming_helpers.py and the interpreter on every run). *)
Definition is_nl (c : N) : bool := existsb (N.eqb c) newline_chars.
Definition is_ws (c : N) : bool := existsb (N.eqb c) whitespace_chars.

(* ====================================================================================== *)
(* 1. CPython's incremental UTF-8 decoder, codecs.getincrementaldecoder("utf-8")(errors="replace"), as httpx
      TextDecoder creates it.  State = the pending (not yet decodable) bytes, exactly what CPython keeps
      (decoder.getstate()[0]).  Ill-formed input is INSIDE the model: every maximal ill-formed prefix becomes one
      U+FFFD and decoding resumes at the offending byte (unicodeobject.c / stringlib/codecs.h). *)
Inductive ucls := UChar (c : N) | UMore | UBad.

Definition in_rng (lo hi b : N) : bool := (lo <=? b) && (b <=? hi).
Definition is_cont (b : N) : bool := in_rng 128 191 b.
(* Unicode table 3-7: legal second byte for each lead byte *)
Definition second_ok (b0 b1 : N) : bool :=
  if b0 =? 224 then in_rng 160 191 b1
  else if b0 =? 237 then in_rng 128 159 b1
  else if b0 =? 240 then in_rng 144 191 b1
  else if b0 =? 244 then in_rng 128 143 b1
  else is_cont b1.

(* [p] = pending bytes followed by the byte just read (1..4 bytes) *)
Definition classify (p : bytes) : ucls :=
  match p with
  | [b0] => if b0 <? 128 then UChar b0 else if in_rng 194 244 b0 then UMore else UBad
  | [b0; b1] =>
      if second_ok b0 b1
      then (if b0 <? 224 then UChar ((b0 - 192) * 64 + (b1 - 128)) else UMore)
      else UBad
  | [b0; b1; b2] =>
      if is_cont b2
      then (if b0 <? 240 then UChar ((b0 - 224) * 4096 + (b1 - 128) * 64 + (b2 - 128)) else UMore)
      else UBad
  | [b0; b1; b2; b3] =>
      if is_cont b3
      then UChar ((b0 - 240) * 262144 + (b1 - 128) * 4096 + (b2 - 128) * 64 + (b3 - 128))
      else UBad
  | _ => UBad
  end.

(* strict decoding (errors="strict"): None where CPython raises UnicodeDecodeError.  Only used to say which streams
   are well-formed (and to prove that the replace decoder agrees with it there). *)
Fixpoint u_strict (p : bytes) (bs : bytes) : option (bytes * str) :=
  match bs with
  | [] => Some (p, [])
  | b :: r =>
      match classify (p ++ [b]) with
      | UChar c => match u_strict [] r with Some (p', s) => Some (p', c :: s) | None => None end
      | UMore => u_strict (p ++ [b]) r
      | UBad => None
      end
  end.
Definition utf8_wf (bs : bytes) : bool := match u_strict [] bs with Some _ => true | None => false end.

(* one byte read in the empty state *)
Definition u_start (b : N) : bytes * str :=
  match classify [b] with
  | UChar c => ([], [c])
  | UMore => ([b], [])
  | UBad => ([], [65533])                       (* invalid start byte *)
  end.

(* "\xED" followed by A0..BF (a UTF-8-encoded surrogate) at the end of the data: CPython keeps both bytes pending in
   non-final mode ("Truncated surrogate code in range D800-DFFF", for the surrogatepass handler) and reports the two
   errors one byte later; the text produced is the same, only later. *)
Definition sur_prefix (p : bytes) : bool :=
  match p with [b0; b1] => (b0 =? 237) && in_rng 160 191 b1 | _ => false end.

(* one byte read with pending bytes [p] *)
Definition u_step (p : bytes) (b : N) : bytes * str :=
  match p with
  | [] => u_start b
  | _ :: _ =>
      if sur_prefix p then let '(p', s) := u_start b in (p', 65533 :: 65533 :: s)
      else match classify (p ++ [b]) with
           | UChar c => ([], [c])
           | UMore => (p ++ [b], [])
           | UBad =>
               if sur_prefix (p ++ [b]) then (p ++ [b], [])
               else let '(p', s) := u_start b in (p', 65533 :: s)   (* U+FFFD for [p], resume at b *)
           end
  end.

(* decoder.decode(chunk): returns the new pending bytes and the text produced *)
Fixpoint u_run (p : bytes) (bs : bytes) : bytes * str :=
  match bs with
  | [] => (p, [])
  | b :: r =>
      let '(p1, s1) := u_step p b in
      let '(p2, s2) := u_run p1 r in
      (p2, s1 ++ s2)
  end.

(* decoder.decode(b"", final=True): a truncated sequence becomes one U+FFFD (two for a pending surrogate prefix) *)
Definition u_flush (p : bytes) : str :=
  match p with [] => [] | _ => if sur_prefix p then [65533; 65533] else [65533] end.

(* the whole byte string in one go: bytes.decode("utf-8", "replace") *)
Definition utf8_decode (bs : bytes) : str := let '(p, s) := u_run [] bs in s ++ u_flush p.

(* ====================================================================================== *)
(* 2. httpx Response.aiter_bytes (stream not yet read): ByteChunker(None) drops empty chunks,
      the identity content decoder passes them through.  iter_bytes yields exactly these. *)
Definition iter_bytes (cs : list bytes) : list bytes := filter nonemptyb cs.

(* TextChunker(chunk_size=None).decode *)
Definition text_chunker (t : str) : list str := match t with [] => [] | _ => [t] end.

(* Response.aiter_text: decode every (non-empty) byte chunk, drop empty text, flush at the end *)
Fixpoint text_run (p : bytes) (cs : list bytes) : list str :=
  match cs with
  | [] => text_chunker (u_flush p)
  | c :: r => let '(p', t) := u_run p c in text_chunker t ++ text_run p' r
  end.
Definition aiter_text (cs : list bytes) : list str := text_run [] (iter_bytes cs).

(* ====================================================================================== *)
(* 3. str.splitlines: a one-pass scanner over the newline set.  State = (current line, a '\r' was
      just read and its line is not yet emitted).  "\r\n" is one terminator. *)
Definition slstate := (str * bool)%type.

Definition sl_step (st : slstate) (c : N) : slstate * list str :=
  let '(cur, cr) := st in
  if cr then
    if c =? 10 then (([], false), [cur])
    else if c =? 13 then (([], true), [cur])
    else if is_nl c then (([], false), [cur; []])
    else (([c], false), [cur])
  else
    if c =? 13 then ((cur, true), [])
    else if is_nl c then (([], false), [cur])
    else ((cur ++ [c], false), []).

Fixpoint sl_run (st : slstate) (s : str) : slstate * list str :=
  match s with
  | [] => (st, [])
  | c :: r =>
      let '(st1, o1) := sl_step st c in
      let '(st2, o2) := sl_run st1 r in
      (st2, o1 ++ o2)
  end.

(* end of string: a pending '\r' terminates its line; an unterminated non-empty tail is a line *)
Definition sl_fin (st : slstate) : list str :=
  let '(cur, cr) := st in
  if cr then [cur] else match cur with [] => [] | _ => [cur] end.

Definition splitlines (s : str) : list str :=
  let '(st, o) := sl_run ([], false) s in o ++ sl_fin st.

(* ====================================================================================== *)
(* 4. httpx LineDecoder, statement for statement.  buffer : list[str], trailing_cr : bool *)
Definition ldstate := (list str * bool)%type.

Definition ld_decode (st : ldstate) (text : str) : ldstate * list str :=
  let '(buf, tcr) := st in
  (* if self.trailing_cr: text = "\r" + text; self.trailing_cr = False *)
  let text1 := if tcr then 13 :: text else text in
  (* if text.endswith("\r"): self.trailing_cr = True; text = text[:-1] *)
  let tcr2 := nonemptyb text1 && (last text1 0 =? 13) in
  let text2 := if tcr2 then removelast text1 else text1 in
  match text2 with
  | [] => ((buf, tcr2), [])                                    (* if not text: return [] *)
  | _ :: _ =>
      let trailing_newline := is_nl (last text2 0) in
      let lines := splitlines text2 in
      if Nat.eqb (length lines) 1 && negb trailing_newline then
        ((buf ++ [hd [] lines], tcr2), [])                     (* self.buffer.append(lines[0]) *)
      else
        let lines1 := match buf with
                      | [] => lines
                      | _ :: _ => (concat buf ++ hd [] lines) :: tl lines
                      end in
        if trailing_newline then (([], tcr2), lines1)
        else (([last lines1 []], tcr2), removelast lines1)     (* self.buffer = [lines.pop()] *)
  end.

Definition ld_flush (st : ldstate) : list str :=
  let '(buf, tcr) := st in
  if negb (nonemptyb buf) && negb tcr then [] else [concat buf].

Fixpoint ld_fold (st : ldstate) (ts : list str) : ldstate * list str :=
  match ts with
  | [] => (st, [])
  | t :: r =>
      let '(st1, o1) := ld_decode st t in
      let '(st2, o2) := ld_fold st1 r in
      (st2, o1 ++ o2)
  end.

(* the lines Response.aiter_lines yields for the text chunks [ts] *)
Definition ld_run (ts : list str) : list str :=
  let '(st, o) := ld_fold ([], false) ts in o ++ ld_flush st.

Definition aiter_lines (cs : list bytes) : list str := ld_run (aiter_text cs).

(* ====================================================================================== *)
(* 5. streaming_helpers.py *)
Fixpoint lstrip (s : str) : str :=
  match s with
  | [] => []
  | c :: r => if is_ws c then lstrip r else s
  end.
Definition strip (s : str) : str := rev (lstrip (rev (lstrip s))).

(* `if value.startswith(" "): value = value[1:]` — exactly one leading U+0020 is not part of the value
   (since the fix of F18b; before it the code was value.lstrip()) *)
Definition strip1 (s : str) : str := match s with 32 :: r => r | _ => s end.

(* line.split(":", 1) when ":" in line *)
Fixpoint split_colon (s : str) : option (str * str) :=
  match s with
  | [] => None
  | c :: r =>
      if c =? c_colon then Some ([], r)
      else match split_colon r with
           | Some (f, v) => Some (c :: f, v)
           | None => None
           end
  end.

Record event := { e_data : str; e_event : option str; e_id : option str; e_retry : option Z }.

Definition event_eqb (a b : event) : bool :=
  str_eqb (e_data a) (e_data b) && opt_eqb str_eqb (e_event a) (e_event b)
  && opt_eqb str_eqb (e_id a) (e_id b) && opt_eqb Z.eqb (e_retry a) (e_retry b).

(* ---- int(value) for an ASCII str, base 10 (CPython longobject.c / PyLong_FromString, reached through int(str)):
   surrounding C white space (\t \n \v \f \r and space; NOT \x1c-\x1f) is skipped, one optional sign, then decimal
   digits with single underscores allowed between digits; anything else is ValueError.  For a str containing non-ASCII
   characters CPython first maps Unicode decimal digits / Unicode spaces to ASCII: that table is not modelled, the
   helpers' model takes int() as a parameter and this function is one validated instance of it on ASCII input. *)
Definition is_cspace (c : N) : bool := ((9 <=? c) && (c <=? 13)) || (c =? 32).
Fixpoint lstrip_c (s : str) : str :=
  match s with [] => [] | c :: r => if is_cspace c then lstrip_c r else s end.
Definition strip_c (s : str) : str := rev (lstrip_c (rev (lstrip_c s))).
(* [prev] = the previous character was a digit *)
Fixpoint int_digits (acc : Z) (prev : bool) (s : str) : option Z :=
  match s with
  | [] => if prev then Some acc else None
  | c :: r =>
      if is_digit c then int_digits (10 * acc + Z.of_N (c - 48))%Z true r
      else if (c =? 95) && prev then int_digits acc false r
      else None
  end.
Definition py_int_ascii (s : str) : option Z :=
  match strip_c s with
  | [] => None
  | c :: r =>
      if c =? 43 then int_digits 0 false r
      else if c =? 45 then option_map Z.opp (int_digits 0 false r)
      else int_digits 0 false (c :: r)
  end.

Section Oracles.
  (* int(value): Some n, or None for ValueError.  json.loads(line): Some j, or None for an exception.
     Both are external (CPython); the theorems hold for every such function, the correspondence run
     instantiates them with finite tables computed by CPython for the strings of the shard. *)
  Variable py_int : str -> option Z.
  Variable J : Type.
  Variable json_loads : str -> option J.

  Definition pacc := (list str * option str * option str * option Z)%type.

  (* body of the loop in _parse_sse_event *)
  Definition pe_step (acc : pacc) (line : str) : pacc :=
    let '(d, e, i, r) := acc in
    match line with
    | [] => acc
    | c :: _ =>
        if c =? c_colon then acc                                  (* comment *)
        else match split_colon line with
             | None => acc                                        (* no ":" in line: ignored *)
             | Some (f, v0) =>
                 let v := strip1 v0 in
                 if str_eqb f f_data then (d ++ [v], e, i, r)
                 else if str_eqb f f_event then (d, Some v, i, r)
                 else if str_eqb f f_id then (d, e, Some v, r)
                 else if str_eqb f f_retry then
                   (d, e, i, match py_int v with Some n => Some n | None => r end)
                 else acc
             end
    end.

  (* None: no field line was recognised (only comments / unknown fields) - nothing to dispatch *)
  Definition parse_event (lines : list str) : option event :=
    let '(d, e, i, r) := fold_left pe_step lines ([], None, None, None) in
    match d, e, i, r with
    | [], None, None, None => None
    | _, _, _, _ => Some {| e_data := join [c_join] d; e_event := e; e_id := i; e_retry := r |}
    end.

  Definition olist {A} (o : option A) : list A := match o with Some x => [x] | None => [] end.

  (* iter_sse over the lines of aiter_lines; [ev] = event_lines; `if event:` skips the None of _parse_sse_event *)
  Fixpoint sse_loop (ev : list str) (lines : list str) : list event :=
    match lines with
    | [] => match ev with [] => [] | _ => olist (parse_event ev) end
    | l :: r =>
        match l with
        | [] => match ev with
                | [] => sse_loop [] r
                | _ => olist (parse_event ev) ++ sse_loop [] r
                end
        | _ => sse_loop (ev ++ [l]) r
        end
    end.
  Definition sse_of_lines (lines : list str) : list event := sse_loop [] lines.

  Definition iter_sse (cs : list bytes) : list event := sse_of_lines (aiter_lines cs).

  Definition events_text (evs : list event) : list str :=
    map e_data (filter (fun e => nonemptyb (e_data e)) evs).
  Definition iter_sse_events_text (cs : list bytes) : list str := events_text (iter_sse cs).

  (* iter_ndjson: items yielded so far, and whether json.loads raised (which ends the iteration) *)
  Fixpoint ndjson_of_lines (ls : list str) : list J * bool :=
    match ls with
    | [] => ([], false)
    | l :: r =>
        match strip l with
        | [] => ndjson_of_lines r
        | l' => match json_loads l' with
                | None => ([], true)
                | Some j => let '(js, e) := ndjson_of_lines r in (j :: js, e)
                end
        end
    end.
  Definition iter_ndjson (cs : list bytes) : list J * bool := ndjson_of_lines (aiter_lines cs).

  (* ---- the generated client (what users run) ----
     HttpxTransport.request awaits httpx.AsyncClient.request(...), which READS THE WHOLE BODY before returning
     (Response.aread: b"".join(aiter_bytes())).  The generated endpoint method then hands that response to the helper;
     on a response that already has _content, aiter_bytes() yields the content as ONE chunk (none when it is empty).
     So the helpers never see the network's chunk boundaries on this path. *)
  Definition read_all (cs : list bytes) : list bytes :=
    match concat (iter_bytes cs) with [] => [] | b => [b] end.
  (* generated for text/event-stream responses (and, before the fix of F05f, for application/x-ndjson ones too):
       async for chunk in iter_sse_events_text(response): yield json.loads(chunk)
     items yielded so far, and whether json.loads raised *)
  Fixpoint loads_all (ts : list str) : list J * bool :=
    match ts with
    | [] => ([], false)
    | t :: r => match json_loads t with
                | None => ([], true)
                | Some j => let '(js, e) := loads_all r in (j :: js, e)
                end
    end.
  Definition e2e_events (cs : list bytes) : list J * bool := loads_all (iter_sse_events_text (read_all cs)).
  (* generated for application/x-ndjson responses (since the fix of F05f): async for item in iter_ndjson(response): yield item *)
  Definition e2e_ndjson (cs : list bytes) : list J * bool := iter_ndjson (read_all cs).
  (* which helper a generated streaming operation calls is READ OFF the generated code on every run *)
  Inductive helper := HSseText | HNdjson.
  Definition e2e_items (h : helper) (cs : list bytes) : list J * bool :=
    match h with HSseText => e2e_events cs | HNdjson => e2e_ndjson cs end.
  (* generated for binary responses: async for chunk in iter_bytes(response): yield chunk *)
  Definition e2e_bytes (cs : list bytes) : list bytes := iter_bytes (read_all cs).
End Oracles.

(* ====================================================================================== *)
(* 6. The property's functional half: what a sender writes and what must come back.
      A block is the list of lines of one event; the stream is the blocks, each followed by a blank
      line, every line ended by the same terminator. *)
Inductive item :=
| IComment (s : str)       (* ":" s *)
| IData (s : str)          (* "data: " s   — one line of the payload *)
| IEvent (s : str)         (* "event: " s *)
| IId (s : str)            (* "id: " s *)
| IRetry (digits : str).   (* "retry: " digits *)

Definition item_text (it : item) : str :=
  match it with IComment s | IData s | IEvent s | IId s | IRetry s => s end.

Definition item_line (it : item) : str :=
  match it with
  | IComment s => c_colon :: s
  | IData s => f_data ++ c_colon :: 32 :: s
  | IEvent s => f_event ++ c_colon :: 32 :: s
  | IId s => f_id ++ c_colon :: 32 :: s
  | IRetry s => f_retry ++ c_colon :: 32 :: s
  end.

Definition block := list item.

Inductive term := LF | CRLF | CRonly.
Definition term_s (t : term) : str :=
  match t with LF => [10] | CRLF => [13; 10] | CRonly => [13] end.

(* how the stream ends: after the last block's blank line / after the last line's terminator /
   right after the last line's text *)
Inductive tailk := TFull | TLine | TNone.

Definition enc_lines (t : term) (ls : list str) : str := concat (map (fun l => l ++ term_s t) ls).
Definition block_lines (b : block) : list str := map item_line b ++ [[]].
Definition stream_lines (bs : list block) : list str := concat (map block_lines bs).

Definition encode (t : term) (k : tailk) (bs : list block) : str :=
  match k with
  | TFull => enc_lines t (stream_lines bs)
  | TLine => enc_lines t (removelast (stream_lines bs))
  | TNone => join (term_s t) (removelast (stream_lines bs))
  end.

(* value of a string of ASCII digits *)
Definition digits_val (ds : str) : Z := fold_left (fun a c => (10 * a + Z.of_N (c - 48))%Z) ds 0%Z.

Definition last_some {A} (f : item -> option A) (b : block) : option A :=
  fold_left (fun acc it => match f it with Some x => Some x | None => acc end) b None.

(* the event the receiver must see for one block: data lines joined by "\n", comments ignored,
   last event/id/retry wins *)
Definition expected (b : block) : event :=
  {| e_data := join [10] (flat_map (fun it => match it with IData s => [s] | _ => [] end) b);
     e_event := last_some (fun it => match it with IEvent s => Some s | _ => None end) b;
     e_id := last_some (fun it => match it with IId s => Some s | _ => None end) b;
     e_retry := last_some (fun it => match it with IRetry s => Some (digits_val s) | _ => None end) b |}.

(* ---- executable guards ---- *)
(* domain of the encoding (not findings): no CR/LF inside a line, retry is a non-empty digit string,
   no empty block *)
Definition no_crlf (s : str) : bool := forallb (fun c => negb ((c =? 10) || (c =? 13))) s.
Definition item_dom (it : item) : bool :=
  no_crlf (item_text it) &&
  match it with IRetry s => nonemptyb s && forallb is_digit s | _ => true end.
Definition guard_dom (bs : list block) : bool :=
  forallb (fun b => nonemptyb b && forallb item_dom b) bs.

(* F18a: none of the newline characters other than CR/LF (U+000B, U+000C, U+001C-1E, U+0085, U+2028,
   U+2029) anywhere in a line *)
Definition exotic_nl (c : N) : bool := is_nl c && negb ((c =? 10) || (c =? 13)).
Definition guard_F18a (bs : list block) : bool :=
  forallb (forallb (fun it => forallb (fun c => negb (exotic_nl c)) (item_text it))) bs.

(* "comments ignored": a block that consists of comments only (a keep-alive) carries no event *)
Definition is_field (it : item) : bool := match it with IComment _ => false | _ => true end.
Definition has_field (b : block) : bool := existsb is_field b.
(* what the receiver must see for the whole stream *)
Definition spec_events (bs : list block) : list event := map expected (filter has_field bs).
(* (F18c, fixed: a comment-only block yields nothing; no guard conjunct.) *)

(* (F18b, fixed: field values may start with any white space; exactly the one space the sender wrote after the
   colon is removed, so there is no guard conjunct for it any more.) *)
Definition guard (bs : list block) : bool := guard_dom bs && guard_F18a bs.

(* NDJSON sender: one record per line *)
Definition guard_nd_F18a (ls : list str) : bool := forallb (forallb (fun c => negb (exotic_nl c))) ls.
