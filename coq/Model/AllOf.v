(* core/parsing/keywords/all_of_parser.py : _process_all_of — the merge of the parsed allOf members.

     for sub_node in node["allOf"]:
         sub_schema_ir = parse(None, sub_node)
         for prop_name, prop_schema_val in sub_schema_ir.properties.items():
             if prop_name not in merged_properties:
                 merged_properties[prop_name] = prop_schema_val        (first definition wins)
         merged_required.update(sub_schema_ir.required)                (union)

   Generic in the value type V of a property (an IR object in Parser.v).  `required` is a Python set that is later
   turned into sorted(list(...)); only membership is observable, so it is modelled as the concatenation.
   No proofs here. *)
From PG Require Import Lib.Strs.

Section Merge.
  Context {V : Type}.

  (* what the merge reads from one parsed member: its properties (insertion ordered dict) and its required list *)
  Definition member : Type := (list (str * V) * list str)%type.

  Definition add_first (acc : list (str * V)) (kv : str * V) : list (str * V) :=
    match alookup (fst kv) acc with
    | Some _ => acc
    | None => acc ++ [kv]
    end.

  Definition merge_into (acc : list (str * V)) (ps : list (str * V)) : list (str * V) :=
    fold_left add_first ps acc.

  Definition merge_props (ms : list member) : list (str * V) :=
    fold_left (fun acc m => merge_into acc (fst m)) ms [].

  Definition merge_req (own : list str) (ms : list member) : list str :=
    own ++ concat (map snd ms).

  (* ---- the declared semantics of allOf over flat parents (the spec the merge is compared with) ---- *)
  (* the value of key k: the one given by the first member (in allOf order) that defines k *)
  Fixpoint first_def (k : str) (ms : list member) : option V :=
    match ms with
    | [] => None
    | m :: r => match alookup k (fst m) with Some v => Some v | None => first_def k r end
    end.

  (* keys in order of first appearance *)
  Fixpoint first_keys (seen : list str) (ks : list str) : list str :=
    match ks with
    | [] => []
    | k :: r => if mem_str k seen then first_keys seen r else k :: first_keys (k :: seen) r
    end.
  Definition declared_keys (ms : list member) : list str :=
    first_keys [] (concat (map (fun m => map fst (fst m)) ms)).
End Merge.
