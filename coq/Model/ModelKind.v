(* visit/model/model_visitor.py : visit_IRSchema - which construct a schema is rendered as.
     is_enum       = name and enum and type in ("string", "integer")
     is_union_type = name and (one_of or any_of)
     is_type_alias = name and not properties and not is_enum and (type != "object" or is_union_type)
     an array of anonymous object items is never an alias (rendered as a wrapper dataclass)
     is_dataclass  = not is_enum and not is_type_alias;  anonymous schemas are not rendered at all.
   On the IR of Model/Parser.v (enums are string enums there).  No proofs here. *)
From PG Require Import Lib.Strs Model.AllOf Model.Parser.

Inductive mkind := KEnum | KAlias | KDataclass | KNotRendered.

Definition truthy_name (s : ir) : bool := match i_name s with Some n => nonempty n | None => false end.
Definition nonempty_olist {A} (o : option (list A)) : bool := match o with Some (_ :: _) => true | _ => false end.

Definition model_kind (s : ir) : mkind :=
  let named := truthy_name s in
  let is_enum := named && i_enum s && match i_ty s with Some (TyPrim PString) | Some (TyPrim PInteger) => true | _ => false end in
  let is_union := named && (nonempty_olist (i_oneof s) || nonempty_olist (i_anyof s)) in
  let is_object := match i_ty s with Some TyObject => true | _ => false end in
  let has_props := match i_props s with [] => false | _ => true end in
  let alias0 := named && negb has_props && negb is_enum && (negb is_object || is_union) in
  let anon_object_items :=
    match i_ty s, i_items s with
    | Some TyArray, Some it => match i_ty it, i_name it with Some TyObject, None => true | _, _ => false end
    | _, _ => false
    end in
  let is_alias := alias0 && negb anon_object_items in
  if negb named then KNotRendered
  else if is_enum then KEnum
  else if is_alias then KAlias
  else KDataclass.
