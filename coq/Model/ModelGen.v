(* C03 — what the generator emits for an object schema, as far as the converter can see it:
   visit/model/dataclass_generator.py:generate (property order, field naming with collision
   suffixes, Meta maps), core/writers/python_construct_renderer.py:render_dataclass (both Meta
   dicts), types/resolvers/schema_resolver.py:_resolve_string (format -> type; table regenerated
   from source into Gen/T_C03.v).  No proofs in this file. *)
From PG Require Import Lib.Strs Model.Converter.
From PG Require Export Gen.T_C03.
From Coq Require Import DecimalN.

(* the modelled fragment of property schemas *)
Inductive pschema :=
| PStr (fmt : option str)
| PInt | PNum | PBool
| PEnum (vals : list str)        (* string enum -> class E(str, Enum) *)
| PArr (items : pschema)         (* items: scalar / enum / reference *)
| PRef (c : N)                   (* $ref to / inline object schema c -> dataclass c *)
| PSelf (c : N)                  (* $ref to the schema being generated: rendered as a quoted name, which the
                                    registration walk resolves (get_type_hints) and hands to cattrs *)
| PMap (v : pschema).            (* object with only `additionalProperties: v` (inline, or $ref to a named map
                                    schema): a generated wrapper class around dict[str, v] *)

Record prop := { p_name : str; p_required : bool; p_nullable : bool; p_schema : pschema }.
Record oschema := { s_id : N; s_props : list prop }.

(* ---------- _resolve_string ---------- *)
Definition s_date : str := [100;97;116;101].
Definition s_datetime : str := [100;97;116;101;116;105;109;101].
Definition s_time : str := [116;105;109;101].
Definition s_UUID : str := [85;85;73;68].
Definition s_bytes : str := [98;121;116;101;115].

Definition py_type_ty (n : str) : ty :=
  if str_eqb n s_date then TDate
  else if str_eqb n s_datetime then TDatetime
  else if str_eqb n s_time then TTime
  else if str_eqb n s_UUID then TUuid
  else if str_eqb n s_bytes then TBytes
  else TStr.

Definition resolve_format (fmt : str) : ty :=
  py_type_ty (match alookup fmt format_map with Some t => t | None => format_default end).

Definition resolve_string (fmt : option str) : ty :=
  match fmt with
  | None => TStr
  | Some [] => TStr                       (* `if format_type:` — empty string is falsy *)
  | Some f => resolve_format f
  end.

Fixpoint resolve (p : pschema) : ty :=
  match p with
  | PStr fmt => resolve_string fmt
  | PInt => TInt | PNum => TFloat | PBool => TBool
  | PEnum vals => TEnum vals
  | PArr (PEnum _) => TList TStr     (* an inline enum in array items is not promoted to an Enum class: plain str *)
  | PArr items => TList (resolve items)
  | PRef c => TData c
  | PSelf c => TData c
  | PMap v => TWrap (resolve v)
  end.

(* ---------- property order: sorted(props, key=(name not in required, name)) ---------- *)
Fixpoint str_ltb (a b : str) : bool :=
  match a, b with
  | [], [] => false
  | [], _ :: _ => true
  | _ :: _, [] => false
  | x :: a', y :: b' => if x <? y then true else if y <? x then false else str_ltb a' b'
  end.
Definition str_leb (a b : str) : bool := negb (str_ltb b a).

Definition prop_leb (p q : prop) : bool :=
  match p_required p, p_required q with
  | true, false => true
  | false, true => false
  | _, _ => str_leb (p_name p) (p_name q)
  end.

Section Sort.
  Context {A : Type} (leb : A -> A -> bool).
  Fixpoint insert (x : A) (l : list A) : list A :=
    match l with
    | [] => [x]
    | y :: r => if leb x y then x :: l else y :: insert x r
    end.
  Fixpoint isort (l : list A) : list A :=
    match l with [] => [] | x :: r => insert x (isort r) end.
End Sort.

Section Gen.
  Variable sanitize : str -> str.      (* NameSanitizer.sanitize_method_name (C20's subject; any function here) *)

  (* str(suffix): decimal digits (Coq's own N -> Decimal.uint conversion, then the digit characters) *)
  Fixpoint uint_codes (u : Decimal.uint) : str :=
    match u with
    | Decimal.Nil => []
    | Decimal.D0 r => 48 :: uint_codes r | Decimal.D1 r => 49 :: uint_codes r | Decimal.D2 r => 50 :: uint_codes r
    | Decimal.D3 r => 51 :: uint_codes r | Decimal.D4 r => 52 :: uint_codes r | Decimal.D5 r => 53 :: uint_codes r
    | Decimal.D6 r => 54 :: uint_codes r | Decimal.D7 r => 55 :: uint_codes r | Decimal.D8 r => 56 :: uint_codes r
    | Decimal.D9 r => 57 :: uint_codes r
    end.
  Definition digits (n : N) : str := uint_codes (N.to_uint n).

  (* while field_name in seen: field_name = f"{base}_{suffix}"; suffix += 1   (suffix starts at 2) *)
  Fixpoint fresh_name (fuel : nat) (base : str) (suffix : N) (seen : list str) : str :=
    let cand := base ++ [95] ++ digits suffix in
    match fuel with
    | O => cand
    | S f => if mem_str cand seen then fresh_name f base (suffix + 1) seen else cand
    end.

  Definition field_name_for (seen : list str) (pname : str) : str :=
    let base := sanitize pname in
    if mem_str base seen then fresh_name (length seen) base 2 seen else base.

  (* returns (wire name, field name) in processing order *)
  Fixpoint name_fields (seen : list str) (ps : list prop) : list (str * str) :=
    match ps with
    | [] => []
    | p :: r => let fn := field_name_for seen (p_name p) in
                (p_name p, fn) :: name_fields (fn :: seen) r
    end.

  Definition field_of (p : prop) (fname : str) : field :=
    let T := resolve (p_schema p) in
    {| f_name := fname;
       f_ty := if p_required p && negb (p_nullable p) then T else TOpt T;
       f_default := if p_required p then None
                    else match p_schema p with
                         | PArr _ => Some (VList [])      (* field(default_factory=list) *)
                         | _ => Some VNone
                         end |}.

  Definition gen_class (s : oschema) : cls :=
    let ps := isort prop_leb (s_props s) in
    let names := name_fields [] ps in
    {| c_id := s_id s;
       c_fields := map (fun pn => field_of (fst pn) (snd (snd pn))) (combine ps names);
       (* render_dataclass: sorted(field_mappings.items()) / sorted(..., key=python name), reversed *)
       c_load := match names with [] => None
                 | _ => Some (isort (fun a b => str_leb (fst a) (fst b)) names) end;
       c_dump := match names with [] => None
                 | _ => Some (isort (fun a b => str_leb (fst a) (fst b)) (map (fun wn => (snd wn, fst wn)) names)) end |}.
End Gen.

(* ---------- the fragment C03_roundtrip speaks about ---------- *)
(* property schemas whose generated type the round-trip theorem covers: every scalar and string format
   (C03_types_supported), enums, arrays of those, references to schemas of the document; additionalProperties
   maps (wrapper classes) are outside the theorem (correspondence and oracle only) *)
Fixpoint pschema_ok (ids : list N) (p : pschema) : bool :=
  match p with
  | PStr _ | PInt | PNum | PBool | PEnum _ => true
  | PArr items => pschema_ok ids items
  | PRef c | PSelf c => mem_N c ids
  | PMap _ => false
  end.
Definition schema_ok (ids : list N) (s : oschema) : Prop :=
  NoDup (map p_name (s_props s)) /\ forall p, In p (s_props s) -> pschema_ok ids (p_schema p) = true.
