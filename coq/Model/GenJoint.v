(* C10 + C11 — histories of generate calls into ONE project, on both models at once: the file
   system effects of Model/GenFS.v and the registry world of Model/Registry.v.  The decision
   "output directory exists" (diff path or direct path) is taken on the file system and drives
   the registry step, so the two models cannot disagree on the path taken.  No proofs here. *)
From PG Require Import Lib.Strs Model.GenFS Model.Registry.

(* what all calls of a history share *)
Record project := { p_root : path; p_tmp : path; p_cwd : path; p_core : list str (* shared core package *) }.
(* one call: generate(spec, root, output_package, force, no_postprocess, core_package = p_core) *)
Record jcall := { j_out : list str; j_codes : list N; j_force : bool; j_post : bool;
                  j_tags : list str; j_models : list str }.

Definition cfg_of (pr : project) (x : jcall) : config :=
  {| root := p_root pr; tmp := p_tmp pr; cwd := p_cwd pr; out_pkg := j_out x; core_pkg := Some (p_core pr);
     force := j_force x; post := j_post x; tags := j_tags x; models := j_models x |}.

(* registry key of a client = its dotted package name *)
Definition dotted (pkg : list str) : str := join [46] pkg.
Definition call_of (x : jcall) : gen_call :=
  {| g_client := dotted (j_out x); g_codes := j_codes x; g_force := j_force x; g_core_given := true |}.
(* the layout as this call sees it: depth of the core, and whether the core lies in this client's directory *)
Definition layout_of (pr : project) (x : jcall) : layout :=
  {| core_depth := length (p_core pr);
     core_inside_client := if under (j_out x) (p_core pr) then Some (dotted (j_out x)) else None |}.

Definition jstate := (fs * world)%type.

(* a call without injected fault *)
Definition jstep (pr : project) (st : jstate) (x : jcall) : jstate :=
  let c := cfg_of pr x in
  if valid_pkgs c then
    (fst (generate c None (fst st)),
     fst (step_out_with (layout_of pr x) (exists_b (fst st) (out_dir c)) (snd st) (call_of x)))
  else st.   (* ValueError before anything is touched *)
Definition jrun (pr : project) (s0 : fs) (h : list jcall) : jstate := fold_left (jstep pr) h (s0, Registry.init).

(* the joint property: every generated client finds its classes and every claimed client is there (C11),
   and everything below the project root was there before or is an allowed path of some call (C10) *)
Definition allowed_by (pr : project) (h : list jcall) (p : path) : Prop :=
  exists x, In x h /\ allowed (cfg_of pr x) p = true.
Definition Joint (pr : project) (s0 : fs) (h : list jcall) (st : jstate) : Prop :=
  Works (snd st)
  /\ forall p, In p (map fst (fst st)) -> sunder (p_root pr) p = true -> In p (map fst s0) \/ allowed_by pr h p.
