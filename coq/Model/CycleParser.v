(* C08 — termination half.  The reduced, branch-faithful, fuel-based parser model is w02's Model/Parser.v
   (_parse_schema / _parse_properties / _resolve_ref / composition keywords / build_schemas with its own transcription
   of the cycle tracker); it is IMPORTED here, not duplicated.  Fuel in that model bounds the NESTING of
   _parse_schema frames (parse_schema (S f) calls step (parse_schema f)); running out of fuel ([oof]) is the model's
   stand-in for exhausting the interpreter stack.  This file only adds the enumeration of small reference graphs used
   by the bounded theorem in Proofs/CycleParser.v.  No proofs here. *)
From PG Require Import Lib.Strs.
From PG Require Model.Parser.

Module P := PG.Model.Parser.

(* schema names A, B, C, D and property keys pa, pb, pc, pd *)
Definition gname (j : nat) : str := [65 + N.of_nat j].
Definition gkey (j : nat) : str := [112; 97 + N.of_nat j].

(* the reference graph encoded by [mask] over k named object schemas: bit (i*k + j) = schema i has a property
   that is a $ref to schema j (self-loops, 2-cycles and longer cycles included) *)
Definition gprops (k i : nat) (mask : N) : list (str * P.node) :=
  flat_map (fun j => if N.testbit mask (N.of_nat (i * k + j)) then [(gkey j, P.Ref (gname j))] else []) (seq 0 k).
Definition gspec (k : nat) (mask : N) : P.spec :=
  map (fun i => (gname i, P.Obj (gprops k i mask) [])) (seq 0 k).

Definition masks (k : nat) : list N := map N.of_nat (seq 0 (Nat.pow 2 (k * k))).

(* least fuel (<= cap) with which the whole document is parsed without running out *)
Fixpoint least_fuel (cap : nat) (f : nat) (md : N) (S : P.spec) : nat :=
  match cap with
  | O => f
  | Datatypes.S c => if P.oof (P.build md S f P.st0) then least_fuel c (Datatypes.S f) md S else f
  end.
Definition needed (md : N) (S : P.spec) : nat := least_fuel 60 0 md S.

Definition max_needed (k : nat) (md : N) : nat :=
  fold_left (fun acc m => Nat.max acc (needed md (gspec k m))) (masks k) 0%nat.
