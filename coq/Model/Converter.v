(* C16 / C03 — model of core/cattrs_converter.py as it drives cattrs (26.x): structure_from_dict,
   unstructure_to_dict, the leaf hooks, the Union hook as it is hit by Optional[...] annotations,
   the recursive hook registration.  Transcribed as it is, quirks included.  No proofs in this file.

   Python objects are split in two sorts:
     json  : what json.loads yields (floats: integral values only, [JFloat z] = float(z))
     value : what structuring yields / what a dataclass instance holds
   Types are annotations; dataclasses live in a class table and are referenced by id, so that
   self- and mutually-referential models are expressible.  All recursion is structural on the
   *data* (json / value); children are pre-applied as closures [ty -> result _]. *)
From PG Require Import Lib.Strs.
From Coq Require Export ZArith.

Inductive ty :=
| TStr | TInt | TFloat | TBool | TBytes | TDatetime | TDate | TUuid | TTime | TAny
| TList (t : ty) | TDict (t : ty)      (* List[t] / Dict[str, t] *)
| TOpt (t : ty)                          (* Optional[t] = t | None — handled by the Union hook *)
| TData (c : N)                          (* a dataclass, by id in the class table *)
| TEnum (vals : list str)                (* class E(str, Enum) with these values; a member is held as VStr value *)
| TFwd (c : N)                          (* an unresolved ForwardRef("C") left inside a generic (List["C"]):
                                            cattrs has no hook for it (finding F03c) *)
| TWrap (t : ty).                        (* generated JSON wrapper class for `additionalProperties: t`: a dataclass
                                            with one attribute _data: dict[str, t] and its own CLASS-level hooks
                                            (cattrs prefers them to the predicate hooks of the registration walk) *)

Inductive json :=
| JNull | JBool (b : bool) | JInt (z : Z) | JFloat (z : Z) | JStr (s : str)
| JArr (l : list json) | JObj (kvs : list (str * json)).

Inductive value :=
| VNone | VBool (b : bool) | VInt (z : Z) | VFloat (z : Z) | VStr (s : str)
| VBytes (b : list N)
| VDatetime (iso : str)                  (* a datetime, represented by its own .isoformat() *)
| VDate (iso : str)
| VList (l : list value) | VDict (kvs : list (str * value))
| VData (c : N) (fs : list (str * value))    (* instance of class c: attribute name -> value *)
| VWrap (kvs : list (str * value))           (* instance of a wrapper class: its _data *)
| VUuid (text : str)                         (* a uuid.UUID, represented by its own str() *)
| VTime (iso : str).                         (* a datetime.time, represented by its own .isoformat() *)

Record field := { f_name : str; f_ty : ty; f_default : option value }.   (* None = required *)
Record cls := { c_id : N; c_fields : list field;
                c_load : option (list (str * str));    (* Meta.key_transform_with_load: wire -> python *)
                c_dump : option (list (str * str)) }.  (* Meta.key_transform_with_dump: python -> wire *)

Inductive result (A : Type) := Ok (a : A) | Err.
Arguments Ok {A} a. Arguments Err {A}.

Definition bind {A B} (r : result A) (f : A -> result B) : result B :=
  match r with Ok a => f a | Err => Err end.

(* all-or-nothing map (cattrs collects the sub-errors, the outcome is still one exception) *)
Definition map_result {A B} (f : A -> result B) : list A -> result (list B) :=
  fix go (l : list A) : result (list B) :=
    match l with
    | [] => Ok []
    | x :: r => match f x, go r with
                | Ok y, Ok ys => Ok (y :: ys)
                | _, _ => Err
                end
    end.

Fixpoint ty_eqb (a b : ty) : bool :=
  match a, b with
  | TStr, TStr | TInt, TInt | TFloat, TFloat | TBool, TBool | TBytes, TBytes | TDatetime, TDatetime
  | TDate, TDate | TUuid, TUuid | TTime, TTime | TAny, TAny => true
  | TList x, TList y | TDict x, TDict y | TOpt x, TOpt y => ty_eqb x y
  | TData c, TData d | TFwd c, TFwd d => N.eqb c d
  | TEnum x, TEnum y => list_eqb str_eqb x y
  | TWrap x, TWrap y => ty_eqb x y
  | _, _ => false
  end.

Fixpoint json_eqb (a b : json) : bool :=
  match a, b with
  | JNull, JNull => true
  | JBool x, JBool y => Bool.eqb x y
  | JInt x, JInt y | JFloat x, JFloat y => Z.eqb x y
  | JStr x, JStr y => str_eqb x y
  | JArr x, JArr y =>
      (fix go (x y : list json) : bool :=
         match x, y with
         | [], [] => true
         | p :: x', q :: y' => json_eqb p q && go x' y'
         | _, _ => false
         end) x y
  | JObj x, JObj y =>
      (fix go (x y : list (str * json)) : bool :=
         match x, y with
         | [], [] => true
         | (k, p) :: x', (k', q) :: y' => str_eqb k k' && json_eqb p q && go x' y'
         | _, _ => false
         end) x y
  | _, _ => false
  end.

Fixpoint value_eqb (a b : value) : bool :=
  match a, b with
  | VNone, VNone => true
  | VBool x, VBool y => Bool.eqb x y
  | VInt x, VInt y | VFloat x, VFloat y => Z.eqb x y
  | VStr x, VStr y | VBytes x, VBytes y | VDatetime x, VDatetime y | VDate x, VDate y
  | VUuid x, VUuid y | VTime x, VTime y => str_eqb x y
  | VList x, VList y =>
      (fix go (x y : list value) : bool :=
         match x, y with
         | [], [] => true
         | p :: x', q :: y' => value_eqb p q && go x' y'
         | _, _ => false
         end) x y
  | VDict x, VDict y =>
      (fix go (x y : list (str * value)) : bool :=
         match x, y with
         | [], [] => true
         | (k, p) :: x', (k', q) :: y' => str_eqb k k' && value_eqb p q && go x' y'
         | _, _ => false
         end) x y
  | VWrap x, VWrap y =>
      (fix go (x y : list (str * value)) : bool :=
         match x, y with
         | [], [] => true
         | (k, p) :: x', (k', q) :: y' => str_eqb k k' && value_eqb p q && go x' y'
         | _, _ => false
         end) x y
  | VData c x, VData d y =>
      N.eqb c d &&
      (fix go (x y : list (str * value)) : bool :=
         match x, y with
         | [], [] => true
         | (k, p) :: x', (k', q) :: y' => str_eqb k k' && value_eqb p q && go x' y'
         | _, _ => false
         end) x y
  | _, _ => false
  end.

(* raw JSON kept as a Python object (Any-typed positions, the dict[str, Any] fallback, non-str data
   handed to the bytes hook) *)
Fixpoint inject (j : json) : value :=
  match j with
  | JNull => VNone | JBool b => VBool b | JInt z => VInt z | JFloat z => VFloat z | JStr s => VStr s
  | JArr l => VList (map inject l)
  | JObj kvs => VDict (map (fun kv => (fst kv, inject (snd kv))) kvs)
  end.

(* "the unstructure hook is the identity": the object itself lands in the output.  It is JSON only
   if it is built from JSON-native objects; anything else is a non-serialisable leak = Err here. *)
Fixpoint project (v : value) : result json :=
  match v with
  | VNone => Ok JNull | VBool b => Ok (JBool b) | VInt z => Ok (JInt z) | VFloat z => Ok (JFloat z)
  | VStr s => Ok (JStr s)
  | VList l => bind (map_result project l) (fun l' => Ok (JArr l'))
  | VDict kvs =>
      bind (map_result (fun kv => bind (project (snd kv)) (fun j => Ok (fst kv, j))) kvs)
           (fun kvs' => Ok (JObj kvs'))
  | VBytes _ | VDatetime _ | VDate _ | VData _ _ | VWrap _ | VUuid _ | VTime _ => Err
  end.

Fixpoint strip_opt (T : ty) : ty := match T with TOpt X => strip_opt X | _ => T end.

Definition mem_N (c : N) (l : list N) : bool := existsb (N.eqb c) l.

Fixpoint ty_classes (T : ty) : list N :=
  match T with
  | TData c | TFwd c => [c]               (* get_type_hints resolves the reference for registration *)
  | TList X | TDict X | TOpt X | TWrap X => ty_classes X      (* the walk descends into _data: dict[str, X] *)
  | _ => []
  end.

(* cattrs resolves the element / attribute handlers when it builds the hook for List[X], Dict[str, X]
   and for a dataclass: a type without any hook fails there, whatever the data (even an empty list
   or an absent key).  Optional[X] is served by the Union hook, which looks at X only when needed. *)
Fixpoint eager_bad (T : ty) : bool :=
  match T with
  | TFwd _ => true
  | TList X | TDict X => eager_bad X
  | _ => false
  end.

Definition replace_Z (s : str) : str :=       (* data.replace("Z", "+00:00") *)
  flat_map (fun c => if c =? 90 then [43; 48; 48; 58; 48; 48] else [c]) s.

Section Conv.
  (* ---- external behaviour (oracles; the laws assumed of them are hypotheses of the proofs) ---- *)
  Variable b64dec : str -> option (list N).       (* base64.b64decode(str), None = binascii.Error *)
  Variable b64enc : list N -> str.                (* base64.b64encode(b).decode() *)
  Variable dt_parse : str -> option str.          (* datetime.fromisoformat(s).isoformat() *)
  Variable date_parse : str -> option str.        (* date.fromisoformat(s).isoformat() *)
  Variable uuid_parse : str -> option str.        (* str(uuid.UUID(s)) *)
  Variable time_parse : str -> option str.        (* time.fromisoformat(s).isoformat() *)
  Variable int_of_str : str -> option Z.          (* int(s) *)
  Variable float_of_str : str -> option Z.        (* float(s), integral results only *)
  Variable str_of_json : json -> str.             (* str(x) for a non-str JSON object *)

  Variable ct : list cls.

  Definition lookup_cls (c : N) : option cls := find (fun k => c_id k =? c) ct.

  (* _make_dataclass_structure_fn: wire key of a field = first key of key_transform_with_load whose
     value is the field name, else the field name.  Only hooked classes get renames. *)
  Definition load_key (k : cls) (hooked : bool) (name : str) : str :=
    if hooked then
      match c_load k with
      | Some m => match find (fun p => str_eqb (snd p) name) m with
                  | Some p => fst p
                  | None => name
                  end
      | None => name
      end
    else name.

  (* _make_dataclass_unstructure_fn: key_transform_with_dump.get(name, name) *)
  Definition dump_key (k : cls) (hooked : bool) (name : str) : str :=
    if hooked then
      match c_dump k with
      | Some m => match alookup name m with Some w => w | None => name end
      | None => name
      end
    else name.

  Definition structure_datetime (s : str) : result value :=
    match dt_parse (replace_Z s) with
    | Some c => Ok (VDatetime c)
    | None => match dt_parse s with Some c => Ok (VDatetime c) | None => Err end
    end.

  Definition default_or_err (f : field) : result value :=
    match f_default f with Some d => Ok d | None => Err end.

  Definition pack_fields (c : N) (names : list str) (r : result (list value)) : result value :=
    bind r (fun vs => Ok (VData c (combine names vs))).

  Section WithReg.
  Variable sreg : list N.      (* classes that have a structure hook registered *)

  (* ---------- data is a str: recursion on the annotation ---------- *)
  Fixpoint structure_str (T : ty) (s : str) : result value :=
    match T with
    | TStr => Ok (VStr s)
    | TInt => match int_of_str s with Some z => Ok (VInt z) | None => Err end
    | TFloat => match float_of_str s with Some z => Ok (VFloat z) | None => Err end
    | TBool => Ok (VBool (match s with [] => false | _ => true end))
    | TBytes => match b64dec s with Some b => Ok (VBytes b) | None => Err end
    | TDatetime => structure_datetime s
    | TDate => match date_parse s with Some c => Ok (VDate c) | None => Err end
    | TUuid => match uuid_parse s with Some c => Ok (VUuid c) | None => Err end
    | TTime => match time_parse s with Some c => Ok (VTime c) | None => Err end
    | TFwd _ => Err                              (* StructureHandlerNotFoundError (F03c) *)
    | TWrap _ => Err                             (* wrapper hook: 'str' object has no attribute 'items' *)
    | TEnum vals => if mem_str s vals then Ok (VStr s) else Err    (* E(value): ValueError when not a member *)
    | TAny => Ok (VStr s)
    | TList X => if eager_bad X then Err
                 else bind (map_result (fun c => structure_str X [c]) s) (fun l => Ok (VList l))
    | TDict _ => Err                             (* 'str' object has no attribute 'items' *)
    | TOpt X =>                                  (* _structure_union, data neither None nor dict *)
        match X with
        | TData _ => Err                         (* dataclass variants are only tried for dicts *)
        | TDict TAny => Err                      (* dict[str, Any] fallback needs a dict *)
        | _ => structure_str X s
        end
    | TData c =>
        (* generated fn: required -> o['k'] (TypeError); optional -> 'k' in o is a SUBSTRING test *)
        match lookup_cls c with
        | None => Err
        | Some k =>
            let hooked := mem_N c sreg in
            if existsb (fun f => eager_bad (f_ty f)) (c_fields k) then Err else
            pack_fields c (map f_name (c_fields k))
              (map_result (fun f =>
                 match f_default f with
                 | None => Err
                 | Some d => if containsb (load_key k hooked (f_name f)) s then Err else Ok d
                 end) (c_fields k))
        end
    end.

  (* ---------- data is any JSON: one node, children given as closures ---------- *)
  Definition truthy (j : json) : bool :=
    match j with
    | JNull => false | JBool b => b | JInt z | JFloat z => negb (Z.eqb z 0)
    | JStr s => match s with [] => false | _ => true end
    | JArr l => match l with [] => false | _ => true end
    | JObj l => match l with [] => false | _ => true end
    end.

  Definition structure_data (j : json) (kd : list (str * (ty -> result value))) (c : N) : result value :=
    match lookup_cls c with
    | None => Err
    | Some k =>
        let hooked := mem_N c sreg in
        let names := map f_name (c_fields k) in
        if existsb (fun f => eager_bad (f_ty f)) (c_fields k) then Err else
        match j with
        | JNull =>
            if hooked then Err       (* the registered hook's own None test *)
            else pack_fields c names (map_result (fun _ : field => Err) (c_fields k))
        | JObj _ =>
            pack_fields c names
              (map_result (fun f =>
                 match alookup (load_key k hooked (f_name f)) kd with
                 | Some kid => kid (f_ty f)
                 | None => default_or_err f
                 end) (c_fields k))
        | JArr l =>
            (* 'k' in list = membership; o['k'] on a list = TypeError *)
            pack_fields c names
              (map_result (fun f =>
                 match f_default f with
                 | None => Err
                 | Some d => if existsb (json_eqb (JStr (load_key k hooked (f_name f)))) l
                             then Err else Ok d
                 end) (c_fields k))
        | JStr _ => Err               (* not reached: str data goes through structure_str *)
        | JBool _ | JInt _ | JFloat _ =>
            (* 'k' in 5 / 5['k'] : TypeError for every field; a field-less class still succeeds *)
            pack_fields c names (map_result (fun _ : field => Err) (c_fields k))
        end
    end.

  Definition structure_nonopt (j : json) (kl : list (ty -> result value))
      (kd : list (str * (ty -> result value))) (T : ty) : result value :=
    match T with
    | TStr => Ok (VStr (str_of_json j))
    | TInt => match j with
              | JInt z | JFloat z => Ok (VInt z)
              | JBool b => Ok (VInt (if b then 1 else 0))
              | _ => Err
              end
    | TFloat => match j with
                | JInt z | JFloat z => Ok (VFloat z)
                | JBool b => Ok (VFloat (if b then 1 else 0))
                | _ => Err
                end
    | TBool => Ok (VBool (truthy j))
    | TBytes => Ok (inject j)          (* structure_with_base64_bytes returns non-str data unchanged *)
    | TDatetime | TDate | TUuid | TTime => Err   (* TypeError("Cannot convert ...") *)
    | TFwd _ => Err
    | TEnum _ => Err                   (* E(5), E(None), E([..]) : ValueError / TypeError (unhashable) *)
    | TAny => Ok (inject j)
    | TList X =>
        if eager_bad X then Err else
        match j with
        | JArr _ => bind (map_result (fun kid => kid X) kl) (fun l => Ok (VList l))
        | JObj _ => bind (map_result (fun kv => structure_str X (fst kv)) kd) (fun l => Ok (VList l))
        | _ => Err
        end
    | TDict X =>
        if eager_bad X then Err else
        match j with
        | JObj _ => bind (map_result (fun kv => bind (snd kv X) (fun v => Ok (fst kv, v))) kd)
                         (fun l => Ok (VDict l))
        | _ => Err
        end
    | TData c => structure_data j kd c
    | TWrap X =>
        (* _structure_<wrapper>: None -> empty wrapper; else {k: converter.structure(v, X) for k, v in data.items()} *)
        match j with
        | JNull => Ok (VWrap [])
        | JObj _ => bind (map_result (fun kv => bind (snd kv X) (fun v => Ok (fst kv, v))) kd)
                         (fun l => Ok (VWrap l))
        | _ => Err
        end
    | TOpt _ => Err                    (* not reached: Optional is flattened by strip_opt *)
    end.

  Definition structure_node (j : json) (kl : list (ty -> result value))
      (kd : list (str * (ty -> result value))) (T : ty) : result value :=
    match T with
    | TOpt X =>
        match j with
        | JNull => Ok VNone
        | _ =>
            match strip_opt X with
            | TData c => match j with JObj _ => structure_data j kd c | _ => Err end
            | TDict TAny => match j with JObj _ => Ok (inject j) | _ => Err end
            | TWrap W => match j with JObj _ => structure_nonopt j kl kd (TWrap W) | _ => Err end   (* a dataclass variant *)
            | X' => structure_nonopt j kl kd X'
            end
        end
    | _ => structure_nonopt j kl kd T
    end.

  Fixpoint structure (j : json) : ty -> result value :=
    match j with
    | JStr s => fun T => structure_str T s
    | JArr l => structure_node j (map structure l) []
    | JObj kvs => structure_node j [] (map (fun kv => (fst kv, structure (snd kv))) kvs)
    | _ => structure_node j [] []
    end.
  End WithReg.

  (* ---------- unstructure: driven by the DECLARED type; Any = dispatch on the runtime class ---------- *)
  Section WithUReg.
  Variable ureg : list N.      (* classes that have an unstructure hook registered *)

  Definition unstructure_data (c : N) (kf : list (str * (ty -> result json))) : result json :=
    match lookup_cls c with
    | None => Err
    | Some k =>
        let hooked := mem_N c ureg in
        bind (map_result (fun f =>
                match alookup (f_name f) kf with
                | Some kid => bind (kid (f_ty f)) (fun j => Ok (dump_key k hooked (f_name f), j))
                | None => Err                                     (* AttributeError *)
                end) (c_fields k))
             (fun kvs => Ok (JObj (dict_of kvs)))   (* a dict display: a repeated key keeps its first position, last value *)
    end.

  Definition unstructure_nonopt (v : value) (kl : list (ty -> result json))
      (kd : list (str * (ty -> result json))) (T : ty) : result json :=
    match T with
    | TStr | TInt | TFloat | TBool | TFwd _ => project v  (* identity *)
    | TBytes => match v with VBytes b => Ok (JStr (b64enc b)) | _ => Err end
    | TDatetime | TDate | TTime => match v with VDatetime s | VDate s | VTime s => Ok (JStr s) | _ => Err end   (* .isoformat() *)
    | TUuid => match v with VUuid s | VStr s => Ok (JStr s) | _ => Err end   (* str(x); str() of other objects not modelled *)
    | TEnum _ => match v with VStr s => Ok (JStr s) | _ => Err end          (* member.value *)
    | TAny =>
        match v with
        | VNone => Ok JNull | VBool b => Ok (JBool b) | VInt z => Ok (JInt z) | VFloat z => Ok (JFloat z)
        | VStr s => Ok (JStr s)
        | VBytes b => Ok (JStr (b64enc b))
        | VDatetime s | VDate s | VTime s | VUuid s => Ok (JStr s)
        | VList _ => bind (map_result (fun kid => kid TAny) kl) (fun l => Ok (JArr l))
        | VDict _ => bind (map_result (fun kv => bind (snd kv TAny) (fun j => Ok (fst kv, j))) kd)
                          (fun l => Ok (JObj l))
        | VData c _ => unstructure_data c kd
        | VWrap _ => bind (map_result (fun kv => bind (snd kv TAny) (fun j => Ok (fst kv, j))) kd)
                          (fun l => Ok (JObj l))
        end
    | TWrap _ =>
        (* _unstructure_<wrapper>: {k: converter.unstructure(v)} — values by their RUNTIME class *)
        match v with
        | VWrap _ => bind (map_result (fun kv => bind (snd kv TAny) (fun j => Ok (fst kv, j))) kd)
                          (fun l => Ok (JObj l))
        | _ => Err
        end
    | TList X =>
        match v with
        | VList _ => bind (map_result (fun kid => kid X) kl) (fun l => Ok (JArr l))
        | _ => Err      (* None: TypeError; str/dict/tuple are iterated by cattrs — not modelled, not generated *)
        end
    | TDict X =>
        match v with
        | VDict _ => bind (map_result (fun kv => bind (snd kv X) (fun j => Ok (fst kv, j))) kd)
                          (fun l => Ok (JObj l))
        | _ => Err
        end
    | TData c =>
        match v with
        | VData c' _ => if c' =? c then unstructure_data c kd else Err   (* AttributeError in general *)
        | _ => Err
        end
    | TOpt _ => Err
    end.

  Definition unstructure_node (v : value) (kl : list (ty -> result json))
      (kd : list (str * (ty -> result json))) (T : ty) : result json :=
    match T with
    | TOpt X => match v with
                | VNone => Ok JNull
                | _ => unstructure_nonopt v kl kd (strip_opt X)
                end
    | _ => unstructure_nonopt v kl kd T
    end.

  Fixpoint unstructure (v : value) : ty -> result json :=
    match v with
    | VList l => unstructure_node v (map unstructure l) []
    | VDict kvs => unstructure_node v [] (map (fun kv => (fst kv, unstructure (snd kv))) kvs)
    | VData c fs => unstructure_node v [] (map (fun kv => (fst kv, unstructure (snd kv))) fs)
    | VWrap kvs => unstructure_node v [] (map (fun kv => (fst kv, unstructure (snd kv))) kvs)
    | _ => unstructure_node v [] []
    end.
  End WithUReg.

  (* =====================================================================================
     The property's own statements (C16) over this model
     ===================================================================================== *)

  (* supported annotations: leaf types the converter has hooks for; Optional is flat (Python
     flattens Optional[Optional[X]]); the dict[str, Any] fallback of the Union hook is kept out
     (Optional[Dict[str, Any]] returns the raw document, covered by the correspondence only) *)
  Fixpoint ty_ok (T : ty) : bool :=
    match T with
    | TFwd _ | TWrap _ => false    (* wrapper classes: correspondence and oracle only *)
    | TList X | TDict X => ty_ok X
    | TOpt X => ty_ok X && match X with TOpt _ | TDict TAny | TAny => false | _ => true end
    | _ => true
    end.

  Definition wire (k : cls) (f : field) : str := load_key k true (f_name f).

  (* "bijective key maps": the wire keys derived from Meta.key_transform_with_load are pairwise
     distinct, attribute names are distinct, and key_transform_with_dump sends every attribute back
     to the key it is loaded from *)
  Definition maps_bijective (k : cls) : Prop :=
    NoDup (map f_name (c_fields k)) /\ NoDup (map (wire k) (c_fields k)) /\
    forall f, In f (c_fields k) -> dump_key k true (f_name f) = wire k f.

  Definition cls_ok (k : cls) : Prop :=
    maps_bijective k /\
    (forall f, In f (c_fields k) -> ty_ok (f_ty f) = true) /\
    (forall f c, In f (c_fields k) -> In c (ty_classes (f_ty f)) -> lookup_cls c <> None).

  Definition ct_ok : Prop := forall c k, lookup_cls c = Some k -> c_id k = c /\ cls_ok k.

  (* instances that conform to an annotation (datetimes/dates are their own canonical ISO text) *)
  Inductive inst_ok : ty -> value -> Prop :=
  | I_str s : inst_ok TStr (VStr s)
  | I_int z : inst_ok TInt (VInt z)
  | I_float z : inst_ok TFloat (VFloat z)
  | I_bool b : inst_ok TBool (VBool b)
  | I_bytes b : inst_ok TBytes (VBytes b)
  | I_dt s : dt_parse s = Some s -> replace_Z s = s -> inst_ok TDatetime (VDatetime s)
  | I_date s : date_parse s = Some s -> inst_ok TDate (VDate s)
  | I_uuid s : uuid_parse s = Some s -> inst_ok TUuid (VUuid s)
  | I_time s : time_parse s = Some s -> inst_ok TTime (VTime s)
  | I_enum vals s : mem_str s vals = true -> inst_ok (TEnum vals) (VStr s)
  | I_any j : inst_ok TAny (inject j)
  | I_list X l : Forall (inst_ok X) l -> inst_ok (TList X) (VList l)
  | I_dict X kvs : NoDup (map fst kvs) -> Forall (fun kv => inst_ok X (snd kv)) kvs ->
                   inst_ok (TDict X) (VDict kvs)
  | I_none X : inst_ok (TOpt X) VNone
  | I_some X v : v <> VNone -> inst_ok X v -> inst_ok (TOpt X) v
  | I_data c k fs : lookup_cls c = Some k -> map fst fs = map f_name (c_fields k) ->
                    Forall2 (fun f kv => inst_ok (f_ty f) (snd kv)) (c_fields k) fs ->
                    inst_ok (TData c) (VData c fs).

  (* ---------- decode -> encode: documents that conform to an annotation ---------- *)
  (* leaf texts are canonical: base64 as the encoder writes it, ISO / UUID texts as Python re-prints them *)
  Inductive conforms : ty -> json -> Prop :=
  | C_str s : conforms TStr (JStr s)
  | C_int z : conforms TInt (JInt z)
  | C_float z : conforms TFloat (JFloat z)
  | C_bool b : conforms TBool (JBool b)
  | C_bytes b : conforms TBytes (JStr (b64enc b))
  | C_dt s : dt_parse s = Some s -> replace_Z s = s -> conforms TDatetime (JStr s)
  | C_date s : date_parse s = Some s -> conforms TDate (JStr s)
  | C_uuid s : uuid_parse s = Some s -> conforms TUuid (JStr s)
  | C_time s : time_parse s = Some s -> conforms TTime (JStr s)
  | C_enum vals s : mem_str s vals = true -> conforms (TEnum vals) (JStr s)
  | C_any j : conforms TAny j
  | C_list X l : Forall (conforms X) l -> conforms (TList X) (JArr l)
  | C_dict X kvs : Forall (fun kv => conforms X (snd kv)) kvs -> conforms (TDict X) (JObj kvs)
  | C_none X : conforms (TOpt X) JNull
  | C_some X j : j <> JNull -> conforms X j -> conforms (TOpt X) j
  | C_data c k kvs :
      lookup_cls c = Some k -> NoDup (map fst kvs) ->
      (* every key is the wire key of a field and carries a conforming value; no unknown keys *)
      (forall key v, In (key, v) kvs -> exists f, In f (c_fields k) /\ wire k f = key /\ conforms (f_ty f) v) ->
      (* required fields are present *)
      (forall f, In f (c_fields k) -> f_default f = None -> In (wire k f) (map fst kvs)) ->
      conforms (TData c) (JObj kvs).

  Definition empty_json (j : json) : Prop := j = JNull \/ j = JArr [] \/ j = JObj [].
  Definition leaf_ty (T : ty) : bool :=
    match T with TList _ | TDict _ | TOpt _ | TData _ | TWrap _ | TFwd _ => false | _ => true end.

  (* "returns that value": the re-encoded document equals the input, except that (1) the keys of an
     object follow the class' field order and (2) a key that was absent reappears as null or as an empty
     container (the encoded default of the optional field) *)
  Inductive rt_rel : ty -> json -> json -> Prop :=
  | R_leaf T j : leaf_ty T = true -> rt_rel T j j
  | R_list X l l' : Forall2 (rt_rel X) l l' -> rt_rel (TList X) (JArr l) (JArr l')
  | R_dict X kvs kvs' :
      Forall2 (fun a b => fst a = fst b /\ rt_rel X (snd a) (snd b)) kvs kvs' ->
      rt_rel (TDict X) (JObj kvs) (JObj kvs')
  | R_null X : rt_rel (TOpt X) JNull JNull
  | R_some X j j' : rt_rel X j j' -> rt_rel (TOpt X) j j'
  | R_data c k kvs kvs' :
      lookup_cls c = Some k ->
      map fst kvs' = map (wire k) (c_fields k) ->
      (forall f j', In f (c_fields k) -> alookup (wire k f) kvs' = Some j' ->
         (exists jv, alookup (wire k f) kvs = Some jv /\ rt_rel (f_ty f) jv j') \/
         (alookup (wire k f) kvs = None /\ empty_json j')) ->
      rt_rel (TData c) (JObj kvs) (JObj kvs').

  (* defaults of optional fields as the generator (and sane hand-written models) write them *)
  Definition default_shape (T : ty) (d : value) : Prop :=
    (d = VNone /\ exists X, T = TOpt X) \/
    (d = VList [] /\ exists X, T = TList X \/ T = TOpt (TList X)) \/
    (d = VDict [] /\ exists X, T = TDict X \/ T = TOpt (TDict X)).
  Definition defaults_ok : Prop :=
    forall c k f d, lookup_cls c = Some k -> In f (c_fields k) -> f_default f = Some d -> default_shape (f_ty f) d.

  (* every class of the table has its hooks registered (what the two entry points establish for the
     classes reachable from their argument) *)
  Definition all_hooked (reg : list N) : Prop := forall c k, lookup_cls c = Some k -> mem_N c reg = true.

  (* ---------- hook registration ---------- *)
  Definition cls_refs (c : N) : list N :=
    match lookup_cls c with
    | Some k => flat_map (fun f => ty_classes (f_ty f)) (c_fields k)
    | None => []
    end.
  Definition expand (S : list N) : list N := nodup N.eq_dec (S ++ flat_map cls_refs S).
  Fixpoint iter_expand (n : nat) (S : list N) : list N :=
    match n with O => S | S n' => iter_expand n' (expand S) end.
  (* every class id that occurs anywhere: the ids of the table, the ids its fields mention, the ids of T *)
  Definition universe (T : ty) : list N :=
    nodup N.eq_dec (ty_classes T ++ flat_map (fun k => flat_map (fun f => ty_classes (f_ty f)) (c_fields k)) ct).
  (* the set _register_*_hooks_recursively / _register_hooks_for_nested_types walk from T
     (they carry a visited set; the registered set is the reachability closure: proved in
     Proofs/Converter.v, reach_closed / reach_least).  The walk resolves the hints with
     get_type_hints(cls, include_extras=True) and hands them to cattrs, so quoted names inside
     generics resolve (F03c) and Annotated[...] metadata of union fields survives (C14's subject). *)
  Definition reach (T : ty) : list N := iter_expand (length (universe T)) (nodup N.eq_dec (ty_classes T)).

  Record state := { sreg_of : list N; ureg_of : list N }.
  Definition st0 : state := {| sreg_of := []; ureg_of := [] |}.

  (* what the caller sees *)
  Inductive outcome (A : Type) := Returned (a : A) | ValueError | OtherError.
  Arguments Returned {A} a. Arguments ValueError {A}. Arguments OtherError {A}.

  Definition structure_from_dict (st : state) (T : ty) (j : json) : state * outcome value :=
    let st' := {| sreg_of := reach T ++ sreg_of st; ureg_of := ureg_of st |} in
    (st', match structure (sreg_of st') j T with      (* try: ... except Exception -> ValueError *)
          | Ok v => Returned v
          | Err => ValueError
          end).

  (* classes of the instances directly held by a wrapper (its declared value type is not part of the value) *)
  Definition held_classes (kvs : list (str * value)) : list N :=
    flat_map (fun kv => match snd kv with VData c _ => [c] | _ => [] end) kvs.

  (* converter.unstructure(instance): no declared type at the root = dispatch on the class *)
  Definition unstructure_to_dict (st : state) (v : value) : state * outcome json :=
    let st' := match v with
               | VData c _ => {| sreg_of := sreg_of st; ureg_of := reach (TData c) ++ ureg_of st |}
               | VWrap kvs =>
                   (* a wrapper is a dataclass: the walk registers the classes of _data's value annotation;
                      approximated by the classes of the values actually held (the others cannot show in this output) *)
                   {| sreg_of := sreg_of st;
                      ureg_of := flat_map (fun c => reach (TData c)) (held_classes kvs) ++ ureg_of st |}
               | _ => st          (* list / dict roots register nothing *)
               end in
    (st', match unstructure (ureg_of st') v TAny with
          | Ok j => Returned j
          | Err => OtherError     (* no try/except on this path *)
          end).

  (* converter.structure(data, T) called directly on the exported converter (no registration) *)
  Definition raw_structure (st : state) (T : ty) (j : json) : outcome value :=
    match structure (sreg_of st) j T with Ok v => Returned v | Err => OtherError end.

  Inductive op := OpStructure (T : ty) (j : json) | OpUnstructure (v : value) | OpRaw (T : ty) (j : json).
  Inductive obs := ObsV (o : outcome value) | ObsJ (o : outcome json).

  Definition step (st : state) (o : op) : state * obs :=
    match o with
    | OpStructure T j => let (st', r) := structure_from_dict st T j in (st', ObsV r)
    | OpUnstructure v => let (st', r) := unstructure_to_dict st v in (st', ObsJ r)
    | OpRaw T j => (st, ObsV (raw_structure st T j))
    end.

  Fixpoint run_ops (st : state) (ops : list op) : list obs :=
    match ops with
    | [] => []
    | o :: r => let (st', b) := step st o in b :: run_ops st' r
    end.
End Conv.

Arguments Returned {A} a. Arguments ValueError {A}. Arguments OtherError {A}.
