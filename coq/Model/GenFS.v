(* C10 — effect model of ClientGenerator.generate (generator/client_generator.py:175-375) on a file
   system: the decision between the diff path (everything is emitted below a temporary root and
   only compared) and the direct path (rmtree of the output directory, mkdir -p, __init__.py
   chain, emitters write in place), the files each emitter writes (emitters/*.py,
   context/file_manager.py), the second emit of core and endpoints inside the progress messages,
   the rich __init__.py, the ruff cache of post-processing, the diff decision (_show_diffs) and
   the cleanup of the temporary directory.  Transcribed as the code is.  No proofs in this file. *)
From PG Require Import Lib.Strs.
From PG Require Export Gen.T_C10.

(* ---------- paths and the file system ---------- *)
Definition path := list str.                       (* components *)
Definition path_eqb : path -> path -> bool := list_eqb str_eqb.
(* [under base p]: base is a (non-strict) prefix of p *)
Fixpoint under (base p : path) : bool :=
  match base, p with
  | [], _ => true
  | x :: b', y :: p' => str_eqb x y && under b' p'
  | _ :: _, [] => false
  end.
Definition sunder (base p : path) : bool := under base p && negb (path_eqb base p).

Inductive entry := Dir | File (tok : N).            (* tok: abstract content *)
Definition fs := list (path * entry).

Fixpoint lookup (p : path) (s : fs) : option entry :=
  match s with
  | [] => None
  | (q, e) :: r => if path_eqb p q then Some e else lookup p r
  end.
Fixpoint set (s : fs) (p : path) (e : entry) : fs :=
  match s with
  | [] => [(p, e)]
  | (q, e') :: r => if path_eqb p q then (q, e) :: r else (q, e') :: set r p e
  end.
Definition exists_b (s : fs) (p : path) : bool := match lookup p s with Some _ => true | None => false end.

(* non-empty prefixes, shortest first *)
Fixpoint prefixes (p : path) : list path :=
  match p with
  | [] => []
  | x :: r => [x] :: map (cons x) (prefixes r)
  end.

Inductive fs_op :=
| Write (p : path) (t : N)              (* open(p, "w") *)
| WriteIfAbsent (p : path) (t : N)      (* if not p.exists(): write *)
| Remove (p : path)                     (* os.remove / source of os.rename *)
| Mkdirs (p : path)                     (* os.makedirs(p, exist_ok=True) / Path.mkdir(parents=True, exist_ok=True) *)
| Rmtree (p : path)                     (* shutil.rmtree(p) when p exists *)
| Stash (p : path)                      (* saved = p.read_bytes() if p.exists() else None *)
| Unstash (p : path)                    (* if saved is not None: p.write_bytes(saved) *)
| Rewrite (p : path).                   (* a child process (ruff) rewrites the existing file p in place: content not modelled, no audit event *)

(* the Python local variable that carries the saved bytes: a slot that is no directory entry
   (the empty path lies below no non-empty root) *)
Definition mem_slot : path := [].

Definition mkdir1 (s : fs) (q : path) : fs := if exists_b s q then s else s ++ [(q, Dir)].
Definition apply_op (s : fs) (op : fs_op) : fs :=
  match op with
  | Write p t => set s p (File t)
  | WriteIfAbsent p t => if exists_b s p then s else set s p (File t)
  | Remove p => filter (fun kv => negb (path_eqb (fst kv) p)) s
  | Mkdirs p => fold_left mkdir1 (prefixes p) s
  | Rmtree p => filter (fun kv => negb (under p (fst kv))) s
  | Stash p =>
      match lookup p s with
      | Some e => set s mem_slot e
      | None => filter (fun kv => negb (path_eqb (fst kv) mem_slot)) s
      end
  | Unstash p =>
      match lookup mem_slot s with
      | Some e => set (filter (fun kv => negb (path_eqb (fst kv) mem_slot)) s) p e
      | None => s
      end
  | Rewrite _ => s
  end.

(* what the audit hook sees (directory creation is compared through the final tree instead) *)
Inductive kind := W | D.
Definition op_events (s : fs) (op : fs_op) : list (kind * path) :=
  match op with
  | Write p _ => [(W, p)]
  | WriteIfAbsent p _ => if exists_b s p then [] else [(W, p)]
  | Remove p => [(D, p)]
  | Mkdirs _ => []
  | Rmtree p => if exists_b s p then [(D, p)] else []
  | Stash _ => []
  | Unstash p => if exists_b s mem_slot then [(W, p)] else []
  | Rewrite _ => []
  end.
(* every path created, rewritten or removed by the operation *)
Definition op_touched (s : fs) (op : fs_op) : list path :=
  match op with
  | Write p _ => [p]
  | WriteIfAbsent p _ => if exists_b s p then [] else [p]
  | Remove p => [p]
  | Mkdirs p => filter (fun q => negb (exists_b s q)) (prefixes p)
  | Rmtree p => map fst (filter (fun kv => under p (fst kv)) s)
  | Stash _ => []
  | Unstash p => if exists_b s mem_slot then [p] else []
  | Rewrite p => if exists_b s p then [p] else []
  end.

Definition rebase (b : path) (op : fs_op) : fs_op :=
  match op with
  | Write p t => Write (b ++ p) t
  | WriteIfAbsent p t => WriteIfAbsent (b ++ p) t
  | Remove p => Remove (b ++ p)
  | Mkdirs p => Mkdirs (b ++ p)
  | Rmtree p => Rmtree (b ++ p)
  | Stash p => Stash (b ++ p)
  | Unstash p => Unstash (b ++ p)
  | Rewrite p => Rewrite (b ++ p)
  end.

(* ---------- configuration of one generate call ---------- *)
Record config := {
  root : path;                    (* project root (resolved) *)
  tmp : path;                     (* the TemporaryDirectory the diff path would create *)
  cwd : path;                     (* working directory of the process (irrelevant since ruff runs with --no-cache) *)
  out_pkg : list str;             (* output_package.split(".") *)
  core_pkg : option (list str);   (* core_package.split(".") when given *)
  force : bool;
  post : bool;                    (* not no_postprocess *)
  tags : list str;                (* endpoint module stems of the spec *)
  models : list str               (* model module stems of the spec *)
}.

(* pkg_to_path: project_root.joinpath of the components of pkg.split on dots; pathlib drops empty components *)
Definition nonempty (c : str) : bool := negb (str_eqb c []).
Definition rel_of (pkg : list str) : path := filter nonempty pkg.
Definition core_fqn (c : config) : list str :=
  match core_pkg c with Some k => k | None => out_pkg c ++ [s_core] end.
Definition rel_out (c : config) : path := rel_of (out_pkg c).
Definition rel_core (c : config) : path := rel_of (core_fqn c).
Definition out_dir (c : config) : path := root c ++ rel_out c.
Definition core_dir (c : config) : path := root c ++ rel_core c.

(* ---------- stages ---------- *)
Inductive stage := Load | Parse | Setup | Exceptions | Core | Core2 | Models | Endpoints | Endpoints2
                 | Client | Mocks | RichInit | Post | Diff | Final | Other.
Definition stage_eqb (a b : stage) : bool :=
  match a, b with
  | Load, Load | Parse, Parse | Setup, Setup | Exceptions, Exceptions | Core, Core | Core2, Core2
  | Models, Models | Endpoints, Endpoints | Endpoints2, Endpoints2 | Client, Client | Mocks, Mocks
  | RichInit, RichInit | Post, Post | Diff, Diff | Final, Final | Other, Other => true
  | _, _ => false
  end.

(* content tokens: 0 = what the direct path leaves at that place for this configuration;
   2 = the empty file where the direct path leaves something else (client __init__.py when a core
   package is given: the rich __init__.py exists only in the direct path) *)
Definition tok_client_init (c : config) : N := match core_pkg c with Some _ => 2 | None => 0 end.

(* the __init__.py loop: current = dir; while current != project_root: ...; current = current.parent *)
Definition init_chain (rel : path) : list fs_op :=
  map (fun q => WriteIfAbsent (q ++ [s_init]) 0) (rev (prefixes rel)).

(* _is_shared_core: project_root in core_path.parents — any core strictly below the base *)
Definition is_shared_core (c : config) : bool := Nat.leb 1 (length (rel_core c)).

(* sorted(...) on tag keys (the tags here are their own normalised keys: lower-case ASCII words) *)
Fixpoint str_leb (a b : str) : bool :=
  match a, b with
  | [], _ => true
  | _ :: _, [] => false
  | x :: a', y :: b' => if x <? y then true else if x =? y then str_leb a' b' else false
  end.
Fixpoint insert_str (x : str) (l : list str) : list str :=
  match l with
  | [] => [x]
  | y :: r => if str_leb x y then x :: l else y :: insert_str x r
  end.
Definition sort_strs (l : list str) : list str := fold_right insert_str [] l.

Definition core_ops : list fs_op :=
  [Mkdirs []]
  ++ flat_map (fun f => [Mkdirs (removelast f); Write f 0]) runtime_files
  ++ [Write [s_init] 0; Write [s_auth; s_init] 0; WriteIfAbsent [s_pytyped] 0;
      Write [s_readme] 0; Write [s_config] 0].

Definition endpoints_ops (c : config) : list fs_op :=
  [Mkdirs [s_endpoints]; WriteIfAbsent [s_endpoints; s_init] 0; WriteIfAbsent [s_init] (tok_client_init c);
   WriteIfAbsent [s_endpoints; s_pytyped] 0]
  ++ map (fun t => Write [s_endpoints; t ++ s_dot_py] 0) (tags c)
  ++ [Write [s_endpoints; s_init] 0].

(* operations of one stage, relative to the base (temporary root in the diff path, project root
   otherwise); [diff] = the diff path was taken *)
Definition rel_effects_gen (c : config) (diff : bool) (st : stage) : list fs_op :=
  let o := rel_out c in
  let k := rel_core c in
  match st with
  | Load | Parse | Diff | Final | Other | Post => []
  | Setup =>
      if diff then [Mkdirs []; Mkdirs o; Mkdirs k] ++ init_chain k   (* Path.touch() up to the temporary root *)
      else (* the registry of a core INSIDE the output directory is read before the clean-up and written back *)
           (if under o k && negb (path_eqb o k) then [Stash (k ++ [s_registry])] else [])
           ++ [Rmtree o; Mkdirs (removelast o); Mkdirs o]
           ++ (if path_eqb k o then [] else [Mkdirs (removelast k); Mkdirs k])
           ++ (if under o k && negb (path_eqb o k) then [Unstash (k ++ [s_registry])] else [])
           ++ init_chain o
           ++ (if path_eqb k o then [] else init_chain k)
  | Exceptions =>
      map (rebase k) ((if is_shared_core c then [Write [s_registry] 0] else []) ++ [Write [s_aliases] 0])
  | Core => map (rebase k) core_ops
  | Core2 => if diff then [] else map (rebase k) core_ops
  | Models =>
      map (rebase o)
        ([Mkdirs [s_models]; WriteIfAbsent [s_models; s_init] 0]
         ++ flat_map (fun m => [Write [s_models; m ++ s_dot_tmp] 0; Remove [s_models; m ++ s_dot_tmp];
                                Write [s_models; m ++ s_dot_py] 0]) (models c)
         ++ [Write [s_models; s_init] 0; Write [s_models; s_pytyped] 0])
  | Endpoints => map (rebase o) (endpoints_ops c)
  | Endpoints2 => if diff then [] else map (rebase o) (endpoints_ops c)
  | Client => map (rebase o) [Write [s_client_py] 0; WriteIfAbsent [s_pytyped] 0]
  | Mocks =>
      map (rebase o)
        ([Mkdirs [s_mocks; s_endpoints]]
         (* MocksEmitter: one module per tag, in the order of ClientVisitor.tag_tuples (sorted by tag key);
            the endpoints emitter above keeps the order of first appearance *)
         ++ map (fun t => Write [s_mocks; s_endpoints; s_mock_ ++ t ++ s_dot_py] 0) (sort_strs (tags c))
         ++ [Write [s_mocks; s_endpoints; s_init] 0; Write [s_mocks; s_mock_client] 0; Write [s_mocks; s_init] 0])
  | RichInit =>   (* _write_client_init: in both paths when a core package was given *)
      match core_pkg c with Some _ => [Write (o ++ [s_init]) 0] | None => [] end
  end.

(* post-processing: PostprocessManager.run is handed the LIST of files returned by the emitters and gives
   ruff exactly the *.py files of that list (never a directory) *)
Definition is_py (p : path) : bool := suffixb s_dot_py (last p []).
Definition written_path (op : fs_op) : list path :=
  match op with Write p _ | WriteIfAbsent p _ => [p] | _ => [] end.
Definition gen_stages : list stage := [Exceptions; Core; Models; Endpoints; Client; Mocks; RichInit].
Definition post_targets (c : config) (diff : bool) : list path :=
  filter is_py (flat_map written_path (flat_map (rel_effects_gen c diff) gen_stages)).
Definition rel_effects (c : config) (diff : bool) (st : stage) : list fs_op :=
  match st with
  | Post => map Rewrite (post_targets c diff)
  | _ => rel_effects_gen c diff st
  end.

(* absolute operations: the relative ones rebased.  Post-processing (ruff, run with --no-cache) rewrites
   listed files in place and creates nothing. *)
Definition effects (c : config) (diff : bool) (st : stage) : list fs_op :=
  map (rebase (if diff then tmp c else root c)) (rel_effects c diff st)
  (* diff path, before ExceptionsEmitter.emit is entered: the registry of the EXISTING core is copied into
     the temporary core directory (shutil.copy when it exists; the real file is only read) *)
  ++ (if stage_eqb st Setup && diff
      then [Stash (core_dir c ++ [s_registry]); Unstash (tmp c ++ rel_core c ++ [s_registry])] else []).

Definition stages (diff : bool) (p : bool) : list stage :=
  if diff then [Load; Parse; Setup; Exceptions; Core; Models; Endpoints; Client; Mocks; RichInit]
               ++ (if p then [Post] else []) ++ [Diff]
  else [Load; Parse; Setup; Exceptions; Core; Core2; Models; Endpoints; Endpoints2; Client; Mocks; RichInit]
       ++ (if p then [Post] else []).

(* stages that run before a failure injected on entry of [fail_at] *)
Fixpoint before (fail_at : option stage) (l : list stage) : list stage :=
  match l with
  | [] => []
  | st :: r => match fail_at with
               | Some f => if stage_eqb f st then [] else st :: before fail_at r
               | None => st :: before fail_at r
               end
  end.
Definition fails (fail_at : option stage) (l : list stage) : bool :=
  match fail_at with Some f => existsb (stage_eqb f) l | None => false end.

(* generate(): `if not output_package: raise ValueError`, then every dotted component of output_package and
   of core_package (when given) must satisfy str.isidentifier(), else ValueError — after loading and parsing,
   before any path is computed.  (ASCII identifiers; components with '/', '.', '' are all rejected.) *)
Definition valid_pkg (p : list str) : bool := negb (path_eqb p []) && forallb is_ident p.
Definition valid_pkgs (c : config) : bool :=
  valid_pkg (out_pkg c) && match core_pkg c with Some k => valid_pkg k | None => true end.
Definition run_stages (c : config) (diff : bool) : list stage :=
  if valid_pkgs c then stages diff (post c) else [Load; Parse].

Definition plan_main (c : config) (diff : bool) (fail_at : option stage) : list (stage * fs_op) :=
  flat_map (fun st => map (pair st) (effects c diff st)) (before fail_at (run_stages c diff)).
(* leaving the `with TemporaryDirectory()` block, normally or by exception *)
Definition plan_final (c : config) (diff : bool) (fail_at : option stage) : list (stage * fs_op) :=
  if diff && existsb (stage_eqb Setup) (before fail_at (run_stages c diff))
  then [(Final, Rmtree (tmp c))] else [].

Definition exec (s : fs) (pl : list (stage * fs_op)) : fs := fold_left (fun s so => apply_op s (snd so)) pl s.
Fixpoint events (s : fs) (pl : list (stage * fs_op)) : list (stage * kind * path) :=
  match pl with
  | [] => []
  | (st, op) :: r => map (fun kp => (st, fst kp, snd kp)) (op_events s op) ++ events (apply_op s op) r
  end.
Fixpoint touched (s : fs) (pl : list (stage * fs_op)) : list path :=
  match pl with
  | [] => []
  | (st, op) :: r => op_touched s op ++ touched (apply_op s op) r
  end.

(* _show_diffs(old, new): some *.py below new is missing below old or has different bytes there, or some
   *.py below old has no counterpart below new *)
Definition diff_dir (s : fs) (old new : path) : bool :=
  existsb (fun kv =>
    match snd kv with
    | File t => under new (fst kv) && is_py (fst kv)
                && match lookup (old ++ skipn (length new) (fst kv)) s with
                   | Some (File t') => negb (N.eqb t t')
                   | _ => true
                   end
    | Dir => false
    end) s
  || existsb (fun kv =>
    match snd kv with
    | File _ => under old (fst kv) && is_py (fst kv)
                && negb (exists_b s (new ++ skipn (length old) (fst kv)))
    | Dir => false
    end) s.
Definition has_diff (c : config) (s : fs) : bool :=
  diff_dir s (out_dir c) (tmp c ++ rel_out c)
  || (negb (path_eqb (core_dir c) (out_dir c)) && diff_dir s (core_dir c) (tmp c ++ rel_core c)).

Inductive outcome := Ok | DiffFound | Fail (st : stage) | Invalid (* ValueError: invalid package name *).

Definition diff_mode (c : config) (s : fs) : bool := negb (force c) && exists_b s (out_dir c).

Definition plan (c : config) (fail_at : option stage) (s : fs) : list (stage * fs_op) :=
  plan_main c (diff_mode c s) fail_at ++ plan_final c (diff_mode c s) fail_at.

Definition generate (c : config) (fail_at : option stage) (s : fs) : fs * outcome :=
  let diff := diff_mode c s in
  let s1 := exec s (plan_main c diff fail_at) in
  let s2 := exec s1 (plan_final c diff fail_at) in
  (s2,
   if fails fail_at (run_stages c diff) then
     match fail_at with Some f => Fail f | None => Ok end
   else if negb (valid_pkgs c) then Invalid
   else if diff && has_diff c s1 then DiffFound else Ok).

(* ---------- a failure INSIDE a stage: the OS refuses to create one file or directory ---------- *)
(* FileManager.write_file / ensure_dir (or a direct open / mkdir) raises OSError on the first creation
   of a file or directory whose base name is [name].  The operations before it have happened;
   ClientEmitter.emit and MocksEmitter.emit catch the exception, append a report to an error log
   in tempfile.gettempdir() (the parent of the TemporaryDirectory) and re-raise. *)
Definition base_matches (name : str) (p : path) : bool := str_eqb (last p []) name.
Definition sys_tmp (c : config) : path := removelast (tmp c).
Definition error_log_ops (c : config) (st : stage) : list fs_op :=
  match st with
  | Client => [Write (sys_tmp c ++ [s_error_log]) 1]
  | Mocks => [Write (sys_tmp c ++ [s_mocks_error_log]) 1]
  | _ => []
  end.
(* Some l: the operation is refused; l = the part of it that still happens (makedirs creates the
   missing directories above the refused one) *)
Definition io_cut (name : str) (s : fs) (op : fs_op) : option (list fs_op) :=
  match op with
  | Write p _ => if base_matches name p then Some [] else None
  | WriteIfAbsent p _ => if negb (exists_b s p) && base_matches name p then Some [] else None
  | Mkdirs p =>
      match find (fun q => negb (exists_b s q) && base_matches name q) (prefixes p) with
      | Some q => Some [Mkdirs (removelast q)]
      | None => None
      end
  | Unstash p => if exists_b s mem_slot && base_matches name p then Some [] else None
  | Remove _ | Rmtree _ | Stash _ | Rewrite _ => None
  end.
(* (ModelsEmitter._generate_model_file logs the exception and re-raises it.) *)
Record io_result := { io_ops : list (stage * fs_op); io_hit : option stage }.
Fixpoint io_plan (name : str) (c : config) (s : fs) (pl : list (stage * fs_op)) : io_result :=
  match pl with
  | [] => {| io_ops := []; io_hit := None |}
  | (st, op) :: r =>
      match io_cut name s op with
      | Some part => {| io_ops := map (pair st) (part ++ error_log_ops c st); io_hit := Some st |}
      | None => let x := io_plan name c (apply_op s op) r in
                {| io_ops := (st, op) :: io_ops x; io_hit := io_hit x |}
      end
  end.
Definition io_run (c : config) (name : str) (s : fs) : io_result :=
  io_plan name c s (plan_main c (diff_mode c s) None).
Definition plan_io (c : config) (name : str) (s : fs) : list (stage * fs_op) :=
  io_ops (io_run c name s)
  ++ (if diff_mode c s && valid_pkgs c then [(Final, Rmtree (tmp c))] else []).
Inductive outcome_io := Returned (o : outcome) | FailIO (st : stage).
Definition generate_io (c : config) (name : str) (s : fs) : fs * outcome_io :=
  (exec s (plan_io c name s),
   match io_hit (io_run c name s) with
   | Some st => FailIO st
   | None => Returned (if negb (valid_pkgs c) then Invalid
                       else if diff_mode c s && has_diff c (exec s (io_ops (io_run c name s))) then DiffFound else Ok)
   end).
(* some operation was refused by the OS during the run *)
Definition io_refused (c : config) (name : str) (s : fs) : bool :=
  match io_hit (io_run c name s) with Some _ => true | None => false end.

(* ---------- the command line entry (cli.py main) ---------- *)
(* flags given on the command line; None = flag absent.  An omitted --core-package becomes
   <output-package>.core BEFORE generate is called (so generate always sees an explicit core package). *)
Record cli_args := { a_out : list str; a_core : option (list str); a_force : option bool; a_no_postprocess : option bool }.
Definition cli_config (c : config) (a : cli_args) : config :=
  {| root := root c; tmp := tmp c; cwd := cwd c;
     out_pkg := a_out a;
     core_pkg := Some (match a_core a with Some k => k | None => a_out a ++ [s_core] end);
     force := match a_force a with Some b => b | None => cli_force_default end;
     post := negb (match a_no_postprocess a with Some b => b | None => cli_no_postprocess_default end);
     tags := tags c; models := models c |}.

(* ---------- the property ---------- *)
Definition restrict_root (c : config) (s : fs) : fs := filter (fun kv => under (root c) (fst kv)) s.

(* the package directories as the property means them: one real directory per dotted component *)
Definition spec_out (c : config) : path := root c ++ out_pkg c.
Definition spec_core (c : config) : path := root c ++ core_fqn c.
(* the package directories on the way from the root down to the package directory (the last one,
   the package directory itself, is redundant with [under] below and kept for uniformity) *)
Definition ancestors (c : config) (pkg : list str) : list path :=
  map (fun q => root c ++ q) (prefixes pkg).
Definition allowed (c : config) (p : path) : bool :=
  under (spec_out c) p || under (spec_core c) p
  || existsb (fun a => path_eqb p a || path_eqb p (a ++ [s_init]))
             (ancestors c (out_pkg c) ++ ancestors c (core_fqn c)).

(* ---------- assumptions on the environment (no findings left: F10a, F10b, F10c are fixed) ---------- *)
(* consequence of [valid_pkgs]: no empty component, so pkg_to_path drops nothing *)
Definition wf_pkg (c : config) : bool :=
  forallb nonempty (out_pkg c) && negb (path_eqb (out_pkg c) [])
  && forallb nonempty (core_fqn c) && negb (path_eqb (core_fqn c) []).
(* the temporary directory and the project root are disjoint *)
Definition wf_tmp (c : config) : bool := negb (under (root c) (tmp c)) && negb (under (tmp c) (root c)).
(* the emitters' error logs (system temp dir) are not below the project root *)
Definition wf_log (c : config) : bool :=
  negb (under (root c) (sys_tmp c ++ [s_error_log])) && negb (under (root c) (sys_tmp c ++ [s_mocks_error_log])).
