(* C06 — behavioural model of "status -> outcome" of a generated client call.
   Transcribes, branch for branch and defects included:
     core/http_transport.py  HttpxTransport.request  (raise for status < lo or >= hi)
     helpers/endpoint_utils.py _get_primary_response, types/strategies/response_strategy.py and
       types/resolvers/response_resolver.py  _get_primary_response   (three copies)
     visit/endpoint/generators/response_handler_generator.py  generate_response_handling  (the `match`)
     core/http_status_codes.py get_exception_class_name / is_*_error, visit/exception_visitor.py (aliases)
     core/exceptions.py (hierarchy)
   Literal data comes from Gen/T_C06.v (regenerated from /repo on every run).  No proofs in this file. *)
From PG Require Import Lib.Strs.
From PG Require Export Gen.T_C06.

(* ------------------------------------------------------------------ operations *)
(* A declared response key.  [Num n] is the canonical decimal string of n ("404"); [Other s] is any key
   that is neither all digits nor "default" ("2XX", "4xx", ...): str.isdigit() is False for it. *)
Inductive code := Num (n : N) | Default | Other (s : str).
Record resp := { r_code : code; r_content : bool (* `content` mapping non-empty *) }.
Definition op := list resp.          (* IROperation.responses, in document order *)
Definition spec := list op.          (* all operations of one generated package *)

Definition code_eqb (a b : code) : bool :=
  match a, b with
  | Num x, Num y => x =? y
  | Default, Default => true
  | Other s, Other t => str_eqb s t
  | _, _ => false
  end.
Definition resp_eqb (a b : resp) : bool :=
  code_eqb (r_code a) (r_code b) && Bool.eqb (r_content a) (r_content b).

(* str(n) *)
Fixpoint dec_fuel (f : nat) (n : N) (acc : str) : str :=
  match f with
  | O => acc
  | S f' => let acc' := (48 + n mod 10) :: acc in
            if n <? 10 then acc' else dec_fuel f' (n / 10) acc'
  end.
Definition dec (n : N) : str := dec_fuel (S (N.size_nat n)) n [].

(* status_code.startswith("2") *)
Definition starts_success_s (s : str) : bool :=
  match s with c :: _ => c =? 48 + success_lead_digit | [] => false end.
Definition lead2 (n : N) : bool := starts_success_s (dec n).
Definition starts2 (c : code) : bool :=
  match c with Num n => lead2 n | Default => false | Other s => starts_success_s s end.
Definition is_default (r : resp) : bool := match r_code r with Default => true | _ => false end.

(* ---- _get_primary_response, copy 1: response_strategy.py / response_resolver.py (nested for loops) *)
Fixpoint first_with_code (c : N) (rs : op) : option resp :=
  match rs with
  | [] => None
  | r :: rest => if code_eqb (r_code r) (Num c) then Some r else first_with_code c rest
  end.
Fixpoint prio_loop (codes : list N) (rs : op) : option resp :=
  match codes with
  | [] => None
  | c :: cs => match first_with_code c rs with Some r => Some r | None => prio_loop cs rs end
  end.
Fixpoint first_starts2 (rs : op) : option resp :=
  match rs with [] => None | r :: rest => if starts2 (r_code r) then Some r else first_starts2 rest end.
Fixpoint first_default (rs : op) : option resp :=
  match rs with [] => None | r :: rest => if is_default r then Some r else first_default rest end.
Definition primary_rs (rs : op) : option resp :=
  match rs with
  | [] => None                                   (* if not operation.responses: return None *)
  | r0 :: _ =>
      match prio_loop primary_priority rs with
      | Some r => Some r
      | None => match first_starts2 rs with
                | Some r => Some r
                | None => match first_default rs with
                          | Some r => Some r
                          | None => Some r0          (* operation.responses[0] *)
                          end
                end
      end
  end.

(* ---- copy 2: helpers/endpoint_utils.py (next(generator, None) per priority code) *)
Fixpoint prio_next (codes : list N) (rs : op) : option resp :=
  match codes with
  | [] => None
  | c :: cs => match find (fun r => code_eqb (r_code r) (Num c)) rs with
               | Some r => Some r
               | None => prio_next cs rs
               end
  end.
Definition primary_eu (rs : op) : option resp :=
  match prio_next primary_priority rs with
  | Some r => Some r
  | None => match find (fun r => starts2 (r_code r)) rs with
            | Some r => Some r
            | None => match find is_default rs with
                      | Some r => Some r
                      | None => hd_error rs       (* if op.responses: return op.responses[0]; return None *)
                      end
            end
  end.

(* strategy.return_type == "None"  (ResponseStrategyResolver.resolve uses copy 1).
   Domain note: a response with content whose schema resolves to the Python type "None" is outside this model
   (the harness only declares object / text / stream contents). *)
Definition ret_none (o : op) : bool :=
  match primary_rs o with None => true | Some r => negb (r_content r) end.

(* ------------------------------------------------------------------ the generated `match` *)
(* return <value|None>  /  raise <alias m>(response=response)  /  raise HTTPError(…) inline for a declared
   numeric code that is not an error code (1xx/3xx: aliases exist for 4xx/5xx only) *)
Inductive case_action := CReturn | CAlias (m : N) | CBase.
Inductive action := AReturn | ARaiseAlias (m : N) | ARaiseDeclaredOther | ARaiseFallback.

Definition in_range (lo hi n : N) : bool := (lo <=? n) && (n <? hi).
Definition is_error_code (n : N) : bool := in_range error_lo error_hi n.
Definition is_client_error (n : N) : bool := in_range client_lo client_hi n.
Definition is_server_error (n : N) : bool := in_range server_lo server_hi n.

(* primary_success_ir and primary_success_ir.status_code.isdigit() and .startswith("2")  (handler uses copy 2) *)
Definition processed_primary (o : op) : option (resp * N) :=
  match primary_eu o with
  | Some r => match r_code r with Num n => if lead2 n then Some (r, n) else None | _ => None end
  | None => None
  end.

Definition others (o : op) : op :=
  match processed_primary o with
  | Some (p, _) => filter (fun r => negb (resp_eqb r p)) o
  | None => o
  end.

Definition case_of (r : resp) : list (N * case_action) :=
  match r_code r with
  | Num m => [(m, if lead2 m then CReturn else if is_error_code m then CAlias m else CBase)]
  | _ => []
  end.

(* the `case <int>:` clauses in textual order; Python's match takes the first that equals the status *)
Definition cases (o : op) : list (N * case_action) :=
  match processed_primary o with Some (_, n) => [(n, CReturn)] | None => [] end
  ++ flat_map case_of (others o).

(* status_code.upper() == "2XX": rendered as `case _ if 200 <= response.status_code < 300:` after the numeric cases *)
Definition upper_s (s : str) : str := map upper_ascii s.
Definition is_wildcard_2xx (c : code) : bool :=
  match c with Other s => str_eqb (upper_s s) s_wildcard_2xx | _ => false end.
Definition has_wildcard (o : op) : bool := existsb (fun r => is_wildcard_2xx (r_code r)) (others o).

(* `case _:` — "Default response" when a `default` key is declared, else the final catch-all.  A default response
   with content stands in for the success body only under `if 200 <= response.status_code < 300:` *)
Definition default_returns (o : op) : bool :=
  match first_default o with
  | Some d => r_content d && negb (ret_none o)
  | None => false
  end.
Definition fallback (o : op) (st : N) : action :=
  if default_returns o && in_range default_success_lo default_success_hi st then AReturn else ARaiseFallback.

Definition find_case (st : N) (cs : list (N * case_action)) : option (N * case_action) :=
  find (fun c => fst c =? st) cs.

Definition dispatch (o : op) (st : N) : action :=
  match find_case st (cases o) with
  | Some (_, CReturn) => AReturn
  | Some (_, CAlias m) => ARaiseAlias m
  | Some (_, CBase) => ARaiseDeclaredOther
  | None => if has_wildcard o && in_range wildcard_lo wildcard_hi st then AReturn else fallback o st
  end.

(* ------------------------------------------------------------------ exception classes *)
Inductive cls := Named (name : str) | Alias (n : N).

Fixpoint lookupN {V} (k : N) (d : list (N * V)) : option V :=
  match d with [] => None | (k', v) :: d' => if k =? k' then Some v else lookupN k d' end.

(* get_exception_class_name *)
Definition alias_name (n : N) : str :=
  match lookupN n exc_names with
  | Some nm => if str_eqb nm exc_rename_from then exc_rename_to else nm
  | None => exc_fallback_prefix ++ dec n
  end.

(* ExceptionVisitor.visit: aliases are emitted only for is_error_code codes, base by range *)
Definition alias_exists (n : N) : bool := is_error_code n && (is_client_error n || is_server_error n).
Definition alias_parent (n : N) : option cls :=
  if is_client_error n then Some (Named alias_base_client)
  else if is_server_error n then Some (Named alias_base_server)
  else None.

Definition parent (c : cls) : option cls :=
  match c with
  | Named s => match alookup s exc_hierarchy with Some b => Some (Named b) | None => None end
  | Alias n => alias_parent n
  end.

Definition cls_eqb (a b : cls) : bool :=
  match a, b with
  | Named s, Named t => str_eqb s t
  | Alias n, Alias m => n =? m
  | _, _ => false
  end.

Fixpoint subclass_fuel (f : nat) (c d : cls) : bool :=
  cls_eqb c d ||
  match f with
  | O => false
  | S f' => match parent c with Some p => subclass_fuel f' p d | None => false end
  end.
(* every chain is at most alias -> Client/Server -> HTTPError -> Exception; 8 is ample, and
   Proofs/Dispatch.v shows the hierarchy table is no deeper *)
Definition subclass_of (c d : cls) : bool := subclass_fuel 8 c d.

Definition cls_name (c : cls) : str := match c with Named s => s | Alias n => alias_name n end.
Fixpoint mro_fuel (f : nat) (c : cls) : list str :=
  cls_name c ::
  match f with
  | O => []
  | S f' => match parent c with Some p => mro_fuel f' p | None => [] end
  end.
Definition mro (c : cls) : list str := mro_fuel 8 c.

(* ------------------------------------------------------------------ transport and the whole call *)
Inductive kind := Bundled | Custom.   (* HttpxTransport / a transport returning every response unraised *)

(* error_class = D; if a <= status < b: error_class = X; elif … (first matching range) *)
Fixpoint range_class (rs : list (N * N * str)) (default : str) (st : N) : str :=
  match rs with
  | [] => default
  | (lo, hi, c) :: rest => if in_range lo hi st then c else range_class rest default st
  end.

Definition transport (k : kind) (st : N) : option cls :=
  match k with
  | Bundled => if (st <? transport_lo) || (transport_hi <=? st)
               then Some (Named (range_class transport_ranges transport_default st)) else None
  | Custom => None
  end.

(* the endpoints module does `from <core> import <alias names it raises>`; a name that was never generated
   would make the import of the module — and with it of <package>.client — fail *)
Definition op_imports_ok (o : op) : bool :=
  forallb (fun c => match snd c with CAlias m => alias_exists m | _ => true end) (cases o).
Definition imports_ok (s : spec) : bool := forallb op_imports_ok s.

(* Raised c st r : exception of class c with .status_code = st; r = (.response is the response object) *)
(* Crashed: the `raise X(...)` statement itself failed with TypeError because the name X denotes something else *)
Inductive outcome := Returned | Raised (c : cls) (st : N) (resp_carried : bool) | ImportFails | Crashed.

Definition call (k : kind) (s : spec) (o : op) (st : N) : outcome :=
  if negb (imports_ok s) then ImportFails
  else match transport k st with
       | Some c => Raised c st true
       | None =>
           match dispatch o st with
           | AReturn => Returned
           | ARaiseAlias m => Raised (Alias m) st true
           | ARaiseDeclaredOther => Raised (Named handler_declared_other_raises) st true
           | ARaiseFallback => Raised (Named (range_class handler_ranges handler_fallback_raises st)) st true
           end
       end.

(* ---- the import namespace of the endpoints module.  The module imports, by name, the exception classes it raises and
   the model classes of its operations' 2xx bodies (the models last): a model class with the same name would SHADOW the
   exception class.  _exception_ref therefore references a class whose name is also a model class name of the spec
   through its module (`exception_aliases.NotFoundError`, `exceptions.ClientError`); every other class by name.
   [all] = model class names of the whole spec (superset of [ms] = those imported by this module). *)
Inductive ref := ByName (n : str) | Qualified (n : str).
Definition exception_ref (all : list str) (c : cls) : ref :=
  if mem_str (cls_name c) all then Qualified (cls_name c) else ByName (cls_name c).
(* does the reference denote the exception class in a module that imports the model classes [ms] by name? *)
Definition resolves (ms : list str) (r : ref) : bool :=
  match r with Qualified _ => true | ByName n => negb (mem_str n ms) end.

Definition call_ns (k : kind) (s : spec) (all ms : list str) (o : op) (st : N) : outcome :=
  match transport k st with
  | Some _ => call k s o st          (* raised inside core/http_transport.py: nothing is shadowed there *)
  | None => match call k s o st with
            | Raised c st' r => if resolves ms (exception_ref all c) then Raised c st' r else Crashed
            | x => x
            end
  end.

(* ------------------------------------------------------------------ the property (from its text) *)
Definition s_HTTPError : str := [72;84;84;80;69;114;114;111;114].
Definition s_ClientError : str := [67;108;105;101;110;116;69;114;114;111;114].
Definition s_ServerError : str := [83;101;114;118;101;114;69;114;114;111;114].
Definition HTTPError := Named s_HTTPError.
Definition ClientError := Named s_ClientError.
Definition ServerError := Named s_ServerError.

Definition sub (c d : cls) : Prop := subclass_of c d = true.

(* status range of the quantifier *)
Definition status_ok (st : N) : Prop := 100 <= st <= 599 /\ ~ (200 <= st < 300).

Definition C06_spec (o : outcome) (st : N) : Prop :=
  exists c, o = Raised c st true
            /\ sub c HTTPError
            /\ (400 <= st < 500 -> sub c ClientError)
            /\ (500 <= st < 600 -> sub c ServerError).

(* the part that survives F06a/F06b: never a value, status carried, instance of HTTPError *)
Definition C06_weak_spec (o : outcome) (st : N) : Prop :=
  exists c, o = Raised c st true /\ sub c HTTPError.

(* No guard: with F06a-d fixed the property holds for every input (C06_full). *)
