(* C05 — decision model of "which decode expression does the generated handler use for a declared 2xx response".
   Transcribes, defects included:
     visit/endpoint/generators/response_handler_generator.py  (_should_use_cattrs_structure and its helpers,
        _get_cattrs_deserialization_code, generate_response_handling, _write_strategy_based_return,
        _write_content_type_conditional_handling, _get_response_schema)
     types/strategies/response_strategy.py  (resolve, _resolve_streaming_strategy,
        _resolve_multi_content_type_strategy, _resolve_content_type_to_python_type, _get_response_schema)
     core/loader/responses/parser.py  (stream flag)
   The string heuristics are transcribed ON STRINGS (Python str = list of code points), exactly as the code
   applies them to rendered type strings; rendered types are an AST [rty] with printer [show].  The JSON
   decoder / cattrs are abstract (Section variables in Proofs/Response.v).  No proofs in this file. *)
From PG Require Import Lib.Strs Model.Dispatch.
From PG Require Export Gen.T_C05.

(* ------------------------------------------------------------------ string primitives (ASCII domain) *)
Fixpoint find_from (p s : str) (i : nat) (fuel : nat) : option nat :=      (* s.find(p) *)
  if prefixb p s then Some i else
  match fuel, s with
  | S f, _ :: s' => find_from p s' (S i) f
  | _, _ => None
  end.
Definition find_s (p s : str) : option nat := find_from p s 0 (length s).
Fixpoint rfind_from (p s : str) (i : nat) (fuel : nat) (best : option nat) : option nat :=   (* s.rfind(p) *)
  let best' := if prefixb p s then Some i else best in
  match fuel, s with
  | S f, _ :: s' => rfind_from p s' (S i) f best'
  | _, _ => best'
  end.
Definition rfind_s (p s : str) : option nat := rfind_from p s 0 (length s) None.
Definition contains_s (p s : str) : bool := match find_s p s with Some _ => true | None => false end.
Definition slice (s : str) (a b : nat) : str := firstn (b - a) (skipn a s).       (* s[a:b], 0 <= a, b *)
Definition is_space (c : N) : bool := (c =? 32) || ((9 <=? c) && (c <=? 13)).
Fixpoint lstrip (s : str) : str := match s with c :: r => if is_space c then lstrip r else s | [] => [] end.
Definition strip (s : str) : str := rev (lstrip (rev (lstrip s))).
(* s.split(sep)[0] *)
Definition split_first (sep s : str) : str :=
  match find_s sep s with Some i => firstn i s | None => s end.
(* s.replace(old, new), old non-empty *)
Fixpoint replace_fuel (fuel : nat) (old new s : str) : str :=
  match fuel with
  | O => s
  | S f => if prefixb old s then new ++ replace_fuel f old new (skipn (length old) s)
           else match s with [] => [] | c :: r => c :: replace_fuel f old new r end
  end.
Definition replace_all (old new s : str) : str := replace_fuel (S (length s)) old new s.
Definition starts_any (ps : list str) (s : str) : bool := existsb (fun p => prefixb p s) ps.
Definition first_upper (s : str) : bool := match s with c :: _ => is_upper c | [] => false end.

(* literals *)
Definition L (l : list N) : str := l.
Definition s_lb : str := [91].  Definition s_rb : str := [93].  Definition s_dot : str := [46].
Definition s_comma_sp : str := [44;32].
Definition s_str := L[115;116;114].  Definition s_int := L[105;110;116].  Definition s_float := L[102;108;111;97;116].
Definition s_bool := L[98;111;111;108].  Definition s_bytes := L[98;121;116;101;115].  Definition s_None := L[78;111;110;101].
Definition s_Any := L[65;110;121].  Definition s_Dict := L[68;105;99;116].  Definition s_List := L[76;105;115;116].
Definition s_dict := L[100;105;99;116].  Definition s_list := L[108;105;115;116].  Definition s_tuple := L[116;117;112;108;101].
Definition s_Union := L[85;110;105;111;110].  Definition s_Tuple := L[84;117;112;108;101].
Definition s_Optional := L[79;112;116;105;111;110;97;108].
Definition s_string := L[115;116;114;105;110;103].  Definition s_integer := L[105;110;116;101;103;101;114].
Definition s_number := L[110;117;109;98;101;114].  Definition s_boolean := L[98;111;111;108;101;97;110].
Definition s_bar_None := L[32;124;32;78;111;110;101].         (* " | None" *)
Definition s_bar_None2 := L[124;32;78;111;110;101].           (* "| None" *)
Definition s_sfd := L[115;116;114;117;99;116;117;114;101;95;102;114;111;109;95;100;105;99;116;40].  (* "structure_from_dict(" *)
Definition s_if_not_none (d : str) : str :=                     (* " if D is not None else None" *)
  L[32;105;102;32] ++ d ++ L[32;105;115;32;110;111;116;32;78;111;110;101;32;101;108;115;101;32;78;111;110;101].

(* ------------------------------------------------------------------ the schema registry the heuristics consult *)
(* self.schemas[name]: what the helper methods read from an IRSchema *)
Record sinfo := { si_named : bool;             (* getattr(schema, "name") truthy *)
                  si_type : option str;        (* schema.type *)
                  si_props : bool;             (* schema.properties truthy *)
                  si_enum : bool;              (* schema.enum truthy *)
                  si_items : option (option str * option str) }.  (* items: (items.name if truthy, str(items.type)) *)
Definition registry := list (str * sinfo).

Definition cut_bracket (s : str) : str := match find_s s_lb s with Some i => firstn i s | None => s end.
Definition opt_str_eqb (a : option str) (b : str) : bool := match a with Some x => str_eqb x b | None => false end.

Definition is_type_alias (i : sinfo) : bool :=
  si_named i && negb (si_props i) && negb (si_enum i) && negb (opt_str_eqb (si_type i) s_object).
Definition is_alias_to_array (reg : registry) (t : str) : bool :=
  match alookup (cut_bracket t) reg with
  | Some i => is_type_alias i && opt_str_eqb (si_type i) s_array
  | None => false
  end.
Definition is_alias_to_primitive (reg : registry) (t : str) : bool :=
  match alookup (cut_bracket t) reg with
  | Some i => is_type_alias i &&
              (match si_type i with Some ty => mem_str ty alias_prim_types | None => false end)
  | None => false
  end.
Definition extract_array_item_type (reg : registry) (t : str) : str :=
  if prefixb (s_List ++ s_lb) t || prefixb (s_list ++ s_lb) t then
    match find_s s_lb t, rfind_s s_rb t with
    | Some a, Some b => strip (slice t (S a) b)
    | _, _ => t
    end
  else match alookup (cut_bracket t) reg with
       | Some i => if opt_str_eqb (si_type i) s_array then
                     match si_items i with
                     | Some (Some nm, _) => nm
                     | Some (None, Some ty) => ty
                     | _ => t
                     end
                   else t
       | None => t
       end.
Definition is_dataclass_type (reg : registry) (t : str) : bool :=
  if mem_str t builtin_names then false
  else let base := cut_bracket t in
       match alookup base reg with
       | Some i => opt_str_eqb (si_type i) s_object || si_props i
       | None => first_upper base && negb (mem_str base not_model_names_dataclass)
       end.

(* _should_use_cattrs_structure.  Domain: the extracted base type is non-empty (else Python raises IndexError). *)
Definition should_use_cattrs (reg : registry) (t : str) : bool :=
  let base :=
    if contains_s s_lb t && contains_s s_rb t then
      match find_s s_lb t, rfind_s s_rb t with
      | Some a, Some b =>
          let inner := slice t (S a) b in
          let inner := if contains_s s_comma_sp inner then split_first s_comma_sp inner else inner in
          strip inner
      | _, _ => t
      end
    else t in
  if mem_str base builtin_names then false
  else if starts_any construct_prefixes base then false
  else if is_alias_to_primitive reg t then false
  else if is_alias_to_array reg t then is_dataclass_type reg (extract_array_item_type reg t)
  else contains_s s_dot base
       || (first_upper base && negb (mem_str base not_model_names_cattrs)).

(* _get_cattrs_deserialization_code(return_type, data_expr): the code string, or None for ValueError *)
Definition sfd (d t : str) : str := s_sfd ++ d ++ s_comma_sp ++ t ++ [41].
Fixpoint deser_code_fuel (fuel : nat) (reg : registry) (t d : str) : option str :=
  if is_alias_to_array reg t then Some (sfd d t)
  else if prefixb (s_List ++ s_lb) t || prefixb (s_list ++ s_lb) t then Some (sfd d t)
  else if prefixb (s_Optional ++ s_lb) t then        (* legacy branch: inner = return_type[9:-1] *)
    let inner := slice t 9 (length t - 1) in
    if prefixb (s_List ++ s_lb) inner || prefixb (s_list ++ s_lb) inner then
      match fuel with
      | O => None
      | S f => match deser_code_fuel f reg inner d with
               | Some c => Some (c ++ s_if_not_none d)
               | None => None
               end
      end
    else Some (sfd d inner ++ s_if_not_none d)
  else if contains_s s_bar_None t || suffixb s_bar_None2 t then
    let inner := if contains_s s_bar_None t then strip (replace_all s_bar_None [] t)
                 else strip (replace_all s_bar_None2 [] t) in
    if prefixb (s_List ++ s_lb) inner || prefixb (s_list ++ s_lb) inner then
      match fuel with
      | O => None
      | S f => match deser_code_fuel f reg inner d with
               | Some c => Some (c ++ s_if_not_none d)
               | None => None
               end
      end
    else Some (sfd d inner ++ s_if_not_none d)
  else if contains_s s_lb t && contains_s s_rb t then None      (* ValueError: unsupported complex type *)
  else Some (sfd d t).
Definition deser_code (reg : registry) (t d : str) : option str := deser_code_fuel 3 reg t d.

(* ------------------------------------------------------------------ rendered types *)
Inductive prim := PStr | PInt | PFloat | PBool | PBytesT.
Inductive rty :=
| TNone | TAny
| TPrim (p : prim)
| TLib (n : str)                          (* datetime, date, UUID: a name that is in no registry *)
| TClass (n : str)                        (* generated dataclass / enum / union alias *)
| TAliasPrim (n : str) (formatted : bool) (* NAME: TypeAlias = str|int|…   (formatted: = datetime|date|UUID) *)
| TAliasArr (n : str) (item : rty)        (* NAME: TypeAlias = List[item] *)
| TList (t : rty) | TDict (t : rty)
| TOpt (t : rty)
| TUnion (ts : list rty)
| TAsyncIter (t : rty).

Definition show_prim (p : prim) : str :=
  match p with PStr => s_str | PInt => s_int | PFloat => s_float | PBool => s_bool | PBytesT => s_bytes end.
Definition s_AsyncIterator := L[65;115;121;110;99;73;116;101;114;97;116;111;114].
Definition s_dict_str := L[100;105;99;116;91;115;116;114;44;32].        (* "dict[str, " *)
Fixpoint show (t : rty) : str :=
  match t with
  | TNone => s_None | TAny => s_Any
  | TPrim p => show_prim p
  | TLib n | TClass n | TAliasPrim n _ | TAliasArr n _ => n
  | TList t => s_List ++ s_lb ++ show t ++ s_rb
  | TDict t => s_dict_str ++ show t ++ s_rb
  | TOpt t => show t ++ s_bar_None
  | TUnion ts => s_Union ++ s_lb ++ join s_comma_sp (map show ts) ++ s_rb
  | TAsyncIter t => s_AsyncIterator ++ s_lb ++ show t ++ s_rb
  end.

(* does a value of this annotated type differ from the parsed JSON (so that cast() is not enough)? *)
Fixpoint needs_structure (t : rty) : bool :=
  match t with
  | TNone | TAny | TPrim _ => false
  | TLib _ | TClass _ => true
  | TAliasPrim _ f => f
  | TAliasArr _ i => needs_structure i
  | TList t | TDict t | TOpt t | TAsyncIter t => needs_structure t
  | TUnion ts => existsb needs_structure ts
  end.

(* ------------------------------------------------------------------ responses with content *)
(* one entry of `content`: media type string, rendered type of its schema, schema.format == "binary" *)
Record centry := { c_media : str; c_type : rty; c_binfmt : bool }.
Record cresp := { cr_code : code; cr_content : list centry }.
Definition cop := list cresp.

Definition lower_s (s : str) : str := map lower_ascii s.

(* parser.py: STREAM_FORMATS.get(mt.lower()) for any entry, else any schema format == "binary" *)
Definition is_stream (r : cresp) : bool :=
  existsb (fun e => mem_str (lower_s (c_media e)) stream_formats) (cr_content r)
  || existsb c_binfmt (cr_content r).

(* parser.py: stream_format = the format of the LAST content entry found in STREAM_FORMATS *)
Definition stream_format_of (r : cresp) : option str :=
  fold_left (fun acc e => match alookup (lower_s (c_media e)) stream_format_table with Some f => Some f | None => acc end)
            (cr_content r) None.

Definition is_binary_media (m : str) : bool :=
  mem_str m binary_media_exact || starts_any binary_media_prefixes m.

(* _resolve_content_type_to_python_type; the schema object is always present (parser fills a placeholder),
   and every modelled schema has a `type`/`format` attribute *)
Definition ctype_to_python (e : centry) : rty :=
  if is_binary_media (c_media e) then TPrim PBytesT
  else if prefixb p_text (c_media e) then
    (match c_type e with TPrim PStr => if c_binfmt e then TPrim PBytesT else TPrim PStr | _ => TPrim PStr end)
  else c_type e.

(* response_strategy._get_response_schema: application/json, else first containing "json", else first *)
Definition strategy_schema (cs : list centry) : option centry :=
  match find (fun e => str_eqb (c_media e) m_json) cs with
  | Some e => Some e
  | None => match find (fun e => contains_s w_json (c_media e)) cs with
            | Some e => Some e
            | None => hd_error cs
            end
  end.
(* response_handler_generator._get_response_schema: application/json, else first *)
Definition handler_schema (cs : list centry) : option centry :=
  match find (fun e => str_eqb (c_media e) m_json_handler) cs with Some e => Some e | None => hd_error cs end.

Definition rty_eqb_show (a b : rty) : bool := str_eqb (show a) (show b).
Fixpoint dedup_types (ts : list rty) (seen : list rty) : list rty :=     (* `if python_type not in resolved_types` on strings *)
  match ts with
  | [] => []
  | t :: r => if existsb (rty_eqb_show t) seen then dedup_types r seen else t :: dedup_types r (seen ++ [t])
  end.

(* ResponseStrategy: return type, streaming flag, content_type_mapping *)
Record strategy := { st_ret : rty; st_streaming : bool; st_mapping : option (list (str * rty)) }.
Definition mk_plain (t : rty) : strategy := {| st_ret := t; st_streaming := false; st_mapping := None |}.

Definition to_resp (r : cresp) : resp :=
  {| r_code := cr_code r; r_content := match cr_content r with [] => false | _ => true end |}.
Definition cprimary (o : cop) : option cresp :=          (* primary_rs lifted to responses with content *)
  match primary_rs (map to_resp o) with
  | None => None
  | Some p => find (fun r => resp_eqb (to_resp r) p) o
  end.

Definition resolve_streaming (r : cresp) : strategy :=
  let cs := cr_content r in
  if existsb (fun e => is_binary_media (c_media e)) cs then
    {| st_ret := TAsyncIter (TPrim PBytesT); st_streaming := true; st_mapping := None |}
  else if existsb (fun e => contains_s w_event_stream (c_media e)) cs then
    {| st_ret := TAsyncIter (TDict TAny); st_streaming := true; st_mapping := None |}
  else match strategy_schema cs with
       | Some e => {| st_ret := TAsyncIter (c_type e); st_streaming := true; st_mapping := None |}
       | None => {| st_ret := TAsyncIter (TPrim PBytesT); st_streaming := true; st_mapping := None |}
       end.

Definition resolve_multi (r : cresp) : strategy :=
  let mapping := map (fun e => (c_media e, ctype_to_python e)) (cr_content r) in
  match dedup_types (map snd mapping) [] with
  | [] => mk_plain TNone
  | [t] => {| st_ret := t; st_streaming := false; st_mapping := Some mapping |}
  | ts => {| st_ret := TUnion ts; st_streaming := false; st_mapping := Some mapping |}
  end.

Definition resolve (o : cop) : strategy :=
  match cprimary o with
  | None => mk_plain TNone
  | Some r =>
      match cr_content r with
      | [] => mk_plain TNone
      | [e] => if is_stream r then resolve_streaming r else mk_plain (c_type e)
      | _ => if is_stream r then resolve_streaming r else resolve_multi r
      end
  end.

(* ------------------------------------------------------------------ decode paths *)
Inductive path :=
| PNone                       (* return None *)
| PText                       (* return response.text *)
| PContent                    (* return response.content *)
| PCast                       (* return cast(T, response.json()) *)
| PStructure (code : str)     (* return <structure_from_dict(response.json(), …)> — needs the cattrs import *)
| PStreamBytes                (* async for chunk in iter_bytes(response): yield chunk *)
| PStreamSse                  (* async for chunk in iter_sse_events_text(response): yield json.loads(chunk) *)
| PStreamNdjson (typed : bool) (* async for item in iter_ndjson(response): yield item | structure_from_dict(item, T) *)
| PEndIter                    (* bare `return` in an async generator: the iteration yields nothing and ends *)
| PRaiseHTTP                  (* no case for this status: the `case _` raises HTTPError *)
| PGenError.                  (* the generator raises ValueError while rendering *)

Definition s_rj := L[114;101;115;112;111;110;115;101;46;106;115;111;110;40;41].   (* response.json() *)

Definition json_path (reg : registry) (t : rty) : path :=
  if should_use_cattrs reg (show t) then
    match deser_code reg (show t) s_rj with Some c => PStructure c | None => PGenError end
  else PCast.

Definition switch_path (reg : registry) (t : rty) : path :=
  if str_eqb (show t) s_bytes then PContent
  else if str_eqb (show t) s_str then PText
  else json_path reg t.

(* the if/elif/else chain on the lower-cased Content-Type header; the last entry is the `else` *)
Fixpoint switch (reg : registry) (m : list (str * rty)) (ct : str) : path :=
  match m with
  | [] => PGenError                     (* ValueError: content_type_mapping is required *)
  | [(_, t)] => switch_path reg t
  | (k, t) :: rest => if str_eqb ct (lower_s k) then switch_path reg t else switch reg rest ct
  end.

(* _raw_body_accessor(content_types, python_type): text/* -> response.text, binary media -> response.content *)
Definition raw_accessor (cs : list centry) (t : rty) : option path :=
  match cs with
  | [] => None
  | _ => if negb (mem_str (show t) raw_body_types) then None
         else if forallb (fun e => prefixb p_text (c_media e)) cs
              then (if str_eqb (show t) s_bytes then None else Some PText)
         else if forallb (fun e => is_binary_media (c_media e)) cs
              then (if str_eqb (show t) s_str then None else Some PContent)
         else None
  end.
Definition pc_of (o : cop) : list centry := match cprimary o with Some r => cr_content r | None => [] end.

(* _is_ndjson_stream(strategy): the primary response's stream_format is "ndjson" and it has no event-stream content *)
Definition is_ndjson_resp (r : cresp) : bool :=
  opt_eqb str_eqb (stream_format_of r) (Some s_fmt_ndjson)
  && negb (existsb (fun e => contains_s w_event_stream (c_media e)) (cr_content r)).
Definition nd_of (o : cop) : bool := match cprimary o with Some r => is_ndjson_resp r | None => false end.
Definition s_item : str := [105;116;101;109].
(* the three streaming renderings; [nd] = _is_ndjson_stream(strategy) *)
Definition stream_path (reg : registry) (nd : bool) (s : strategy) : path :=
  if contains_s (show (TAsyncIter (TPrim PBytesT))) (show (st_ret s)) then PStreamBytes
  else if nd then
    match st_ret s with
    | TAsyncIter t => if should_use_cattrs reg (show t)
                      then match deser_code reg (show t) s_item with Some _ => PStreamNdjson true | None => PGenError end
                      else PStreamNdjson false
    | _ => PGenError
    end
  else PStreamSse.

(* _write_strategy_based_return *)
Definition strategy_path (reg : registry) (nd : bool) (pc : list centry) (s : strategy) (ct : str) : path :=
  if st_streaming s then stream_path reg nd s
  else match raw_accessor pc (st_ret s) with Some p => p | None =>
  if prefixb (s_Union ++ s_lb) (show (st_ret s)) then
    match st_mapping s with
    | Some m => switch reg m ct
    | None => PGenError     (* try/except union chain: never produced by resolve (it always sets the mapping) *)
    end
  else json_path reg (st_ret s) end.

Definition is_none_ret (s : strategy) : bool := str_eqb (show (st_ret s)) s_None.

(* which branch of the generated match handles status [st], and with which decode path; [ct] is the
   lower-cased, parameter-stripped Content-Type of the answer *)
Definition cprocessed (o : cop) : option (cresp * N) :=
  match processed_primary (map to_resp o) with
  | Some (p, n) => match find (fun r => resp_eqb (to_resp r) p) o with Some r => Some (r, n) | None => None end
  | None => None
  end.

(* a further 2xx response.  In a streaming operation (the method is an async generator) it is consumed with the
   operation's streaming strategy, or ends the iteration with a bare `return` when it has no body; otherwise it is
   resolved individually *)
Definition secondary_path (reg : registry) (nd : bool) (s : strategy) (ct : str) (r : cresp) : path :=
  if st_streaming s then
    match cr_content r with
    | [] => PEndIter
    | _ => stream_path reg nd s
    end
  else
  match handler_schema (cr_content r) with
  | None => PNone
  | Some e => match raw_accessor (cr_content r) (c_type e) with Some p => p | None => json_path reg (c_type e) end
  end.

Definition cothers (o : cop) : cop :=
  match cprocessed o with
  | Some (p, _) => filter (fun r => negb (resp_eqb (to_resp r) (to_resp p))) o
  | None => o
  end.

Definition find_status (st : N) (rs : cop) : option cresp :=
  find (fun r => match cr_code r with Num m => m =? st | _ => false end) rs.
(* a response declared under the range key "2XX": `case _ if 200 <= response.status_code < 300:` after the numeric cases *)
Definition wildcard_resp (o : cop) : option cresp := find (fun r => is_wildcard_2xx (cr_code r)) (cothers o).
(* resp_ir == primary_success_ir *)
Definition is_strategy_resp (o : cop) (r : cresp) : bool :=
  match cprimary o with Some p => resp_eqb (to_resp r) (to_resp p) | None => false end.

Definition handle (reg : registry) (o : cop) (st : N) (ct : str) : path :=
  let s := resolve o in
  let nd := nd_of o in
  let prim_path := if is_none_ret s then PNone else strategy_path reg nd (pc_of o) s ct in
  (* `case _:` — a default response with content returns only under `if 200 <= status < 300:` *)
  let default_branch :=
    if default_returns (map to_resp o) && in_range default_success_lo default_success_hi st then prim_path else PRaiseHTTP in
  let after_primary :=
    match find_status st (cothers o) with
    | Some r => match cr_code r with
                | Num m => if lead2 m then secondary_path reg nd s ct r else PRaiseHTTP
                | _ => PRaiseHTTP
                end
    | None => match wildcard_resp o with
              | Some w => if in_range wildcard_lo wildcard_hi st
                          then (if is_strategy_resp o w then prim_path else secondary_path reg nd s ct w)
                          else default_branch
              | None => default_branch
              end
    end in
  match cprocessed o with
  | Some (_, n) => if n =? st then prim_path else after_primary
  | None => after_primary
  end.

(* structure_from_dict is imported by every branch that renders it: the primary/default strategy branch, the
   entries of a content-type switch, and every secondary 2xx branch (numeric or the "2XX" range) *)
Definition strategy_registers (reg : registry) (nd : bool) (pc : list centry) (s : strategy) : bool :=
  negb (is_none_ret s)
  && if st_streaming s then match stream_path reg nd s with PStreamNdjson true => true | _ => false end
     else match raw_accessor pc (st_ret s) with Some _ => false | None =>
     if prefixb (s_Union ++ s_lb) (show (st_ret s)) then
       match st_mapping s with
       | Some m => existsb (fun kt => negb (str_eqb (show (snd kt)) s_bytes) && negb (str_eqb (show (snd kt)) s_str)
                                      && should_use_cattrs reg (show (snd kt))) m
       | None => false
       end
     else should_use_cattrs reg (show (st_ret s)) end.
Definition emits_strategy (o : cop) : bool :=
  match cprocessed o with Some _ => true | None => false end
  || match wildcard_resp o with Some w => is_strategy_resp o w | None => false end
  || default_returns (map to_resp o).
Definition is_secondary_2xx (o : cop) (r : cresp) : bool :=
  match cr_code r with
  | Num m => lead2 m
  | c => is_wildcard_2xx c && negb (is_strategy_resp o r)
  end.
Definition secondary_registers (reg : registry) (r : cresp) : bool :=
  match handler_schema (cr_content r) with
  | Some e => match raw_accessor (cr_content r) (c_type e) with Some _ => false | None => should_use_cattrs reg (show (c_type e)) end
  | None => false
  end.
Definition registers_cattrs (reg : registry) (o : cop) : bool :=
  (emits_strategy o || st_streaming (resolve o) && existsb (fun r => is_secondary_2xx o r && match cr_content r with [] => false | _ => true end) (cothers o)) && strategy_registers reg (nd_of o) (pc_of o) (resolve o)
  || negb (st_streaming (resolve o)) && existsb (fun r => is_secondary_2xx o r && secondary_registers reg r) (cothers o).
Definition module_has_cattrs (reg : registry) (ops : list cop) : bool := existsb (registers_cattrs reg) ops.

(* ------------------------------------------------------------------ the property, on the decision model *)
Definition json_like (m : str) : bool := negb (is_binary_media m) && negb (prefixb p_text m).
(* what the declared response (status, one of its content entries) calls for, from the property text *)
Inductive want := WNone | WText | WBytes | WStreamBytes | WStreamEvents | WStreamLines | WStreamItems | WJsonTyped (t : rty) | WJsonRaw (t : rty).

Definition ideal (primary : bool) (r : cresp) (e : option centry) : want :=
  match e with
  | None => WNone
  | Some e =>
      if is_stream r && (primary || negb (json_like (c_media e))) then
        (if existsb (fun x => is_binary_media (c_media x)) (cr_content r) || existsb c_binfmt (cr_content r)
         then WStreamBytes
         else if existsb (fun x => contains_s w_event_stream (c_media x)) (cr_content r) then WStreamEvents
         else if is_ndjson_resp r then WStreamLines    (* ndjson: one JSON item per line *)
         else WStreamItems)    (* json-seq / multipart: one item per record *)
      else if is_binary_media (c_media e) then WBytes
      else if prefixb p_text (c_media e) then WText
      else if needs_structure (c_type e) then WJsonTyped (c_type e) else WJsonRaw (c_type e)
  end.

(* does a decode path deliver it?  (PStructure c delivers a typed value only if it structures into the
   declared type itself: c = structure_from_dict(response.json(), <show t>) possibly with the None test) *)
Definition delivers (imported : bool) (p : path) (w : want) : bool :=
  match p, w with
  | PNone, WNone => true
  | PEndIter, WNone => true       (* reading: in a streaming method "returns None" = yields nothing and ends *)
  | PText, WText => true
  | PContent, WBytes => true
  | PStreamBytes, WStreamBytes => true
  | PStreamSse, WStreamEvents => true
  | PStreamNdjson _, WStreamLines => true
  | PCast, WJsonRaw _ => true
  | PStructure c, WJsonTyped t =>
      imported && (str_eqb c (sfd s_rj (show t))
                   || match t with TOpt u => str_eqb c (sfd s_rj (show u) ++ s_if_not_none s_rj) | _ => false end)
  | PStructure c, WJsonRaw t => imported && str_eqb c (sfd s_rj (show t))   (* structuring a JSON-native type is the identity *)
  | _, _ => false
  end.

(* ------------------------------------------------------------------ one "declared 2xx response x content type" *)
(* the quantifier of C05: module (all operations sharing the endpoints module), operation, declared response,
   one of its content entries (None when it has no content) *)
Record dcase := { d_reg : registry; d_module : list cop; d_op : nat; d_resp : nat; d_entry : option nat }.
Definition the_cop (d : dcase) : cop := nth (d_op d) (d_module d) [].
Definition the_resp (d : dcase) : cresp := nth (d_resp d) (the_cop d) {| cr_code := Default; cr_content := [] |}.
Definition the_entry (d : dcase) : option centry :=
  match d_entry d with Some i => nth_error (cr_content (the_resp d)) i | None => None end.
(* the status the server answers with: the declared code; for a range key such as "2XX" the first status of
   200..299 that the operation does not also declare numerically *)
Definition declared_num (o : cop) (n : N) : bool :=
  existsb (fun r => match cr_code r with Num m => m =? n | _ => false end) o.
Definition the_status (d : dcase) : N :=
  match cr_code (the_resp d) with
  | Num n => n
  | _ => match find (fun n => negb (declared_num (the_cop d) n)) (map N.of_nat (seq 200 100)) with
         | Some n => n
         | None => 200
         end
  end.
Definition the_ctype (d : dcase) : str := match the_entry d with Some e => lower_s (c_media e) | None => [] end.

Definition the_path (d : dcase) : path := handle (d_reg d) (the_cop d) (the_status d) (the_ctype d).
Definition the_imported (d : dcase) : bool := module_has_cattrs (d_reg d) (d_module d).

Definition the_annotation (d : dcase) : str := show (st_ret (resolve (the_cop d))).


(* ---- guards, all on the INPUT (operation shape and rendered types) *)
Definition heuristic_ok (reg : registry) (t : rty) : bool :=
  Bool.eqb (should_use_cattrs reg (show t)) (needs_structure t).
Definition is_primary_case (d : dcase) : bool :=        (* the response is handled with the response strategy *)
  match cprocessed (the_cop d) with
  | Some (p, _) => resp_eqb (to_resp p) (to_resp (the_resp d))
  | None => is_wildcard_2xx (cr_code (the_resp d)) && is_strategy_resp (the_cop d) (the_resp d)
  end.
Definition same_entry (a b : centry) : bool := str_eqb (c_media a) (c_media b).
Definition the_want (d : dcase) : want := ideal (is_primary_case d) (the_resp d) (the_entry d).

(* an async generator (a `yield` in the primary/default branch) that also has a `return <value>` branch is a
   SyntaxError: the endpoints module — and the package — cannot be imported *)
Definition emits_yield (o : cop) : bool :=
  let s := resolve o in
  st_streaming s && negb (is_none_ret s)
  && emits_strategy o.
Definition emits_value_return (o : cop) : bool :=
  negb (st_streaming (resolve o)) && existsb (is_secondary_2xx o) (cothers o).
Definition module_syntax_ok (ops : list cop) : bool :=
  forallb (fun o => negb (emits_yield o && emits_value_return o)) ops.

(* the method's single return annotation (the primary response's type) covers this response's type *)
Definition covers (ann t : rty) : bool :=
  str_eqb (show ann) (show t)
  || match ann with TAny => true | TUnion ts => existsb (fun a => str_eqb (show a) (show t)) ts | _ => false end.

Definition C05_holds (d : dcase) : bool :=
  module_syntax_ok (d_module d) && delivers (the_imported d) (the_path d) (the_want d)
  && match the_want d with
     | WJsonTyped t | WJsonRaw t => covers (st_ret (resolve (the_cop d))) t
     | _ => true
     end.

(* F05b: the string heuristic and the annotated type disagree on whether the JSON must be structured — or, when it
   structures, the rendered call does not target the declared type itself *)
Definition deser_direct (reg : registry) (t : rty) : bool :=
  match deser_code reg (show t) s_rj with
  | Some c => str_eqb c (sfd s_rj (show t))
              || match t with TOpt u => str_eqb c (sfd s_rj (show u) ++ s_if_not_none s_rj) | _ => false end
  | None => false
  end.
Definition guard_F05b (d : dcase) : bool :=
  match the_entry d with
  | Some e => if negb (is_stream (the_resp d)) && json_like (c_media e)
              then heuristic_ok (d_reg d) (c_type e) && implb (needs_structure (c_type e)) (deser_direct (d_reg d) (c_type e))
              else true
  | None => true
  end.
(* F05c: a non-JSON body that the handler nevertheless feeds to response.json() (single text/binary content;
   any secondary 2xx; multi-content collapsing to one Python type), or a JSON string/bytes served as text *)
Definition guard_F05c (d : dcase) : bool :=
  let r := the_resp d in
  match the_entry d with
  | None => true
  | Some e =>
      if negb (is_primary_case d) && st_streaming (resolve (the_cop d)) then
        (* consumed with the PRIMARY's streaming strategy whatever its own content type is *)
        delivers true (the_path d) (the_want d)
      else
      if is_stream r then is_primary_case d else
      let single := match cr_content r with [_] => true | _ => false end in
      let collapsed := match dedup_types (map ctype_to_python (cr_content r)) [] with [_] => true | _ => false end in
      let picked_other := negb (is_primary_case d) &&
                          match handler_schema (cr_content r) with Some h => negb (same_entry h e) | None => false end in
      if json_like (c_media e) then
        negb picked_other
        && (single || collapsed || negb (is_primary_case d)
            || negb (mem_str (show (ctype_to_python e)) [s_str; s_bytes]))
      else
        let raw := if is_primary_case d then raw_accessor (cr_content r) (st_ret (resolve (the_cop d)))
                   else match handler_schema (cr_content r) with
                        | Some h => raw_accessor (cr_content r) (c_type h) | None => None end in
        match raw with
        | Some PText => prefixb p_text (c_media e)           (* rendered `return response.text` *)
        | Some PContent => is_binary_media (c_media e)       (* rendered `return response.content` *)
        | _ => is_primary_case d && negb (single || collapsed)   (* otherwise only a Content-Type switch delivers text/bytes *)
        end
  end.
(* F05f: record streams that are not read by a record parser: json-seq / multipart (SSE parser), or an ndjson stream
   for which the ndjson rendering is not reached (e.g. the primary's items are bytes) *)
Definition guard_F05f (d : dcase) : bool :=
  match the_want d with
  | WStreamItems => false
  | WStreamLines => match stream_path (d_reg d) (nd_of (the_cop d)) (resolve (the_cop d)) with PStreamNdjson _ => true | _ => false end
  | _ => true
  end.
(* F05i: a JSON response whose type the single return annotation does not cover (secondary 2xx of another type) *)
Definition guard_F05i (d : dcase) : bool :=
  match the_entry d with
  | Some e => if json_like (c_media e) && negb (is_stream (the_resp d))
              then covers (st_ret (resolve (the_cop d))) (c_type e) else true
  | None => true
  end.

Definition c05_guard (d : dcase) : bool :=
  guard_F05b d && guard_F05c d && guard_F05f d && guard_F05i d.

(* ------------------------------------------------------------------ well-formed cases (executable) *)
(* what a declared-2xx-response x content-entry case must satisfy to be an input of the property at all:
   indices in range, response keys unique (they are keys of a JSON/YAML mapping), the response is a declared
   2xx (numeric key starting with "2", or the one "2XX" range key with a free 2xx status to answer with), the entry
   index matches the content, media types unique up to case, and per entry: the rendered type is not "None" and
   does not start with "Union[", and `format: binary` is only used under a binary media type. *)
Fixpoint distinct_codes (l : list code) : bool :=
  match l with [] => true | c :: r => negb (existsb (code_eqb c) r) && distinct_codes r end.
Fixpoint distinct_strs_b (l : list str) : bool :=
  match l with [] => true | x :: r => negb (mem_str x r) && distinct_strs_b r end.
Definition entry_type_ok (e : centry) : bool :=
  negb (str_eqb (show (ctype_to_python e)) s_None) && negb (prefixb (s_Union ++ s_lb) (show (ctype_to_python e)))
  && negb (str_eqb (show (c_type e)) s_None) && negb (prefixb (s_Union ++ s_lb) (show (c_type e)))
  && implb (c_binfmt e) (is_binary_media (c_media e)).
Definition wf_dcase (d : dcase) : bool :=
  let o := the_cop d in let r := the_resp d in
  Nat.ltb (d_op d) (length (d_module d)) && Nat.ltb (d_resp d) (length o)
  && distinct_codes (map cr_code o)
  && match cr_code r with
     | Num n => lead2 n
     | c => is_wildcard_2xx c
            && forallb (fun x => implb (is_wildcard_2xx (cr_code x)) (code_eqb (cr_code x) c)) o
            && negb (declared_num o (the_status d)) && in_range wildcard_lo wildcard_hi (the_status d)
     end
  && match d_entry d with
     | Some i => Nat.ltb i (length (cr_content r))
     | None => match cr_content r with [] => true | _ => false end
     end
  && distinct_strs_b (map (fun e => lower_s (c_media e)) (cr_content r))
  && forallb entry_type_ok (cr_content r).

