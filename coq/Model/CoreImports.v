(* C12 — generated clients are self-contained.
   Model of: the import allow-list ("stdlib, httpx, cattrs, the package itself, its core"), CPython's
   resolution of relative imports (importlib._bootstrap._resolve_name), the two relative-path
   computations of the generator (context/render_context.py calculate_relative_path_for_internal_module,
   context/import_collector.py make_relative_import), the classification of import-registration
   sites, and the verbatim copy of the runtime files (emitters/core_emitter.py).
   No proofs in this file.  The finite tables live in Gen/T_C12.v (regenerated from /repo each run). *)
From PG Require Import Lib.Strs.
From Coq Require Import Arith.PeanoNat.

(* A dotted module path as its components: "a.b.c" = [a; b; c].  Well-formed components are
   non-empty and contain no '.', which is what makes str.split(".") / ".".join inverse of each other;
   the harness only ever produces such components (wf_parts below is the executable statement). *)
Definition modpath := list str.

Definition dot : N := 46.
Definition wf_part (s : str) : bool := negb (str_eqb s []) && forallb (fun c => negb (c =? dot)) s.
Definition wf_parts (m : modpath) : bool := forallb wf_part m.

(* An import statement as CPython sees it: `from <level dots><parts> import …` / `import <parts>` (level 0) *)
Record imp := mkImp { i_level : nat; i_parts : modpath }.

Fixpoint prefix_parts (p m : modpath) : bool :=
  match p, m with
  | [], _ => true
  | x :: p', y :: m' => str_eqb x y && prefix_parts p' m'
  | _ :: _, [] => false
  end.

Definition modpath_eqb : modpath -> modpath -> bool := list_eqb str_eqb.

(* m is the package p itself or a module below it *)
Definition under (p m : modpath) : bool :=
  match p with [] => false | _ => prefix_parts p m end.

Definition s_httpx : str := [104;116;116;112;120].
Definition s_cattrs : str := [99;97;116;116;114;115].
Definition s_pyopenapi_gen : str := [112;121;111;112;101;110;97;112;105;95;103;101;110].

(* ---------------------------------------------------------------- the allow-list (property text) *)
Section Allowed.
  Variable stdlib : list str.   (* sys.stdlib_module_names, from Gen/T_C12.v *)

  Definition top_ok (m : modpath) : bool :=
    match m with
    | [] => false
    | t :: _ => mem_str t stdlib || str_eqb t s_httpx || str_eqb t s_cattrs
    end.

  (* absolute module path allowed in a client whose package is pkg and whose core package is core *)
  Definition abs_allowed (pkg core m : modpath) : bool :=
    top_ok m || under pkg m || under core m.

  (* DESIGN: allowed pkg core m := stdlib m \/ top m in {httpx, cattrs} \/ under pkg m \/ under core m \/ relative m *)
  Definition allowed (pkg core : modpath) (i : imp) : bool :=
    match i_level i with
    | O => abs_allowed pkg core (i_parts i)
    | S _ => true
    end.
End Allowed.

(* ---------------------------------------------------------------- CPython: relative import resolution
   importlib._bootstrap._resolve_name(name, package, level):
       bits = package.rsplit('.', level - 1)
       if len(bits) < level: raise ImportError('attempted relative import beyond top-level package')
       base = bits[0]; return f'{base}.{name}' if name else base
   `package` is __package__ of the importing module: the module's own path for a package (__init__.py),
   the parent path for a plain module.  An empty package means "no known parent package" (ImportError). *)
Definition resolve_name (package : modpath) (level : nat) (name : modpath) : option modpath :=
  match level with
  | O => Some name
  | S k => if (length package <? level)%nat then None
           else Some (firstn (length package - k) package ++ name)
  end.

Definition package_of (cur : modpath) (is_pkg : bool) : modpath :=
  if is_pkg then cur else removelast cur.

Definition resolve_relative (cur : modpath) (is_pkg : bool) (i : imp) : option modpath :=
  resolve_name (package_of cur is_pkg) (i_level i) (i_parts i).

(* stronger, position-aware allow-list: a relative import must resolve to the package or its core *)
Definition allowed_at (stdlib : list str) (pkg core cur : modpath) (is_pkg : bool) (i : imp) : bool :=
  match i_level i with
  | O => abs_allowed stdlib pkg core (i_parts i)
  | S _ => match resolve_relative cur is_pkg i with
           | Some m => under pkg m || under core m
           | None => false
           end
  end.

(* ---------------------------------------------------------------- the generator's relative-path computations *)
Fixpoint common_prefix_len (a b : modpath) : nat :=
  match a, b with
  | x :: a', y :: b' => if str_eqb x y then S (common_prefix_len a' b') else O
  | _, _ => O
  end.

(* context/render_context.py RenderContext.calculate_relative_path_for_internal_module.
   cur_file : path of the file being rendered below the package root, last component = file stem
              ("__init__" for a package's __init__.py), e.g. [endpoints; users];
   tgt      : target module path below the package root (the argument, split on ".");
   tdir     : os.path.isdir(<root>/<tgt>)  (target is a package directory).
   os.path.relpath(target, start=dirname(current_file)) = (".." × up) ++ remaining, "." when both are empty;
   the loop counts the leading ".." (level) and keeps the remaining segments; result = "." × (level+1) ++ segments.
   None = "is the current file itself" (self import). *)
Definition calc_relative (cur_file tgt : modpath) (tdir : bool) : option imp :=
  if negb tdir && modpath_eqb cur_file tgt then None
  else
    let cur_dir := removelast cur_file in
    (* a target that is a module is the FILE <tgt>.py: its last component can never coincide with a directory
       on the way to the current file, only its parent directories can *)
    let L := common_prefix_len cur_dir (if tdir then tgt else removelast tgt) in
    Some (mkImp (S (length cur_dir - L)) (skipn L tgt)).

(* context/import_collector.py make_relative_import(current_module_dot_path, target_module_dot_path):
   works on dotted names only (a package's __init__ has the package's own dotted name). *)
Definition make_relative_import (cur tgt : modpath) : imp :=
  let cur_dir := removelast cur in
  let L := common_prefix_len cur_dir tgt in
  let up := (length cur_dir - L)%nat in
  let remaining := skipn L tgt in
  match up with
  | O =>
      (* is_direct_package_import: len(current_parts) < len(target_parts) and target.startswith(current + ".") *)
      if (length cur <? length tgt)%nat && prefix_parts cur tgt
      then mkImp 1 (skipn (length cur) tgt)
      else mkImp 1 remaining
  | S _ => mkImp (S up) remaining
  end.

(* rendering of an imp as the text after `from` : dots then dotted name *)
Fixpoint dots (n : nat) : str := match n with O => [] | S k => dot :: dots k end.
Definition render_imp (i : imp) : str := dots (i_level i) ++ join [dot] (i_parts i).

(* ---------------------------------------------------------------- tables' row types *)
(* one import statement of a shipped runtime file: position of the file below the core package,
   level, module parts, location (0 top level, 1 nested in def/class/try/if, 2 under TYPE_CHECKING) *)
Record rt_import := mkRI { ri_file : modpath; ri_level : nat; ri_parts : modpath; ri_loc : N }.

Inductive modarg :=
| Lit (level : nat) (parts : modpath)      (* string literal *)
| CorePrefixed (suffix : modpath)           (* f"{core_package_name}.<suffix>" *)
| PkgPrefixed                               (* f"{output package name}.<anything>" *)
| InternalRelative                          (* literal leading dot, computed rest *)
| ViaRelativePath                           (* result of calculate_relative_path_for_internal_module *)
| Forwarded                                 (* parameter of an API function: its callers are the sites *)
| Delegated                                 (* add_typing_imports_for_type: modules chosen by the sites in that function *)
| Rendered                                  (* the statement printers of ImportCollector / render_imports *)
| InDocstring                               (* template line that lands inside a docstring of the emitted file *)
| Computed (audited : bool)
| Unreachable.                              (* the call sits in a module outside the static import closure of the generator's entry points *)

Record site := mkSite { s_file : str; s_line : N; s_arg : modarg }.
Definition mkTpl := mkSite.

(* What a site can contribute, for a given package / core package and an arbitrary computed tail.
   None = the site contributes no module of its own (forwarding / rendering / audited). *)
Definition instantiate (a : modarg) (pkg core tail : modpath) (k : nat) : option imp :=
  match a with
  | Lit l p => Some (mkImp l p)
  | CorePrefixed sfx => Some (mkImp 0 (core ++ sfx))
  | PkgPrefixed => Some (mkImp 0 (pkg ++ tail))
  | InternalRelative => Some (mkImp (S k) tail)
  | _ => None
  end.

(* RenderContext.add_import / add_conditional_import first "repair incomplete paths": with output package
   "pyapis.business", a logical module that starts with "business." gets "pyapis." prepended.  On components:
   the package's tail (all but its first component) is a proper prefix of the module. *)
Definition repairs0 (pkg m : modpath) : bool :=
  match tl pkg with
  | [] => false
  | sfx => prefix_parts sfx m && (length sfx <? length m)%nat
  end.
(* _is_incomplete_internal_path: paths that are already complete are left alone — modules of the output package
   itself ("dup.dup.models.x"), of the core package ("business.core.x") and of the standard library ("collections.abc") *)
Definition repairs (stdlib : list str) (pkg core m : modpath) : bool :=
  repairs0 pkg m
  && negb (prefix_parts pkg m && (length pkg <? length m)%nat)
  && negb (under core m)
  && negb (match m with t :: _ => mem_str t stdlib | [] => false end).
Definition repair (stdlib : list str) (pkg core m : modpath) : modpath :=
  if repairs stdlib pkg core m then match pkg with x :: _ => x :: m | [] => m end else m.
(* what ends up registered for an import requested through the API *)
Definition registered (stdlib : list str) (pkg core : modpath) (i : imp) : imp :=
  match i_level i with
  | O => mkImp O (repair stdlib pkg core (i_parts i))
  | S _ => i
  end.

(* sites that cannot be discharged: unaudited computed module expressions *)
Definition classified (a : modarg) : bool :=
  match a with Computed false => false | _ => true end.

(* package-independent part of the check of one site *)
Definition static_ok (stdlib : list str) (a : modarg) : bool :=
  match a with
  | Lit O p => top_ok stdlib p
  | Lit (S _) _ => true
  | Computed false => false
  | _ => true
  end.

Definition site_allowed (stdlib : list str) (pkg core tail : modpath) (k : nat) (s : site) : bool :=
  classified (s_arg s) &&
  match instantiate (s_arg s) pkg core tail k with
  | Some i => allowed stdlib pkg core i && allowed stdlib pkg core (registered stdlib pkg core i)
  | None => true
  end.

(* ---------------------------------------------------------------- runtime files *)
(* modules that exist in every emitted core package besides the copied runtime files
   (core_emitter: __init__.py, auth/__init__.py, config.py; exceptions_emitter: exception_aliases.py) *)
Definition s_config : str := [99;111;110;102;105;103].
Definition s_exception_aliases : str := [101;120;99;101;112;116;105;111;110;95;97;108;105;97;115;101;115].
Definition s_auth : str := [97;117;116;104].
Definition generated_core_modules : list modpath := [[]; [s_auth]; [s_config]; [s_exception_aliases]].

Definition mem_path (m : modpath) (l : list modpath) : bool := existsb (modpath_eqb m) l.

(* resolution of a relative import of a file that sits in directory [dir] below the core package root,
   expressed below that root; None = the import climbs out of the core package *)
Definition resolve_within (dir : modpath) (level : nat) (parts : modpath) : option modpath :=
  match level with
  | O => None
  | S k => if (k <=? length dir)%nat then Some (firstn (length dir - k) dir ++ parts) else None
  end.

(* a runtime file may import: stdlib / httpx / cattrs absolutely; relatively only modules of the core package *)
Definition allowed_runtime (stdlib : list str) (core_modules : list modpath) (r : rt_import) : bool :=
  match ri_level r with
  | O => top_ok stdlib (ri_parts r)
  | S _ => match resolve_within (removelast (ri_file r)) (ri_level r) (ri_parts r) with
           | Some m => mem_path m core_modules
           | None => false
           end
  end.

(* F12a: core/utils.py (copied into every client) contains, inside Formatter.__init__ under try/except
   ImportError, `from black import FileMode, format_str` — a third-party module outside the allow-list.
   The guard excludes exactly that statement (file utils, absolute module black, nested location). *)
Definition s_utils : str := [117;116;105;108;115].
Definition s_black : str := [98;108;97;99;107].
Definition guard_F12a (r : rt_import) : bool :=
  negb (modpath_eqb (ri_file r) [s_utils] && Nat.eqb (ri_level r) 0
        && modpath_eqb (ri_parts r) [s_black] && (ri_loc r =? 1)).

(* emit_core: destination below the core directory -> bytes read from the shipped file *)
Definition emit_core {B} (files : list (list str * str * modpath)) (src : list str * str -> B)
  : list (modpath * B) :=
  map (fun f => match f with (m, stem, dst) => (dst, src (m, stem)) end) files.

Fixpoint lookup_path {B} (k : modpath) (l : list (modpath * B)) : option B :=
  match l with
  | [] => None
  | (k', v) :: r => if modpath_eqb k k' then Some v else lookup_path k r
  end.

Fixpoint nodup_paths (l : list modpath) : bool :=
  match l with
  | [] => true
  | x :: r => negb (mem_path x r) && nodup_paths r
  end.
