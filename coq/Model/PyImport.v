(* C01 — a tiny semantics of what happens when a generated package is imported by CPython.
   A package is a list of module skeletons ([pymod]); the harness extracts them from the emitted files
   with `ast` (harness/prop_C01.py).  [exec_pkg] follows CPython: sys.modules with partially initialised
   modules, parents imported before children, `from X import a` fails when `a` is not (yet) bound in X and
   X.a is not a submodule, annotated assignments bind the value BEFORE the annotation is evaluated, `|` on
   a string and None is a TypeError, `__all__` names must be bound.
   [pkg_ok] is an executable SUFFICIENT condition for "every module imports from a fresh interpreter".
   No proofs in this file. *)
From PG Require Import Lib.Strs Model.CoreImports.
From Coq Require Import Arith.PeanoNat.

(* ---------------------------------------------------------------- values, as far as import-time evaluation cares *)
Inductive kind := KClass | KTyping | KNone | KStr | KOther | KModule.

Definition kind_eqb (a b : kind) : bool :=
  match a, b with
  | KClass, KClass | KTyping, KTyping | KNone, KNone | KStr, KStr | KOther, KOther | KModule, KModule => true
  | _, _ => false
  end.

(* expressions evaluated at import time (annotations, defaults, decorators, bases, right-hand sides) *)
Inductive expr :=
| AName (n : str)
| AStr (s : str)                    (* a string literal, e.g. a quoted forward reference *)
| ANone
| AConst                            (* any other constant *)
| ASub (g : expr) (args : list expr)  (* g[args] *)
| AOr (a b : expr)                  (* a | b *)
| AOther (children : list expr).    (* call / attribute / tuple / …: evaluates the children, yields an opaque value *)

Inductive err := EImport | ENotFound | EName | EType | ESyntax | EExport | EFuel | EValue.
Inductive res (A : Type) := Ok (a : A) | Fail (e : err).
Arguments Ok {A} a. Arguments Fail {A} e.

Definition err_code (e : err) : N :=
  match e with EImport => 1 | ENotFound => 2 | EName => 3 | EType => 4 | ESyntax => 5 | EExport => 6 | EFuel => 7 | EValue => 8 end.

Definition env := list (str * kind).   (* latest binding first *)

(* a | b  (Python 3.10+): type.__or__/__ror__ accept classes, None, generic aliases; typing's special forms
   also accept strings (forward references); a bare string or None|None is a TypeError *)
Definition or_kind (a b : kind) : res kind :=
  match a, b with
  | KOther, _ | _, KOther => Ok KOther
  | KModule, _ | _, KModule => Fail EType
  | KNone, KNone => Fail EType
  | KStr, KTyping | KTyping, KStr => Ok KTyping
  | KStr, _ | _, KStr => Fail EType
  | KTyping, _ | _, KTyping => Ok KTyping
  | _, _ => Ok KClass
  end.

Definition sub_kind (g : kind) : res kind :=
  match g with
  | KTyping => Ok KTyping
  | KClass => Ok KClass      (* list[int], dict[str, Any], Generic[T] *)
  | KOther => Ok KOther
  | KNone | KStr | KModule => Fail EType
  end.

Section Eval.
  Variable lookup : str -> option kind.

  Fixpoint eval (e : expr) : res kind :=
    match e with
    | AName n => match lookup n with Some k => Ok k | None => Fail EName end
    | AStr _ => Ok KStr
    | ANone => Ok KNone
    | AConst => Ok KOther
    | ASub g args =>
        match eval g with
        | Fail e => Fail e
        | Ok kg =>
            (fix all (l : list expr) : res kind :=
               match l with
               | [] => sub_kind kg
               | x :: r => match eval x with Ok _ => all r | Fail e => Fail e end
               end) args
        end
    | AOr a b =>
        match eval a with
        | Fail e => Fail e
        | Ok ka => match eval b with Fail e => Fail e | Ok kb => or_kind ka kb end
        end
    | AOther children =>
        (fix all (l : list expr) : res kind :=
           match l with
           | [] => Ok KOther
           | x :: r => match eval x with Ok _ => all r | Fail e => Fail e end
           end) children
    end.

  Fixpoint eval_all (l : list expr) : res unit :=
    match l with
    | [] => Ok tt
    | x :: r => match eval x with Ok _ => eval_all r | Fail e => Fail e end
    end.
End Eval.

(* ---------------------------------------------------------------- skeleton of a module *)
Inductive citem :=
| CField (name : str) (annot : expr) (default : option expr)   (* name: annot [= default] *)
| CDef (name : str) (sig : list expr)                          (* def / nested class: decorators, defaults, annotations *)
| CAssign (name : str) (value : expr)
| CEval (e : expr).

Inductive stmt :=
| FromImport (target : modpath) (names : list (str * str))   (* absolute target; (name, bound as) *)
| ImportStar (target : modpath)
| ImportMod (target : modpath) (bind : str)                  (* import a.b.c  /  import a.b.c as x *)
| Def (name : str) (sig : list expr)
| ClassDef (name : str) (heads : list expr) (body : list citem)   (* heads: decorators, bases, keywords *)
| Alias (name : str) (value : expr) (annot : option expr)    (* NAME = value  /  NAME: annot = value *)
| Eval (e : expr)
| AllDecl (names : list str)
| Broken.                                                    (* the file does not compile *)

Record pymod := mkMod { path : modpath; body : list stmt }.
Definition package := list pymod.

Fixpoint find_mod (pkg : package) (p : modpath) : option pymod :=
  match pkg with
  | [] => None
  | m :: r => if modpath_eqb (path m) p then Some m else find_mod r p
  end.

Definition has_mod (pkg : package) (p : modpath) : bool :=
  match find_mod pkg p with Some _ => true | None => false end.

(* a module path is "internal" when its top-level name is the top-level name of some emitted module:
   such a module must exist among the emitted files, anything else (stdlib, httpx, cattrs) is assumed importable *)
Definition internal (pkg : package) (p : modpath) : bool :=
  match p with
  | [] => false
  | t :: _ => existsb (fun m => match path m with t' :: _ => str_eqb t t' | [] => false end) pkg
  end.

(* ---------------------------------------------------------------- sys.modules *)
Record mstate := mkMS { ms_path : modpath; ms_done : bool; ms_globals : env; ms_all : option (list str) }.
Definition sysmods := list mstate.

Fixpoint find_sys (st : sysmods) (p : modpath) : option mstate :=
  match st with
  | [] => None
  | m :: r => if modpath_eqb (ms_path m) p then Some m else find_sys r p
  end.

Definition in_sys (st : sysmods) (p : modpath) : bool :=
  match find_sys st p with Some _ => true | None => false end.

Fixpoint update_sys (st : sysmods) (p : modpath) (f : mstate -> mstate) : sysmods :=
  match st with
  | [] => []
  | m :: r => if modpath_eqb (ms_path m) p then f m :: r else m :: update_sys r p f
  end.

Definition bind (st : sysmods) (p : modpath) (n : str) (k : kind) : sysmods :=
  update_sys st p (fun m => mkMS (ms_path m) (ms_done m) ((n, k) :: ms_globals m) (ms_all m)).

Definition globals_of (st : sysmods) (p : modpath) : env :=
  match find_sys st p with Some m => ms_globals m | None => [] end.

(* nonempty proper prefixes of p, shortest first *)
Fixpoint prefixes_from (acc p : modpath) : list modpath :=
  match p with
  | [] => []
  | [x] => []
  | x :: r => (acc ++ [x]) :: prefixes_from (acc ++ [x]) r
  end.
Definition proper_prefixes (p : modpath) : list modpath := prefixes_from [] p.

Definition s_typing : str := [116;121;112;105;110;103].
Definition s_typing_extensions : str := [116;121;112;105;110;103;95;101;120;116;101;110;115;105;111;110;115].
Definition ext_kind (target : modpath) : kind :=
  match target with
  | t :: _ => if str_eqb t s_typing || str_eqb t s_typing_extensions then KTyping else KClass
  | [] => KClass
  end.

Definition underscore : N := 95.
Definition is_public (n : str) : bool := match n with c :: _ => negb (c =? underscore) | [] => false end.

Fixpoint dedup (l : list str) : list str :=
  match l with
  | [] => []
  | x :: r => if mem_str x r then dedup r else x :: dedup r
  end.

Section Exec.
  Variable builtins : list str.    (* dir(builtins), from Gen/T_C01.v *)
  Variable pkg : package.

  Definition lookup_in (locals globals : env) (n : str) : option kind :=
    match alookup n locals with
    | Some k => Some k
    | None => match alookup n globals with
              | Some k => Some k
              | None => if mem_str n builtins then Some KClass else None
              end
    end.

  (* class body: its own namespace first, then the module's globals, then builtins *)
  Fixpoint exec_class_body (globals locals : env) (items : list citem) : res env :=
    match items with
    | [] => Ok locals
    | it :: r =>
        let ev := eval (lookup_in locals globals) in
        match it with
        | CField n a None =>
            match ev a with Ok _ => exec_class_body globals locals r | Fail e => Fail e end
        | CField n a (Some d) =>
            match ev d with
            | Fail e => Fail e
            | Ok kd =>
                let locals' := (n, kd) :: locals in          (* the name is bound first … *)
                match eval (lookup_in locals' globals) a with  (* … then the annotation is evaluated *)
                | Ok _ => exec_class_body globals locals' r
                | Fail e => Fail e
                end
            end
        | CDef n sig =>
            match eval_all (lookup_in locals globals) sig with
            | Ok _ => exec_class_body globals ((n, KOther) :: locals) r
            | Fail e => Fail e
            end
        | CAssign n v =>
            match ev v with Ok k => exec_class_body globals ((n, k) :: locals) r | Fail e => Fail e end
        | CEval e0 =>
            match ev e0 with Ok _ => exec_class_body globals locals r | Fail e => Fail e end
        end
    end.

  (* ---- the pure part of a statement: its effect on the current module's namespace, given a view of the
          other modules (what sys.modules holds after the statement's imports have been performed) *)
  Definition view := modpath -> option mstate.

  Fixpoint bind_names (vw : view) (target : modpath) (g : env) (names : list (str * str)) : res env :=
    match names with
    | [] => Ok g
    | (n, asn) :: r =>
        match vw target with
        | None => bind_names vw target ((asn, ext_kind target) :: g) r           (* external module *)
        | Some T =>
            match alookup n (ms_globals T) with
            | Some k => bind_names vw target ((asn, k) :: g) r
            | None => if has_mod pkg (target ++ [n])
                      then bind_names vw target ((asn, KModule) :: g) r         (* submodule *)
                      else Fail EImport     (* cannot import name n from (partially initialised) module *)
            end
        end
    end.

  Fixpoint bind_star (T : mstate) (g : env) (names : list str) : res env :=
    match names with
    | [] => Ok g
    | n :: r => match alookup n (ms_globals T) with
                | Some k => bind_star T ((n, k) :: g) r
                | None => Fail EExport
                end
    end.

  Definition star_names (T : mstate) : list str :=
    match ms_all T with
    | Some l => l
    | None => dedup (filter is_public (map fst (ms_globals T)))
    end.

  (* enum.Enum rejects member names of the form _x_ ("_sunder_ names are reserved"): ValueError at class creation *)
  Definition s_Enum : str := [69;110;117;109].
  Definition s_IntEnum : str := [73;110;116;69;110;117;109].
  Definition is_enum_class (heads : list expr) : bool :=
    existsb (fun h => match h with AName n => str_eqb n s_Enum || str_eqb n s_IntEnum | _ => false end) heads.
  Definition is_sunder (n : str) : bool :=
    match n, rev n with
    | a :: b :: _ :: _, y :: x :: _ => (a =? underscore) && negb (b =? underscore) && (y =? underscore) && negb (x =? underscore)
    | _, _ => false
    end.
  Definition sunder_member (items : list citem) : bool :=
    existsb (fun it => match it with CAssign n _ => is_sunder n | _ => false end) items.

  Definition pure_step (vw : view) (ga : env * option (list str)) (s : stmt) : res (env * option (list str)) :=
    let g := fst ga in
    let al := snd ga in
    let ev := eval (lookup_in [] g) in
    match s with
    | FromImport target names =>
        match bind_names vw target g names with Ok g' => Ok (g', al) | Fail e => Fail e end
    | ImportStar target =>
        match vw target with
        | None => Ok ga
        | Some T => match bind_star T g (star_names T) with Ok g' => Ok (g', al) | Fail e => Fail e end
        end
    | ImportMod _ b => Ok ((b, KModule) :: g, al)
    | Def n sig =>
        match eval_all (lookup_in [] g) sig with Ok _ => Ok ((n, KOther) :: g, al) | Fail e => Fail e end
    | ClassDef n heads items =>
        match eval_all (lookup_in [] g) heads with
        | Fail e => Fail e
        | Ok _ => match exec_class_body g [] items with
                  | Ok _ => if is_enum_class heads && sunder_member items then Fail EValue
                            else Ok ((n, KClass) :: g, al)
                  | Fail e => Fail e
                  end
        end
    | Alias n v a =>
        match ev v with
        | Fail e => Fail e
        | Ok k =>
            let g' := (n, k) :: g in               (* bound first, annotation evaluated afterwards *)
            match a with
            | None => Ok (g', al)
            | Some a0 => match eval (lookup_in [] g') a0 with Ok _ => Ok (g', al) | Fail e => Fail e end
            end
        end
    | Eval e0 => match ev e0 with Ok _ => Ok ga | Fail e => Fail e end
    | AllDecl names => Ok (g, Some names)
    | Broken => Fail ESyntax
    end.

  (* modules a statement imports: first the target, then (for `from T import n` with n not an attribute of T)
     the submodules T.n *)
  Definition stmt_target (s : stmt) : option modpath :=
    match s with
    | FromImport t _ | ImportStar t | ImportMod t _ => Some t
    | _ => None
    end.

  Definition submodule_loads (vw : view) (s : stmt) : list modpath :=
    match s with
    | FromImport t names =>
        match vw t with
        | None => []
        | Some T =>
            map (fun na => t ++ [fst na])
                (filter (fun na => match alookup (fst na) (ms_globals T) with
                                   | Some _ => false
                                   | None => has_mod pkg (t ++ [fst na])
                                   end) names)
        end
    | _ => []
    end.

  Definition set_entry (st : sysmods) (p : modpath) (ga : env * option (list str)) : sysmods :=
    update_sys st p (fun m => mkMS (ms_path m) (ms_done m) (fst ga) (snd ga)).

  Definition entry_of (st : sysmods) (p : modpath) : env * option (list str) :=
    match find_sys st p with Some m => (ms_globals m, ms_all m) | None => ([], None) end.

  Section Step.
    (* [loader st p] makes sure module p is in sys.modules (executing it when it is not there yet) *)
    Variable loader : sysmods -> modpath -> res sysmods.

    (* import machinery: parents first (namespace directories without __init__ are skipped), then the module *)
    Fixpoint load_list (st : sysmods) (l : list modpath) : res sysmods :=
      match l with
      | [] => Ok st
      | q :: r => if has_mod pkg q
                  then match loader st q with Ok st' => load_list st' r | Fail e => Fail e end
                  else load_list st r
      end.

    Definition load_chain (st : sysmods) (p : modpath) : res sysmods :=
      match load_list st (proper_prefixes p) with
      | Fail e => Fail e
      | Ok st' => loader st' p
      end.

    Fixpoint load_chains (st : sysmods) (l : list modpath) : res sysmods :=
      match l with
      | [] => Ok st
      | p :: r => match load_chain st p with Ok st' => load_chains st' r | Fail e => Fail e end
      end.

    Definition step (cur : modpath) (st : sysmods) (s : stmt) : res sysmods :=
      match (match stmt_target s with Some t => load_chain st t | None => Ok st end) with
      | Fail e => Fail e
      | Ok st1 =>
          match load_chains st1 (submodule_loads (find_sys st1) s) with
          | Fail e => Fail e
          | Ok st2 =>
              match pure_step (find_sys st2) (entry_of st2 cur) s with
              | Ok ga => Ok (set_entry st2 cur ga)
              | Fail e => Fail e
              end
          end
      end.

    Fixpoint run_body (cur : modpath) (st : sysmods) (l : list stmt) : res sysmods :=
      match l with
      | [] => Ok st
      | s :: r => match step cur st s with Ok st' => run_body cur st' r | Fail e => Fail e end
      end.
  End Step.

  (* after the body: every name of __all__ is bound (the property's "every exported name resolves") *)
  Definition exports_ok (g : env) (al : option (list str)) : bool :=
    match al with
    | None => true
    | Some l => forallb (fun n => match alookup n g with Some _ => true | None => false end) l
    end.

  Fixpoint load (fuel : nat) (st : sysmods) (p : modpath) : res sysmods :=
    match fuel with
    | O => Fail EFuel
    | S f =>
        if in_sys st p then Ok st                      (* also when only partially initialised *)
        else match find_mod pkg p with
             | None => if internal pkg p then Fail ENotFound else Ok st
             | Some m =>
                 let st1 := st ++ [mkMS p false [] None] in
                 match run_body (load f) p st1 (body m) with
                 | Fail e => Fail e
                 | Ok st2 =>
                     if exports_ok (fst (entry_of st2 p)) (snd (entry_of st2 p))
                     then Ok (update_sys st2 p (fun x => mkMS (ms_path x) true (ms_globals x) (ms_all x)))
                     else Fail EExport
                 end
             end
    end.

  (* `import <m>` in a fresh interpreter *)
  Definition exec_mod (fuel : nat) (p : modpath) : res sysmods := load_chain (load fuel) [] p.

  Definition exec_pkg (fuel : nat) (m : pymod) : res unit :=
    match exec_mod fuel (path m) with Ok _ => Ok tt | Fail e => Fail e end.

  (* ---------------------------------------------------------------- pkg_ok: an executable sufficient condition *)
  Definition is_ancestor_or_self (q p : modpath) : bool := prefix_parts q p.

  (* modules whose loading a statement of module p can trigger: the target, its in-package parents, and the
     possible submodules T.n — except ancestors of p (and p), which are in sys.modules whenever p's body runs *)
  Definition chain_of (t : modpath) : list modpath := proper_prefixes t ++ [t].
  Definition stmt_edges (p : modpath) (s : stmt) : list modpath :=
    let targets :=
      match s with
      | FromImport t names => t :: map (fun na => t ++ [fst na]) (filter (fun na => has_mod pkg (t ++ [fst na])) names)
      | ImportStar t | ImportMod t _ => [t]
      | _ => []
      end in
    filter (fun q => has_mod pkg q && negb (is_ancestor_or_self q p)) (flat_map chain_of targets).

  Definition mod_edges (m : pymod) : list modpath := flat_map (stmt_edges (path m)) (body m).

  Fixpoint index_of (p : modpath) (l : list modpath) : option nat :=
    match l with
    | [] => None
    | x :: r => if modpath_eqb x p then Some O else option_map S (index_of p r)
    end.

  (* a depth-first post-order over the import edges (fuel = number of modules): dependencies first *)
  Fixpoint visit (fuel : nat) (done : list modpath) (p : modpath) : list modpath :=
    match fuel with
    | O => done
    | S f =>
        if mem_path p done then done
        else match find_mod pkg p with
             | None => done
             | Some m => let done' := fold_left (visit f) (mod_edges m) done in
                         if mem_path p done' then done' else done' ++ [p]
             end
    end.
  Definition topo_order : list modpath :=
    fold_left (visit (length pkg)) (map path pkg) [].

  (* c_parses: every file compiles *)
  Definition c_parses : bool :=
    forallb (fun m => forallb (fun s => match s with Broken => false | _ => true end) (body m)) pkg.

  (* c_paths: module paths are non-empty and pairwise distinct *)
  Definition c_paths : bool :=
    nodup_paths (map path pkg) && forallb (fun m => match path m with [] => false | _ => true end) pkg.

  (* c_closed: every imported module with an emitted top-level name is an emitted module *)
  Definition c_closed : bool :=
    forallb (fun m => forallb (fun s => match stmt_target s with
                                        | Some t => has_mod pkg t || negb (internal pkg t)
                                        | None => true
                                        end) (body m)) pkg.

  (* c_no_ancestor_names: no `from <own package or ancestor or itself> import name` / star (the partially
     initialised module hazard) *)
  Definition c_no_ancestor_names : bool :=
    forallb (fun m => forallb (fun s => match s with
                                        | FromImport t _ | ImportStar t => negb (is_ancestor_or_self t (path m))
                                        | _ => true
                                        end) (body m)) pkg.

  (* c_acyclic: the order is a topological order of the eager import edges *)
  Definition edges_decrease (order : list modpath) (m : pymod) : bool :=
    match index_of (path m) order with
    | None => false
    | Some i => forallb (fun q => match index_of q order with
                                  | Some j => (j <? i)%nat
                                  | None => false
                                  end) (mod_edges m)
    end.
  Definition c_acyclic_with (order : list modpath) : bool :=
    nodup_paths order && forallb (edges_decrease order) pkg
    && forallb (fun p => has_mod pkg p) order.
  Definition c_acyclic : bool := c_acyclic_with topo_order.

  (* c_static: executing the bodies in topological order, each against the finished modules before it, succeeds
     (names bound, annotations evaluable, imported names present, __all__ bound) *)
  Fixpoint sbody (vw : view) (ga : env * option (list str)) (l : list stmt) : res (env * option (list str)) :=
    match l with
    | [] => Ok ga
    | s :: r => match pure_step vw ga s with Ok ga' => sbody vw ga' r | Fail e => Fail e end
    end.

  Definition canon_step (acc : res sysmods) (p : modpath) : res sysmods :=
    match acc with
    | Fail e => Fail e
    | Ok done =>
        match find_mod pkg p with
        | None => Fail ENotFound
        | Some m =>
            match sbody (find_sys done) ([], None) (body m) with
            | Fail e => Fail e
            | Ok ga => if exports_ok (fst ga) (snd ga)
                       then Ok (done ++ [mkMS p true (fst ga) (snd ga)])
                       else Fail EExport
            end
        end
    end.
  Definition canon_with (order : list modpath) : res sysmods := fold_left canon_step order (Ok []).
  Definition canon : res sysmods := canon_with topo_order.
  Definition c_static_with (order : list modpath) : bool :=
    match canon_with order with Ok _ => true | Fail _ => false end.
  Definition c_static : bool := c_static_with topo_order.

  (* two syntactic conjuncts that name the known annotation defects (implied by c_static failing, kept separate
     so that a failure can be attributed):  a string literal as a direct operand of `|`;  a class field whose
     own name occurs in its annotation while a default is bound first *)
  Fixpoint has_str_or (e : expr) : bool :=
    match e with
    | AOr a b => (match a with AStr _ => true | _ => false end) || (match b with AStr _ => true | _ => false end)
                 || has_str_or a || has_str_or b
    | ASub g args => has_str_or g || (fix any (l : list expr) := match l with [] => false | x :: r => has_str_or x || any r end) args
    | AOther ch => (fix any (l : list expr) := match l with [] => false | x :: r => has_str_or x || any r end) ch
    | _ => false
    end.
  Fixpoint mentions (n : str) (e : expr) : bool :=
    match e with
    | AName x => str_eqb x n
    | AOr a b => mentions n a || mentions n b
    | ASub g args => mentions n g || (fix any (l : list expr) := match l with [] => false | x :: r => mentions n x || any r end) args
    | AOther ch => (fix any (l : list expr) := match l with [] => false | x :: r => mentions n x || any r end) ch
    | _ => false
    end.
  Definition class_items (m : pymod) : list citem :=
    flat_map (fun s => match s with ClassDef _ _ items => items | _ => [] end) (body m).
  Definition c_no_str_or : bool :=
    forallb (fun m => forallb (fun it => match it with CField _ a _ => negb (has_str_or a) | _ => true end)
                              (class_items m)) pkg.
  Definition c_no_shadow : bool :=
    forallb (fun m => forallb (fun it => match it with
                                         | CField n a (Some _) => negb (mentions n a)
                                         | _ => true
                                         end) (class_items m)) pkg.

  Definition pkg_ok_conjuncts : list bool :=
    [c_parses; c_closed; c_acyclic; c_no_str_or; c_no_shadow; c_no_ancestor_names; c_paths; c_static].
  Definition pkg_ok : bool := forallb (fun b => b) pkg_ok_conjuncts.

  (* the same condition w.r.t. ANY supplied order of the modules (pkg_ok computes one by depth-first search) *)
  Definition pkg_ok_with (order : list modpath) : bool :=
    c_parses && c_closed && c_acyclic_with order && c_no_ancestor_names && c_paths && c_static_with order.
End Exec.

Definition size (pkg : package) : nat := S (S (length pkg)).
