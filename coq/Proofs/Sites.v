(* C09 — proofs about Model/Sites.v: permutation (= hash-order) invariance of the order-relevant sites *)
From PG Require Import Lib.Strs Model.Sites.
From Coq Require Import Permutation.

(* ================================================================================================
   Python's str order is a total order; sorted() is canonical *)
Lemma str_leb_total : forall a b, str_leb a b = true \/ str_leb b a = true.
Proof.
  induction a as [|x a IH]; destruct b as [|y b]; simpl; auto.
  destruct (x <? y) eqn:E1; [auto|]. destruct (y <? x) eqn:E2; [auto|]. apply IH.
Qed.

Lemma str_leb_antisym : forall a b, str_leb a b = true -> str_leb b a = true -> a = b.
Proof.
  induction a as [|x a IH]; destruct b as [|y b]; simpl; intros H1 H2; try reflexivity; try discriminate.
  destruct (x <? y) eqn:E1.
  - apply N.ltb_lt in E1. destruct (y <? x) eqn:E2; [apply N.ltb_lt in E2; lia|].
    assert (x <? y = true) by (apply N.ltb_lt; exact E1). discriminate.
  - destruct (y <? x) eqn:E2; [discriminate|].
    apply N.ltb_ge in E1. apply N.ltb_ge in E2. assert (x = y) by lia. subst. f_equal. apply IH; assumption.
Qed.

Lemma str_leb_trans : forall a b c, str_leb a b = true -> str_leb b c = true -> str_leb a c = true.
Proof.
  induction a as [|x a IH]; intros b c H1 H2; [reflexivity|].
  destruct b as [|y b]; [discriminate|]. destruct c as [|z c]; [simpl in H2; discriminate|].
  simpl in *.
  destruct (x <? y) eqn:Exy.
  - apply N.ltb_lt in Exy. destruct (y <? z) eqn:Eyz.
    + apply N.ltb_lt in Eyz. assert (E : x <? z = true) by (apply N.ltb_lt; lia). rewrite E. reflexivity.
    + destruct (z <? y) eqn:Ezy; [discriminate|]. apply N.ltb_ge in Eyz. apply N.ltb_ge in Ezy.
      assert (E : x <? z = true) by (apply N.ltb_lt; lia). rewrite E. reflexivity.
  - destruct (y <? x) eqn:Eyx; [discriminate|]. apply N.ltb_ge in Exy. apply N.ltb_ge in Eyx.
    assert (x = y) by lia. subst y.
    destruct (x <? z) eqn:Exz; [reflexivity|]. destruct (z <? x) eqn:Ezx; [discriminate|].
    eapply IH; eassumption.
Qed.

Lemma str_leb_false : forall a b, str_leb a b = false -> str_leb b a = true.
Proof. intros a b H. destruct (str_leb_total a b) as [H'|H']; [congruence | exact H']. Qed.

Lemma insert_comm : forall x y l, insert_sorted x (insert_sorted y l) = insert_sorted y (insert_sorted x l).
Proof.
  intros x y. induction l as [|z r IH]; simpl.
  - destruct (str_leb x y) eqn:E1, (str_leb y x) eqn:E2; try reflexivity.
    + rewrite (str_leb_antisym _ _ E1 E2). reflexivity.
    + apply str_leb_false in E1. congruence.
  - destruct (str_leb y z) eqn:Eyz, (str_leb x z) eqn:Exz; simpl.
    + destruct (str_leb x y) eqn:Exy, (str_leb y x) eqn:Eyx; rewrite ?Exz, ?Eyz; try reflexivity.
      * rewrite (str_leb_antisym _ _ Exy Eyx). reflexivity.
      * apply str_leb_false in Exy. congruence.
    + (* y <= z, not x <= z *)
      rewrite Eyz.
      destruct (str_leb x y) eqn:Exy.
      * rewrite (str_leb_trans _ _ _ Exy Eyz) in Exz. discriminate.
      * rewrite Exz. reflexivity.
    + rewrite Exz.
      destruct (str_leb y x) eqn:Eyx.
      * rewrite (str_leb_trans _ _ _ Eyx Exz) in Eyz. discriminate.
      * rewrite Eyz. reflexivity.
    + rewrite Exz, Eyz. f_equal. exact IH.
Qed.

Theorem sort_perm_eq : forall a b, Permutation a b -> sort_strs a = sort_strs b.
Proof.
  induction 1 as [|x l l' _ IH|x y l|l l' l'' _ IH1 _ IH2]; simpl.
  - reflexivity.
  - rewrite IH. reflexivity.
  - apply insert_comm.
  - congruence.
Qed.

(* ================================================================================================
   sorting by an injective key is canonical *)
Section SortByFacts.
  Context {A : Type} (key : A -> str).
  Lemma insert_by_comm : forall x y l, key x <> key y ->
    insert_by key x (insert_by key y l) = insert_by key y (insert_by key x l).
  Proof.
    intros x y l Hne. induction l as [|z r IH]; simpl.
    - destruct (str_leb (key x) (key y)) eqn:E1, (str_leb (key y) (key x)) eqn:E2; try reflexivity.
      + exfalso. apply Hne. apply str_leb_antisym; assumption.
      + apply str_leb_false in E1. congruence.
    - destruct (str_leb (key y) (key z)) eqn:Eyz, (str_leb (key x) (key z)) eqn:Exz; simpl.
      + destruct (str_leb (key x) (key y)) eqn:Exy, (str_leb (key y) (key x)) eqn:Eyx;
          rewrite ?Exz, ?Eyz; try reflexivity.
        * exfalso. apply Hne. apply str_leb_antisym; assumption.
        * apply str_leb_false in Exy. congruence.
      + rewrite Eyz. destruct (str_leb (key x) (key y)) eqn:Exy.
        * rewrite (str_leb_trans _ _ _ Exy Eyz) in Exz. discriminate.
        * rewrite Exz. reflexivity.
      + rewrite Exz. destruct (str_leb (key y) (key x)) eqn:Eyx.
        * rewrite (str_leb_trans _ _ _ Eyx Exz) in Eyz. discriminate.
        * rewrite Eyz. reflexivity.
      + rewrite Exz, Eyz. f_equal. exact IH.
  Qed.

  (* sorting by an injective key is canonical *)
  Theorem sort_by_perm : forall l l', Permutation l l' -> NoDup (map key l) -> sort_by key l = sort_by key l'.
  Proof.
    induction 1 as [|x l l' Hp IH|x y l|l l' l'' Hp1 IH1 Hp2 IH2]; intro Hnd; simpl.
    - reflexivity.
    - inversion Hnd; subst. rewrite IH by assumption. reflexivity.
    - simpl in Hnd. inversion Hnd as [|? ? Hx Hr]; subst.
      apply insert_by_comm. intro E. apply Hx. left. symmetry. exact E.
    - rewrite IH1 by exact Hnd. apply IH2. eapply Permutation_NoDup; [|exact Hnd]. apply Permutation_map. exact Hp1.
  Qed.
End SortByFacts.

(* ================================================================================================
   SITE 1: since the fix of F09a the loop iterates sorted(url_vars, key=position in the template) *)
Definition v_alpha : str := [97;108;112;104;97].
Definition v_beta : str := [98;101;116;97].
Definition idS (s : str) : str := s.

Lemma index_of_inj : forall t a b, In a t -> In b t -> index_of a t = index_of b t -> a = b.
Proof.
  induction t as [|x t IH]; intros a b Ha Hb E; [contradiction|]. cbn [index_of] in E.
  destruct (str_eqb a x) eqn:Ea, (str_eqb b x) eqn:Eb; cbv iota in E.
  - apply str_eqb_eq in Ea. apply str_eqb_eq in Eb. congruence.
  - lia.
  - lia.
  - apply str_eqb_neq in Ea. apply str_eqb_neq in Eb.
    destruct Ha as [Ha|Ha]; [congruence|]. destruct Hb as [Hb|Hb]; [congruence|].
    apply IH; [assumption | assumption | lia].
Qed.

Lemma template_keys_nodup : forall t l, NoDup l -> (forall v, In v l -> In v t) -> NoDup (map (template_key t) l).
Proof.
  intros t. induction l as [|x l IH]; intros Hnd Hsub; simpl; [constructor|].
  inversion Hnd as [|? ? Hx Hr]; subst. constructor.
  - intro X. apply in_map_iff in X. destruct X as [y [E Hy]]. unfold template_key in E. inversion E as [E'].
    assert (y = x) by (apply (index_of_inj t); [apply Hsub; right; exact Hy | apply Hsub; left; reflexivity | exact E']).
    subst. contradiction.
  - apply IH; [exact Hr|]. intros v Hv. apply Hsub. right. exact Hv.
Qed.

(* whatever order the set is iterated in, the signature is the same *)
Theorem site1_full : forall san ps template l1 l2,
  NoDup l1 -> (forall v, In v l1 -> In v template) -> Permutation l1 l2 ->
  signature_order san ps template l1 = signature_order san ps template l2.
Proof.
  intros san ps template l1 l2 Hnd Hsub Hp. unfold signature_order.
  rewrite (sort_by_perm (template_key template) l1 l2 Hp (template_keys_nodup _ _ Hnd Hsub)). reflexivity.
Qed.

(* …and it is the template order *)
Lemma site1_regression_F09a :
  signature_order idS [] [v_alpha; v_beta] [v_alpha; v_beta] = [v_alpha; v_beta] /\
  signature_order idS [] [v_alpha; v_beta] [v_beta; v_alpha] = [v_alpha; v_beta] /\
  signature_order idS [(v_beta, false)] [v_alpha; v_beta] [v_beta; v_alpha] = [v_alpha; v_beta].
Proof. repeat split; vm_compute; reflexivity. Qed.

(* ================================================================================================
   SITE 2: proved *)
Lemma In_set_add : forall x n s, In x (set_add n s) <-> x = n \/ In x s.
Proof.
  intros x n s. unfold set_add. destruct (mem_str n s) eqn:E.
  - apply mem_str_In in E. split; [auto | intros [->|H]; assumption].
  - rewrite in_app_iff. simpl. split; [intros [H|[H|[]]]; auto | intros [H|H]; auto].
Qed.

Lemma NoDup_set_add : forall n s, NoDup s -> NoDup (set_add n s).
Proof.
  intros n s H. unfold set_add. destruct (mem_str n s) eqn:E; [exact H|].
  assert (Hn : ~ In n s) by (intro X; apply mem_str_In in X; congruence).
  clear E. induction s as [|y s IH]; simpl.
  - constructor; [intros [] | constructor].
  - inversion H; subst. constructor.
    + rewrite in_app_iff. simpl. intros [X|[X|[]]]; [contradiction|]. subst. apply Hn. left. reflexivity.
    + apply IH; [assumption|]. intro X. apply Hn. right. exact X.
Qed.

Lemma akeys_aset : forall {V} (d : list (str * V)) k v,
  akeys (aset d k v) = if mem_str k (akeys d) then akeys d else akeys d ++ [k].
Proof.
  unfold akeys. induction d as [|[k' v'] d IH]; intros k v; simpl; [reflexivity|].
  destruct (str_eqb k k') eqn:E; simpl; [reflexivity|]. rewrite IH.
  destruct (mem_str k (map fst d)); reflexivity.
Qed.

Lemma In_akeys_add : forall k m n d, In k (akeys (ds_add m n d)) <-> k = m \/ In k (akeys d).
Proof.
  intros k m n d. unfold ds_add. rewrite akeys_aset. destruct (mem_str m (akeys d)) eqn:E.
  - apply mem_str_In in E. split; [auto | intros [->|H]; assumption].
  - rewrite in_app_iff. simpl. split; [intros [H|[H|[]]]; auto | intros [H|H]; auto].
Qed.

Lemma NoDup_akeys_add : forall m n d, NoDup (akeys d) -> NoDup (akeys (ds_add m n d)).
Proof.
  intros m n d H. unfold ds_add. rewrite akeys_aset. destruct (mem_str m (akeys d)) eqn:E; [exact H|].
  assert (Hn : ~ In m (akeys d)) by (intro X; apply mem_str_In in X; congruence).
  clear E. induction (akeys d) as [|y s IH]; simpl.
  - constructor; [intros [] | constructor].
  - inversion H; subst. constructor.
    + rewrite in_app_iff. simpl. intros [X|[X|[]]]; [contradiction|]. subst. apply Hn. left. reflexivity.
    + apply IH; [assumption|]. intro X. apply Hn. right. exact X.
Qed.

Lemma ds_get_add : forall k m n d,
  ds_get k (ds_add m n d) = if str_eqb k m then set_add n (ds_get m d) else ds_get k d.
Proof.
  intros k m n d. unfold ds_get at 1, ds_add. destruct (str_eqb k m) eqn:E.
  - apply str_eqb_eq in E. subst k. rewrite alookup_aset_same. reflexivity.
  - apply str_eqb_neq in E. rewrite alookup_aset_other by exact E. reflexivity.
Qed.

Definition WF (d : dsets) : Prop := NoDup (akeys d) /\ forall k, NoDup (ds_get k d).

Lemma WF_add : forall m n d, WF d -> WF (ds_add m n d).
Proof.
  intros m n d [H1 H2]. split; [apply NoDup_akeys_add; exact H1|].
  intro k. rewrite ds_get_add. destruct (str_eqb k m); [apply NoDup_set_add; apply H2 | apply H2].
Qed.

Section Fold.
  (* one container of the collector: the names whose action selects it *)
  Variable pick : str -> option (str * str).
  Definition step (d : dsets) (x : str) : dsets :=
    match pick x with Some (m, n) => ds_add m n d | None => d end.

  Lemma fold_keys : forall l d k,
    In k (akeys (fold_left step l d)) <-> In k (akeys d) \/ exists x n, In x l /\ pick x = Some (k, n).
  Proof.
    induction l as [|x l IH]; intros d k; simpl.
    - split; [auto | intros [H|[x [n [[] _]]]]; exact H].
    - rewrite IH. unfold step. destruct (pick x) as [[m n]|] eqn:E.
      + rewrite In_akeys_add. split.
        * intros [[->|H]|[y [n' [Hy Ey]]]]; [right; exists x, n; auto | auto | right; exists y, n'; auto].
        * intros [H|[y [n' [[<-|Hy] Ey]]]]; [auto | rewrite E in Ey; inversion Ey; subst; auto | right; exists y, n'; auto].
      + split.
        * intros [H|[y [n' [Hy Ey]]]]; [auto | right; exists y, n'; auto].
        * intros [H|[y [n' [[<-|Hy] Ey]]]]; [auto | congruence | right; exists y, n'; auto].
  Qed.

  Lemma fold_names : forall l d k y,
    In y (ds_get k (fold_left step l d)) <-> In y (ds_get k d) \/ exists x, In x l /\ pick x = Some (k, y).
  Proof.
    induction l as [|x l IH]; intros d k y; simpl.
    - split; [auto | intros [H|[x [[] _]]]; exact H].
    - rewrite IH. unfold step. destruct (pick x) as [[m n]|] eqn:E.
      + rewrite ds_get_add. destruct (str_eqb k m) eqn:Ek.
        * apply str_eqb_eq in Ek. subst m. rewrite In_set_add. split.
          -- intros [[->|H]|[z [Hz Ez]]]; [right; exists x; auto | auto | right; exists z; auto].
          -- intros [H|[z [[<-|Hz] Ez]]]; [auto | rewrite E in Ez; inversion Ez; subst; auto | right; exists z; auto].
        * apply str_eqb_neq in Ek. split.
          -- intros [H|[z [Hz Ez]]]; [auto | right; exists z; auto].
          -- intros [H|[z [[<-|Hz] Ez]]]; [auto | rewrite E in Ez; inversion Ez; congruence | right; exists z; auto].
      + split.
        * intros [H|[z [Hz Ez]]]; [auto | right; exists z; auto].
        * intros [H|[z [[<-|Hz] Ez]]]; [auto | congruence | right; exists z; auto].
  Qed.

  Lemma fold_WF : forall l d, WF d -> WF (fold_left step l d).
  Proof.
    induction l as [|x l IH]; intros d H; simpl; [exact H|]. apply IH. unfold step.
    destruct (pick x) as [[m n]|]; [apply WF_add; exact H | exact H].
  Qed.

  (* two iteration orders leave the container with the same keys and the same set per key *)
  Lemma fold_perm : forall l1 l2 d, WF d -> Permutation l1 l2 ->
    Permutation (akeys (fold_left step l1 d)) (akeys (fold_left step l2 d)) /\
    forall k, Permutation (ds_get k (fold_left step l1 d)) (ds_get k (fold_left step l2 d)).
  Proof.
    intros l1 l2 d Hwf Hp.
    destruct (fold_WF l1 d Hwf) as [N1 M1]. destruct (fold_WF l2 d Hwf) as [N2 M2].
    split.
    - apply NoDup_Permutation; [exact N1 | exact N2|]. intro k. rewrite !fold_keys.
      split; (intros [H|[x [n [Hx Ex]]]]; [auto | right; exists x, n; split; [|exact Ex]]).
      + eapply Permutation_in; eassumption.
      + eapply Permutation_in; [apply Permutation_sym|]; eassumption.
    - intro k. apply NoDup_Permutation; [apply M1 | apply M2|]. intro y. rewrite !fold_names.
      split; (intros [H|[x [Hx Ex]]]; [auto | right; exists x; split; [|exact Ex]]).
      + eapply Permutation_in; eassumption.
      + eapply Permutation_in; [apply Permutation_sym|]; eassumption.
  Qed.
End Fold.

(* the plain-import set *)
Section FoldPlain.
  Variable pick : str -> option str.
  Definition pstep (s : list str) (x : str) : list str := match pick x with Some m => set_add m s | None => s end.

  Lemma pfold_in : forall l s y, In y (fold_left pstep l s) <-> In y s \/ exists x, In x l /\ pick x = Some y.
  Proof.
    induction l as [|x l IH]; intros s y; simpl.
    - split; [auto | intros [H|[x [[] _]]]; exact H].
    - rewrite IH. unfold pstep. destruct (pick x) as [m|] eqn:E.
      + rewrite In_set_add. split.
        * intros [[->|H]|[z [Hz Ez]]]; [right; exists x; auto | auto | right; exists z; auto].
        * intros [H|[z [[<-|Hz] Ez]]]; [auto | rewrite E in Ez; inversion Ez; subst; auto | right; exists z; auto].
      + split.
        * intros [H|[z [Hz Ez]]]; [auto | right; exists z; auto].
        * intros [H|[z [[<-|Hz] Ez]]]; [auto | congruence | right; exists z; auto].
  Qed.

  Lemma pfold_nodup : forall l s, NoDup s -> NoDup (fold_left pstep l s).
  Proof.
    induction l as [|x l IH]; intros s H; simpl; [exact H|]. apply IH. unfold pstep.
    destruct (pick x); [apply NoDup_set_add; exact H | exact H].
  Qed.

  Lemma pfold_perm : forall l1 l2 s, NoDup s -> Permutation l1 l2 ->
    Permutation (fold_left pstep l1 s) (fold_left pstep l2 s).
  Proof.
    intros l1 l2 s Hs Hp. apply NoDup_Permutation; try (apply pfold_nodup; exact Hs).
    intro y. rewrite !pfold_in.
    split; (intros [H|[x [Hx Ex]]]; [auto | right; exists x; split; [|exact Ex]]).
    - eapply Permutation_in; eassumption.
    - eapply Permutation_in; [apply Permutation_sym|]; eassumption.
  Qed.
End FoldPlain.

(* decomposition of the loop over the three containers *)
Definition pick_abs (classify : str -> action) (x : str) : option (str * str) :=
  match classify x with AAbs m n => Some (m, n) | _ => None end.
Definition pick_rel (classify : str -> action) (x : str) : option (str * str) :=
  match classify x with ARel m n => Some (m, n) | _ => None end.
Definition pick_plain (classify : str -> action) (x : str) : option str :=
  match classify x with APlain m => Some m | _ => None end.

Lemma add_names_split : forall classify l c,
  add_names classify c l =
  {| c_abs := fold_left (step (pick_abs classify)) l (c_abs c);
     c_rel := fold_left (step (pick_rel classify)) l (c_rel c);
     c_plain := fold_left (pstep (pick_plain classify)) l (c_plain c) |}.
Proof.
  intros classify. unfold add_names. induction l as [|x l IH]; intro c; simpl; [destruct c; reflexivity|].
  rewrite IH. f_equal; f_equal; unfold step, pstep, pick_abs, pick_rel, pick_plain;
    destruct (classify x); reflexivity.
Qed.

(* ---------- rendering only looks at sorted keys / sorted names ---------- *)
Lemma Permutation_filter : forall {A} (f : A -> bool) l1 l2, Permutation l1 l2 -> Permutation (filter f l1) (filter f l2).
Proof.
  intros A f l1 l2 H. induction H; simpl.
  - constructor.
  - destruct (f x); [constructor|]; assumption.
  - destruct (f x), (f y); try apply Permutation_refl. apply perm_swap.
  - eapply Permutation_trans; eassumption.
Qed.

Lemma nonempty_perm : forall {A} (a b : list A), Permutation a b -> nonempty a = nonempty b.
Proof.
  intros A a b H. destruct a as [|x a], b as [|y b]; try reflexivity.
  - apply Permutation_nil in H. discriminate.
  - apply Permutation_sym, Permutation_nil in H. discriminate.
Qed.

Lemma nonempty_sort : forall l, nonempty (sort_strs l) = nonempty l.
Proof.
  destruct l as [|x l]; [reflexivity|]. simpl. destruct (sort_strs l) as [|y r]; simpl; [reflexivity|].
  destruct (str_leb x y); reflexivity.
Qed.

Lemma nonempty_keys : forall d : dsets, nonempty d = nonempty (akeys d).
Proof. destruct d; reflexivity. Qed.

Definition deq (d d' : dsets) : Prop :=
  Permutation (akeys d) (akeys d') /\ forall k, Permutation (ds_get k d) (ds_get k d').

Lemma from_line_deq : forall d d' m, deq d d' -> from_line d m = from_line d' m.
Proof. intros d d' m [_ H]. unfold from_line. rewrite (sort_perm_eq _ _ (H m)). reflexivity. Qed.

Lemma statements_deq : forall is_stdlib c c',
  deq (c_abs c) (c_abs c') -> deq (c_rel c) (c_rel c') -> Permutation (c_plain c) (c_plain c') ->
  formatted_statements is_stdlib c = formatted_statements is_stdlib c'.
Proof.
  intros is_stdlib c c' Ha Hr Hp. unfold formatted_statements.
  pose proof (sort_perm_eq _ _ (Permutation_filter is_stdlib _ _ (proj1 Ha))) as E1.
  pose proof (sort_perm_eq _ _ (Permutation_filter (fun m => negb (is_stdlib m)) _ _ (proj1 Ha))) as E2.
  pose proof (sort_perm_eq _ _ (proj1 Hr)) as E3.
  pose proof (sort_perm_eq _ _ Hp) as E4.
  rewrite E1, E2, E3, E4.
  rewrite (nonempty_perm _ _ Hp).
  rewrite (nonempty_keys (c_rel c)), (nonempty_keys (c_rel c')), (nonempty_perm _ _ (proj1 Hr)).
  rewrite !(map_ext (from_line (c_abs c)) (from_line (c_abs c')) (fun m => from_line_deq _ _ m Ha)).
  rewrite !(map_ext (from_line (c_rel c)) (from_line (c_rel c')) (fun m => from_line_deq _ _ m Hr)).
  reflexivity.
Qed.

Lemma nodup_strs_NoDup : forall l, nodup_strs l = true -> NoDup l.
Proof.
  induction l as [|x l IH]; simpl; intro H; [constructor|].
  apply andb_true_iff in H. destruct H as [H1 H2]. constructor; [|apply IH; exact H2].
  intro X. apply mem_str_In in X. apply negb_true_iff in H1. congruence.
Qed.

Lemma wf_dsets_WF : forall d, wf_dsets d = true -> WF d.
Proof.
  intros d H. unfold wf_dsets in H. apply andb_true_iff in H. destruct H as [H1 H2].
  split; [apply nodup_strs_NoDup; exact H1|].
  intro k. unfold ds_get. destruct (alookup k d) as [s|] eqn:E; [|constructor].
  rewrite forallb_forall in H2.
  assert (Hin : In (k, s) d \/ exists k', In (k', s) d).
  { clear -E. induction d as [|[k' v] d IH]; simpl in *; [discriminate|].
    destruct (str_eqb k k'); [inversion E; subst; right; exists k'; left; reflexivity|].
    destruct (IH E) as [H|[k'' H]]; [left; right; exact H | right; exists k''; right; exact H]. }
  destruct Hin as [Hin|[k' Hin]]; apply nodup_strs_NoDup; [apply (H2 (k, s) Hin) | apply (H2 (k', s) Hin)].
Qed.

(* MAIN: the import block rendered after the loop does not depend on the iteration order of the word set *)
Theorem site2_invariant : forall is_stdlib classify c0 l1 l2,
  wf_collector c0 = true -> Permutation l1 l2 ->
  typing_imports_render is_stdlib classify c0 l1 = typing_imports_render is_stdlib classify c0 l2.
Proof.
  intros is_stdlib classify c0 l1 l2 Hwf Hp. unfold typing_imports_render, formatted_imports. f_equal.
  unfold wf_collector in Hwf. apply andb_true_iff in Hwf. destruct Hwf as [Hwf Hpl].
  apply andb_true_iff in Hwf. destruct Hwf as [Hab Hre].
  rewrite !add_names_split. apply statements_deq; simpl.
  - apply fold_perm; [apply wf_dsets_WF; exact Hab | exact Hp].
  - apply fold_perm; [apply wf_dsets_WF; exact Hre | exact Hp].
  - apply pfold_perm; [apply nodup_strs_NoDup; exact Hpl | exact Hp].
Qed.

Definition w_List : str := [76;105;115;116].
Definition w_Pet : str := [80;101;116].
Definition m_typing : str := [116;121;112;105;110;103].
Definition m_models_pet : str := [99;108;105;101;110;116;46;109;111;100;101;108;115;46;112;101;116].
Definition demo_classify : str -> action :=
  classify_of [(w_List, AAbs m_typing w_List); (w_Pet, AAbs m_models_pet w_Pet)].
Lemma site2_nonvacuous :
  wf_collector empty_collector = true /\
  add_names demo_classify empty_collector [w_List; w_Pet] <> add_names demo_classify empty_collector [w_Pet; w_List] /\
  typing_imports_render (stdlib_of [m_typing]) demo_classify empty_collector [w_List; w_Pet] <> [].
Proof. repeat split; vm_compute; discriminate. Qed.

