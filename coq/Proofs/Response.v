(* C05 — proofs about Model/Response.v *)
From PG Require Import Lib.Strs Model.Dispatch Model.Response.

(* the registry of the harness's component schemas (Item, Cat, Color, Pet, Items, Names, Name, When, Count) *)
Definition REG : registry := [([73;116;101;109], {| si_named := true; si_type := (Some [111;98;106;101;99;116]); si_props := true; si_enum := false; si_items := None |}); ([67;97;116], {| si_named := true; si_type := (Some [111;98;106;101;99;116]); si_props := true; si_enum := false; si_items := None |}); ([67;111;108;111;114], {| si_named := true; si_type := (Some [115;116;114;105;110;103]); si_props := false; si_enum := true; si_items := None |}); ([80;101;116], {| si_named := true; si_type := None; si_props := false; si_enum := false; si_items := None |}); ([73;116;101;109;115], {| si_named := true; si_type := (Some [97;114;114;97;121]); si_props := false; si_enum := false; si_items := (Some ((Some [73;116;101;109]), (Some [111;98;106;101;99;116]))) |}); ([78;97;109;101;115], {| si_named := true; si_type := (Some [97;114;114;97;121]); si_props := false; si_enum := false; si_items := (Some (None, (Some [115;116;114;105;110;103]))) |}); ([78;97;109;101], {| si_named := true; si_type := (Some [115;116;114;105;110;103]); si_props := false; si_enum := false; si_items := None |}); ([87;104;101;110], {| si_named := true; si_type := (Some [115;116;114;105;110;103]); si_props := false; si_enum := false; si_items := None |}); ([67;111;117;110;116], {| si_named := true; si_type := (Some [105;110;116;101;103;101;114]); si_props := false; si_enum := false; si_items := None |})].

Definition d_F05b : dcase := {| d_reg := REG; d_module := [[{| cr_code := (Num 200); cr_content := [{| c_media := [97;112;112;108;105;99;97;116;105;111;110;47;106;115;111;110]; c_type := (TLib [100;97;116;101;116;105;109;101]); c_binfmt := false |}] |}]]; d_op := 0%nat; d_resp := 0%nat; d_entry := (Some 0%nat) |}.
Definition d_F05c : dcase := {| d_reg := REG; d_module := [[{| cr_code := (Num 200); cr_content := [{| c_media := [116;101;120;116;47;112;108;97;105;110]; c_type := (TPrim PStr); c_binfmt := false |}] |}]]; d_op := 0%nat; d_resp := 0%nat; d_entry := (Some 0%nat) |}.
Definition d_F05e : dcase := {| d_reg := REG; d_module := [[{| cr_code := (Num 200); cr_content := [{| c_media := [97;112;112;108;105;99;97;116;105;111;110;47;106;115;111;110]; c_type := (TClass [73;116;101;109]); c_binfmt := false |}; {| c_media := [116;101;120;116;47;112;108;97;105;110]; c_type := (TPrim PStr); c_binfmt := false |}] |}]]; d_op := 0%nat; d_resp := 0%nat; d_entry := (Some 0%nat) |}.
Definition d_F05f : dcase := {| d_reg := REG; d_module := [[{| cr_code := (Num 200); cr_content := [{| c_media := [97;112;112;108;105;99;97;116;105;111;110;47;120;45;110;100;106;115;111;110]; c_type := (TClass [73;116;101;109]); c_binfmt := false |}] |}]]; d_op := 0%nat; d_resp := 0%nat; d_entry := (Some 0%nat) |}.
Definition d_F05g : dcase := {| d_reg := REG; d_module := [[{| cr_code := (Other [50;88;88]); cr_content := [{| c_media := [97;112;112;108;105;99;97;116;105;111;110;47;106;115;111;110]; c_type := (TClass [73;116;101;109]); c_binfmt := false |}] |}]]; d_op := 0%nat; d_resp := 0%nat; d_entry := (Some 0%nat) |}.
Definition d_F05h : dcase := {| d_reg := REG; d_module := [[{| cr_code := (Num 200); cr_content := [{| c_media := [116;101;120;116;47;101;118;101;110;116;45;115;116;114;101;97;109]; c_type := (TClass [73;116;101;109]); c_binfmt := false |}] |}; {| cr_code := (Num 202); cr_content := [] |}]]; d_op := 0%nat; d_resp := 0%nat; d_entry := (Some 0%nat) |}.
Definition d_F05i : dcase := {| d_reg := REG; d_module := [[{| cr_code := (Num 200); cr_content := [{| c_media := [97;112;112;108;105;99;97;116;105;111;110;47;106;115;111;110]; c_type := (TClass [73;116;101;109]); c_binfmt := false |}] |}; {| cr_code := (Num 201); cr_content := [{| c_media := [97;112;112;108;105;99;97;116;105;111;110;47;106;115;111;110]; c_type := (TClass [67;97;116]); c_binfmt := false |}] |}]]; d_op := 0%nat; d_resp := 1%nat; d_entry := (Some 0%nat) |}.
Definition d_ok : dcase := {| d_reg := REG; d_module := [[{| cr_code := (Num 200); cr_content := [{| c_media := [97;112;112;108;105;99;97;116;105;111;110;47;106;115;111;110]; c_type := (TClass [73;116;101;109]); c_binfmt := false |}] |}; {| cr_code := (Num 201); cr_content := [{| c_media := [97;112;112;108;105;99;97;116;105;111;110;47;106;115;111;110]; c_type := (TClass [73;116;101;109]); c_binfmt := false |}] |}; {| cr_code := (Num 202); cr_content := [] |}]]; d_op := 0%nat; d_resp := 0%nat; d_entry := (Some 0%nat) |}.
Definition d_ok2 : dcase := {| d_reg := REG; d_module := [[{| cr_code := (Num 200); cr_content := [{| c_media := [97;112;112;108;105;99;97;116;105;111;110;47;106;115;111;110]; c_type := (TClass [73;116;101;109]); c_binfmt := false |}] |}; {| cr_code := (Num 201); cr_content := [{| c_media := [97;112;112;108;105;99;97;116;105;111;110;47;106;115;111;110]; c_type := (TClass [73;116;101;109]); c_binfmt := false |}] |}; {| cr_code := (Num 202); cr_content := [] |}]]; d_op := 0%nat; d_resp := 1%nat; d_entry := (Some 0%nat) |}.
Definition d_ok3 : dcase := {| d_reg := REG; d_module := [[{| cr_code := (Num 200); cr_content := [{| c_media := [97;112;112;108;105;99;97;116;105;111;110;47;106;115;111;110]; c_type := (TClass [73;116;101;109]); c_binfmt := false |}] |}; {| cr_code := (Num 201); cr_content := [{| c_media := [97;112;112;108;105;99;97;116;105;111;110;47;106;115;111;110]; c_type := (TClass [73;116;101;109]); c_binfmt := false |}] |}; {| cr_code := (Num 202); cr_content := [] |}]]; d_op := 0%nat; d_resp := 2%nat; d_entry := None |}.
Definition d_switch : dcase := {| d_reg := REG; d_module := [[{| cr_code := (Num 200); cr_content := [{| c_media := [97;112;112;108;105;99;97;116;105;111;110;47;106;115;111;110]; c_type := (TClass [73;116;101;109]); c_binfmt := false |}; {| c_media := [116;101;120;116;47;112;108;97;105;110]; c_type := (TPrim PStr); c_binfmt := false |}] |}]]; d_op := 0%nat; d_resp := 0%nat; d_entry := (Some 1%nat) |}.

(* ---------- witnesses: each finding's input fails exactly its own guard conjunct, and the property is false on it ---------- *)
Definition guard_bits (d : dcase) : list bool :=
  [guard_F05b d; guard_F05c d; guard_F05e d; guard_F05f d; guard_F05g d; guard_F05h d; guard_F05i d].

Theorem refuted_F05b : guard_bits d_F05b = [false; true; true; true; true; true; true]
  /\ the_path d_F05b = PCast /\ the_want d_F05b = WJsonTyped (TLib [100;97;116;101;116;105;109;101]) /\ C05_holds d_F05b = false.
Proof. repeat split; vm_compute; reflexivity. Qed.
Theorem refuted_F05c : guard_bits d_F05c = [true; false; true; true; true; true; true]
  /\ the_path d_F05c = PCast /\ the_want d_F05c = WText /\ C05_holds d_F05c = false.
Proof. repeat split; vm_compute; reflexivity. Qed.
Theorem refuted_F05e : guard_bits d_F05e = [true; true; false; true; true; true; true]
  /\ the_imported d_F05e = false /\ (exists c, the_path d_F05e = PStructure c) /\ C05_holds d_F05e = false.
Proof. repeat split; try (vm_compute; reflexivity). eexists. vm_compute. reflexivity. Qed.
Theorem refuted_F05f : guard_bits d_F05f = [true; true; true; false; true; true; true]
  /\ the_path d_F05f = PStreamSse /\ the_want d_F05f = WStreamItems /\ C05_holds d_F05f = false.
Proof. repeat split; vm_compute; reflexivity. Qed.
Theorem refuted_F05g : guard_bits d_F05g = [true; true; true; true; false; true; true]
  /\ the_path d_F05g = PRaiseHTTP /\ C05_holds d_F05g = false.
Proof. repeat split; vm_compute; reflexivity. Qed.

Theorem refuted_F05h : guard_bits d_F05h = [true; true; true; true; true; false; true]
  /\ module_syntax_ok (d_module d_F05h) = false /\ C05_holds d_F05h = false.
Proof. repeat split; vm_compute; reflexivity. Qed.
Theorem refuted_F05i : guard_bits d_F05i = [true; true; true; true; true; true; false]
  /\ the_annotation d_F05i = [73;116;101;109] /\ the_want d_F05i = WJsonTyped (TClass [67;97;116]) /\ C05_holds d_F05i = false.
Proof. repeat split; vm_compute; reflexivity. Qed.

Example guard_nonvacuous :
  c05_guard d_ok = true /\ C05_holds d_ok = true /\ c05_guard d_ok2 = true /\ C05_holds d_ok2 = true
  /\ c05_guard d_ok3 = true /\ the_path d_ok3 = PNone
  /\ c05_guard d_switch = true /\ the_path d_switch = PText /\ C05_holds d_switch = true.
Proof. repeat split; vm_compute; reflexivity. Qed.
