(* C05 — proofs about Model/Response.v *)
From PG Require Import Lib.Strs Model.Dispatch Model.Response.

(* the registry of the harness's component schemas (Item, Cat, Color, Pet, Items, Names, Name, When, Count) *)
Definition REG : registry := [([73;116;101;109], {| si_named := true; si_type := (Some [111;98;106;101;99;116]); si_props := true; si_enum := false; si_items := None |}); ([67;97;116], {| si_named := true; si_type := (Some [111;98;106;101;99;116]); si_props := true; si_enum := false; si_items := None |}); ([67;111;108;111;114], {| si_named := true; si_type := (Some [115;116;114;105;110;103]); si_props := false; si_enum := true; si_items := None |}); ([80;101;116], {| si_named := true; si_type := None; si_props := false; si_enum := false; si_items := None |}); ([73;116;101;109;115], {| si_named := true; si_type := (Some [97;114;114;97;121]); si_props := false; si_enum := false; si_items := (Some ((Some [73;116;101;109]), (Some [111;98;106;101;99;116]))) |}); ([78;97;109;101;115], {| si_named := true; si_type := (Some [97;114;114;97;121]); si_props := false; si_enum := false; si_items := (Some (None, (Some [115;116;114;105;110;103]))) |}); ([78;97;109;101], {| si_named := true; si_type := (Some [115;116;114;105;110;103]); si_props := false; si_enum := false; si_items := None |}); ([87;104;101;110], {| si_named := true; si_type := (Some [115;116;114;105;110;103]); si_props := false; si_enum := false; si_items := None |}); ([67;111;117;110;116], {| si_named := true; si_type := (Some [105;110;116;101;103;101;114]); si_props := false; si_enum := false; si_items := None |})].

Definition d_F05b : dcase := {| d_reg := REG; d_module := [[{| cr_code := (Num 200); cr_content := [{| c_media := [97;112;112;108;105;99;97;116;105;111;110;47;106;115;111;110]; c_type := (TLib [100;97;116;101;116;105;109;101]); c_binfmt := false |}] |}]]; d_op := 0%nat; d_resp := 0%nat; d_entry := (Some 0%nat) |}.
Definition d_F05c : dcase := {| d_reg := REG; d_module := [[{| cr_code := (Num 200); cr_content := [{| c_media := [116;101;120;116;47;101;118;101;110;116;45;115;116;114;101;97;109]; c_type := (TClass [73;116;101;109]); c_binfmt := false |}] |}; {| cr_code := (Num 201); cr_content := [{| c_media := [97;112;112;108;105;99;97;116;105;111;110;47;106;115;111;110]; c_type := (TClass [73;116;101;109]); c_binfmt := false |}] |}]]; d_op := 0%nat; d_resp := 1%nat; d_entry := (Some 0%nat) |}.
Definition d_F05c_text : dcase := {| d_reg := REG; d_module := [[{| cr_code := (Num 200); cr_content := [{| c_media := [116;101;120;116;47;112;108;97;105;110]; c_type := (TPrim PStr); c_binfmt := false |}] |}]]; d_op := 0%nat; d_resp := 0%nat; d_entry := (Some 0%nat) |}.
Definition d_F05c_text2 : dcase := {| d_reg := REG; d_module := [[{| cr_code := (Num 200); cr_content := [{| c_media := [97;112;112;108;105;99;97;116;105;111;110;47;106;115;111;110]; c_type := (TClass [73;116;101;109]); c_binfmt := false |}] |}; {| cr_code := (Num 201); cr_content := [{| c_media := [116;101;120;116;47;112;108;97;105;110]; c_type := (TPrim PStr); c_binfmt := false |}] |}]]; d_op := 0%nat; d_resp := 1%nat; d_entry := (Some 0%nat) |}.
Definition d_F05e : dcase := {| d_reg := REG; d_module := [[{| cr_code := (Num 200); cr_content := [{| c_media := [97;112;112;108;105;99;97;116;105;111;110;47;106;115;111;110]; c_type := (TClass [73;116;101;109]); c_binfmt := false |}; {| c_media := [116;101;120;116;47;112;108;97;105;110]; c_type := (TPrim PStr); c_binfmt := false |}] |}]]; d_op := 0%nat; d_resp := 0%nat; d_entry := (Some 0%nat) |}.
Definition d_F05f_ndjson : dcase := {| d_reg := REG; d_module := [[{| cr_code := (Num 200); cr_content := [{| c_media := [97;112;112;108;105;99;97;116;105;111;110;47;120;45;110;100;106;115;111;110]; c_type := (TClass [73;116;101;109]); c_binfmt := false |}] |}]]; d_op := 0%nat; d_resp := 0%nat; d_entry := (Some 0%nat) |}.
Definition d_F05f : dcase := {| d_reg := REG; d_module := [[{| cr_code := (Num 200); cr_content := [{| c_media := [97;112;112;108;105;99;97;116;105;111;110;47;106;115;111;110;45;115;101;113]; c_type := (TClass [73;116;101;109]); c_binfmt := false |}] |}]]; d_op := 0%nat; d_resp := 0%nat; d_entry := (Some 0%nat) |}.
Definition d_F05g : dcase := {| d_reg := REG; d_module := [[{| cr_code := (Other [50;88;88]); cr_content := [{| c_media := [97;112;112;108;105;99;97;116;105;111;110;47;106;115;111;110]; c_type := (TClass [73;116;101;109]); c_binfmt := false |}] |}]]; d_op := 0%nat; d_resp := 0%nat; d_entry := (Some 0%nat) |}.
Definition d_F05h : dcase := {| d_reg := REG; d_module := [[{| cr_code := (Num 200); cr_content := [{| c_media := [116;101;120;116;47;101;118;101;110;116;45;115;116;114;101;97;109]; c_type := (TClass [73;116;101;109]); c_binfmt := false |}] |}; {| cr_code := (Num 202); cr_content := [] |}]]; d_op := 0%nat; d_resp := 0%nat; d_entry := (Some 0%nat) |}.
Definition d_F05i : dcase := {| d_reg := REG; d_module := [[{| cr_code := (Num 200); cr_content := [{| c_media := [97;112;112;108;105;99;97;116;105;111;110;47;106;115;111;110]; c_type := (TClass [73;116;101;109]); c_binfmt := false |}] |}; {| cr_code := (Num 201); cr_content := [{| c_media := [97;112;112;108;105;99;97;116;105;111;110;47;106;115;111;110]; c_type := (TClass [67;97;116]); c_binfmt := false |}] |}]]; d_op := 0%nat; d_resp := 1%nat; d_entry := (Some 0%nat) |}.
Definition d_ok : dcase := {| d_reg := REG; d_module := [[{| cr_code := (Num 200); cr_content := [{| c_media := [97;112;112;108;105;99;97;116;105;111;110;47;106;115;111;110]; c_type := (TClass [73;116;101;109]); c_binfmt := false |}] |}; {| cr_code := (Num 201); cr_content := [{| c_media := [97;112;112;108;105;99;97;116;105;111;110;47;106;115;111;110]; c_type := (TClass [73;116;101;109]); c_binfmt := false |}] |}; {| cr_code := (Num 202); cr_content := [] |}]]; d_op := 0%nat; d_resp := 0%nat; d_entry := (Some 0%nat) |}.
Definition d_ok2 : dcase := {| d_reg := REG; d_module := [[{| cr_code := (Num 200); cr_content := [{| c_media := [97;112;112;108;105;99;97;116;105;111;110;47;106;115;111;110]; c_type := (TClass [73;116;101;109]); c_binfmt := false |}] |}; {| cr_code := (Num 201); cr_content := [{| c_media := [97;112;112;108;105;99;97;116;105;111;110;47;106;115;111;110]; c_type := (TClass [73;116;101;109]); c_binfmt := false |}] |}; {| cr_code := (Num 202); cr_content := [] |}]]; d_op := 0%nat; d_resp := 1%nat; d_entry := (Some 0%nat) |}.
Definition d_ok3 : dcase := {| d_reg := REG; d_module := [[{| cr_code := (Num 200); cr_content := [{| c_media := [97;112;112;108;105;99;97;116;105;111;110;47;106;115;111;110]; c_type := (TClass [73;116;101;109]); c_binfmt := false |}] |}; {| cr_code := (Num 201); cr_content := [{| c_media := [97;112;112;108;105;99;97;116;105;111;110;47;106;115;111;110]; c_type := (TClass [73;116;101;109]); c_binfmt := false |}] |}; {| cr_code := (Num 202); cr_content := [] |}]]; d_op := 0%nat; d_resp := 2%nat; d_entry := None |}.
Definition d_switch : dcase := {| d_reg := REG; d_module := [[{| cr_code := (Num 200); cr_content := [{| c_media := [97;112;112;108;105;99;97;116;105;111;110;47;106;115;111;110]; c_type := (TClass [73;116;101;109]); c_binfmt := false |}; {| c_media := [116;101;120;116;47;112;108;97;105;110]; c_type := (TPrim PStr); c_binfmt := false |}] |}]]; d_op := 0%nat; d_resp := 0%nat; d_entry := (Some 1%nat) |}.

(* ---------- witnesses: each open finding's input fails exactly its own guard conjunct, and the property is false on it ---------- *)
Definition guard_bits (d : dcase) : list bool :=
  [guard_F05b d; guard_F05c d; guard_F05f d; guard_F05i d].

Theorem refuted_F05b : guard_bits d_F05b = [false; true; true; true]
  /\ the_path d_F05b = PCast /\ the_want d_F05b = WJsonTyped (TLib [100;97;116;101;116;105;109;101]) /\ C05_holds d_F05b = false.
Proof. repeat split; vm_compute; reflexivity. Qed.
(* F05c fixed for text/binary bodies that are the only kind of content of a response (primary or further 2xx) *)
Example fixed_F05c_text : c05_guard d_F05c_text = true /\ the_path d_F05c_text = PText /\ C05_holds d_F05c_text = true
  /\ c05_guard d_F05c_text2 = true /\ the_path d_F05c_text2 = PText /\ C05_holds d_F05c_text2 = true.
Proof. repeat split; vm_compute; reflexivity. Qed.
(* still open: e.g. a JSON 201 of an SSE operation is read with the SSE parser *)
Theorem refuted_F05c : guard_bits d_F05c = [true; false; true; false]
  /\ the_path d_F05c = PStreamSse /\ the_want d_F05c = WJsonTyped (TClass [73;116;101;109]) /\ C05_holds d_F05c = false.
Proof. repeat split; vm_compute; reflexivity. Qed.
(* F05f fixed for application/x-ndjson: read with iter_ndjson, one (structured) item per line *)
Example fixed_F05f_ndjson : c05_guard d_F05f_ndjson = true /\ the_path d_F05f_ndjson = PStreamNdjson true
  /\ the_want d_F05f_ndjson = WStreamLines /\ the_imported d_F05f_ndjson = true /\ C05_holds d_F05f_ndjson = true.
Proof. repeat split; vm_compute; reflexivity. Qed.
(* still open for the other record formats (json-seq, multipart/mixed) *)
Theorem refuted_F05f : guard_bits d_F05f = [true; true; false; true]
  /\ the_path d_F05f = PStreamSse /\ the_want d_F05f = WStreamItems /\ C05_holds d_F05f = false.
Proof. repeat split; vm_compute; reflexivity. Qed.
Theorem refuted_F05i : guard_bits d_F05i = [true; true; true; false]
  /\ the_annotation d_F05i = [73;116;101;109] /\ the_want d_F05i = WJsonTyped (TClass [67;97;116]) /\ C05_holds d_F05i = false.
Proof. repeat split; vm_compute; reflexivity. Qed.

(* regression: the witnesses of the fixed findings F05e (missing import) and F05g ("2XX" without a case) *)
Example fixed_F05e : c05_guard d_F05e = true /\ the_imported d_F05e = true /\ C05_holds d_F05e = true.
Proof. repeat split; vm_compute; reflexivity. Qed.
Example fixed_F05g : c05_guard d_F05g = true /\ (exists c, the_path d_F05g = PStructure c) /\ C05_holds d_F05g = true.
Proof. repeat split; try (vm_compute; reflexivity). eexists. vm_compute. reflexivity. Qed.

(* F05h fixed: a streaming operation with a further 2xx response no longer renders `return <value>`; the
   no-content 202 of the old witness ends the iteration (PEndIter), which under the stated reading delivers None *)
Definition d_F05h_202 : dcase :=
  {| d_reg := d_reg d_F05h; d_module := d_module d_F05h; d_op := 0%nat; d_resp := 1%nat; d_entry := None |}.
Example fixed_F05h : c05_guard d_F05h = true /\ C05_holds d_F05h = true
  /\ the_path d_F05h_202 = PEndIter /\ c05_guard d_F05h_202 = true /\ C05_holds d_F05h_202 = true.
Proof. repeat split; vm_compute; reflexivity. Qed.

Example guard_nonvacuous :
  c05_guard d_ok = true /\ C05_holds d_ok = true /\ c05_guard d_ok2 = true /\ C05_holds d_ok2 = true
  /\ c05_guard d_ok3 = true /\ the_path d_ok3 = PNone
  /\ c05_guard d_switch = true /\ the_path d_switch = PText /\ C05_holds d_switch = true.
Proof. repeat split; vm_compute; reflexivity. Qed.

(* ====================================================================================================== *)
(* General lemmas (any registry, any operation shape): which branch of the generated match handles a status, *)
(* and when the decode expression of that branch delivers what the declared response calls for.             *)
(* ====================================================================================================== *)
From PG Require Import Proofs.Dispatch.

(* the structure target is the declared type itself (not a sub-term cut out of the string) *)
Definition want_json (t : rty) : want := if needs_structure t then WJsonTyped t else WJsonRaw t.

(* T1: the JSON decode decision.  If the string heuristic agrees with the type's need for structuring, the
   rendered structure call targets the declared type, and the module imports structure_from_dict when needed,
   the expression delivers a value of the declared type. *)
Lemma json_path_delivers : forall reg t imported,
  heuristic_ok reg t = true ->
  (needs_structure t = true -> deser_direct reg t = true /\ imported = true) ->
  delivers imported (json_path reg t) (want_json t) = true.
Proof.
  intros reg t imported Hh Hd. unfold heuristic_ok in Hh. apply Bool.eqb_prop in Hh.
  unfold json_path, want_json. rewrite Hh. destruct (needs_structure t) eqn:En.
  - destruct (Hd eq_refl) as [Hdir ->]. unfold deser_direct in Hdir.
    destruct (deser_code reg (show t) s_rj) as [c|]; [|discriminate]. cbn [delivers andb]. exact Hdir.
  - reflexivity.
Qed.

(* T1': and when they disagree in the dangerous direction the property fails (this is finding F05b) *)
Lemma json_path_cast_fails : forall reg t imported,
  needs_structure t = true -> should_use_cattrs reg (show t) = false ->
  delivers imported (json_path reg t) (want_json t) = false.
Proof. intros reg t imported Hn Hs. unfold json_path, want_json. rewrite Hs, Hn. reflexivity. Qed.

(* T3/T4: which branch handles a status *)
Lemma handle_primary : forall reg o r n ct,
  cprocessed o = Some (r, n) ->
  handle reg o n ct = if is_none_ret (resolve o) then PNone else strategy_path reg (nd_of o) (pc_of o) (resolve o) ct.
Proof. intros reg o r n ct H. unfold handle. rewrite H, N.eqb_refl. reflexivity. Qed.

Lemma handle_secondary : forall reg o p n r m ct,
  cprocessed o = Some (p, n) -> m <> n ->
  find_status m (cothers o) = Some r -> lead2 m = true ->
  handle reg o m ct = secondary_path reg (nd_of o) (resolve o) ct r.
Proof.
  intros reg o p n r m ct Hp Hne Hf Hl. unfold handle. rewrite Hp.
  replace (n =? m) with false by (symmetry; apply N.eqb_neq; congruence).
  rewrite Hf. unfold find_status in Hf.
  pose proof (find_some _ _ Hf) as [_ Hc]. destruct (cr_code r) as [k| |s]; try discriminate.
  apply N.eqb_eq in Hc. subst k. rewrite Hl. reflexivity.
Qed.

(* F05g fixed: a success response declared under the range key "2XX" that is the operation's primary response
   handles every 2xx status that has no case of its own, with the response strategy *)
Lemma handle_wildcard_primary : forall reg o w st ct,
  cprocessed o = None -> find_status st (cothers o) = None ->
  wildcard_resp o = Some w -> is_strategy_resp o w = true -> 200 <= st < 300 ->
  handle reg o st ct = if is_none_ret (resolve o) then PNone else strategy_path reg (nd_of o) (pc_of o) (resolve o) ct.
Proof.
  intros reg o w st ct Hp Hf Hw Hs Hr. unfold handle. rewrite Hp, Hf, Hw, Hs.
  replace (in_range wildcard_lo wildcard_hi st) with true
    by (unfold in_range, wildcard_lo, wildcard_hi; lia).
  reflexivity.
Qed.

(* the strategy resolver and the handler pick the same primary response (three copies agree: C06_primary_agree) *)
Lemma cprocessed_cprimary : forall o r n, cprocessed o = Some (r, n) -> cprimary o = Some r.
Proof.
  intros o r n H. unfold cprocessed, processed_primary in H. unfold cprimary. rewrite primary_agree.
  destruct (primary_eu (map to_resp o)) as [p|]; [|discriminate].
  destruct (r_code p) as [k| |s]; try discriminate. destruct (lead2 k); [|discriminate].
  destruct (find (fun r0 => resp_eqb (to_resp r0) p) o) as [r'|]; [|discriminate].
  inversion H; subst. reflexivity.
Qed.

(* T5: a primary response without content returns None *)
Theorem primary_nocontent : forall reg o r n ct,
  cprocessed o = Some (r, n) -> cr_content r = [] ->
  handle reg o n ct = PNone /\ delivers (module_has_cattrs reg [o]) (handle reg o n ct) (ideal true r None) = true.
Proof.
  intros reg o r n ct Hp Hc. pose proof (cprocessed_cprimary _ _ _ Hp) as Hprim.
  assert (Hr : resolve o = mk_plain TNone) by (unfold resolve; rewrite Hprim, Hc; reflexivity).
  rewrite (handle_primary _ _ _ _ _ Hp), Hr. split; reflexivity.
Qed.

(* the text/binary accessor never fires for a response that has a JSON-like content entry *)
Lemma forallb_false_member : forall {A} (f : A -> bool) l x, In x l -> f x = false -> forallb f l = false.
Proof.
  intros A f l x Hin Hf. destruct (forallb f l) eqn:E; [|reflexivity]. rewrite forallb_forall in E. rewrite (E x Hin) in Hf. discriminate.
Qed.
Lemma raw_none_member : forall cs e t, In e cs ->
  is_binary_media (c_media e) = false -> prefixb p_text (c_media e) = false -> raw_accessor cs t = None.
Proof.
  intros cs e t Hin Hb Ht. unfold raw_accessor. destruct cs as [|c cs']; [destruct Hin|].
  destruct (negb (mem_str (show t) raw_body_types)); [reflexivity|].
  rewrite (forallb_false_member (fun x => prefixb p_text (c_media x)) _ e Hin Ht).
  rewrite (forallb_false_member (fun x => is_binary_media (c_media x)) _ e Hin Hb). reflexivity.
Qed.

(* T6: a primary response with a single non-stream JSON content entry *)
Theorem primary_single_json : forall reg o r n e ct imported,
  cprocessed o = Some (r, n) -> cr_content r = [e] -> is_stream r = false -> json_like (c_media e) = true ->
  str_eqb (show (c_type e)) s_None = false -> prefixb (s_Union ++ s_lb) (show (c_type e)) = false ->
  heuristic_ok reg (c_type e) = true ->
  (needs_structure (c_type e) = true -> deser_direct reg (c_type e) = true /\ imported = true) ->
  delivers imported (handle reg o n ct) (ideal true r (Some e)) = true.
Proof.
  intros reg o r n e ct imported Hp Hc Hs Hj Hnn Hnu Hh Hd.
  pose proof (cprocessed_cprimary _ _ _ Hp) as Hprim.
  assert (Hr : resolve o = mk_plain (c_type e)) by (unfold resolve; rewrite Hprim, Hc, Hs; reflexivity).
  rewrite (handle_primary _ _ _ _ _ Hp), Hr.
  unfold json_like in Hj. apply andb_true_iff in Hj. destruct Hj as [Hb Ht].
  apply negb_true_iff in Hb. apply negb_true_iff in Ht.
  assert (Hraw : raw_accessor (pc_of o) (c_type e) = None).
  { apply (raw_none_member _ e); auto. unfold pc_of. rewrite Hprim, Hc. left. reflexivity. }
  unfold is_none_ret, strategy_path. cbn [mk_plain st_ret st_streaming st_mapping]. rewrite Hnn, Hraw, Hnu.
  unfold ideal. rewrite Hs. cbn [andb]. rewrite Hb, Ht.
  apply (json_path_delivers reg (c_type e) imported Hh Hd).
Qed.

Lemma handler_schema_In : forall cs h, handler_schema cs = Some h -> In h cs.
Proof.
  intros cs h H. unfold handler_schema in H.
  destruct (find (fun e => str_eqb (c_media e) m_json_handler) cs) as [x|] eqn:F.
  - inversion H; subst. apply find_some in F. tauto.
  - destruct cs; [discriminate|]. inversion H; subst. left. reflexivity.
Qed.

(* T2: a secondary 2xx whose JSON entry is the one the handler looks at *)
Theorem secondary_json : forall reg o p n r m e ct imported,
  cprocessed o = Some (p, n) -> st_streaming (resolve o) = false -> m <> n -> find_status m (cothers o) = Some r -> lead2 m = true ->
  handler_schema (cr_content r) = Some e -> is_stream r = false -> json_like (c_media e) = true ->
  heuristic_ok reg (c_type e) = true ->
  (needs_structure (c_type e) = true -> deser_direct reg (c_type e) = true /\ imported = true) ->
  delivers imported (handle reg o m ct) (ideal false r (Some e)) = true.
Proof.
  intros reg o p n r m e ct imported Hp Hns Hne Hf Hl Hh Hs Hj Hok Hd.
  rewrite (handle_secondary _ _ _ _ _ _ _ Hp Hne Hf Hl). unfold secondary_path. rewrite Hns. rewrite Hh.
  unfold json_like in Hj. apply andb_true_iff in Hj. destruct Hj as [Hb Ht].
  apply negb_true_iff in Hb. apply negb_true_iff in Ht.
  rewrite (raw_none_member _ e (c_type e) (handler_schema_In _ _ Hh) Hb Ht).
  unfold ideal. rewrite Hs. cbn [andb]. rewrite Hb, Ht.
  apply (json_path_delivers reg (c_type e) imported Hok Hd).
Qed.

(* a secondary 2xx without content returns None *)
Theorem secondary_nocontent : forall reg o p n r m ct imported,
  cprocessed o = Some (p, n) -> st_streaming (resolve o) = false -> m <> n -> find_status m (cothers o) = Some r -> lead2 m = true ->
  cr_content r = [] ->
  delivers imported (handle reg o m ct) (ideal false r None) = true.
Proof.
  intros reg o p n r m ct imported Hp Hns Hne Hf Hl Hc.
  rewrite (handle_secondary _ _ _ _ _ _ _ Hp Hne Hf Hl). unfold secondary_path, handler_schema. rewrite Hns. rewrite Hc. reflexivity.
Qed.

(* F05c fixed part: a further 2xx response whose content types are all text/* and whose type is str/Any returns
   response.text (and likewise response.content for binary media) *)
Theorem secondary_text : forall reg o p n r m h ct imported,
  cprocessed o = Some (p, n) -> st_streaming (resolve o) = false -> m <> n -> find_status m (cothers o) = Some r -> lead2 m = true ->
  handler_schema (cr_content r) = Some h -> raw_accessor (cr_content r) (c_type h) = Some PText ->
  handle reg o m ct = PText /\ delivers imported (handle reg o m ct) WText = true.
Proof.
  intros reg o p n r m h ct imported Hp Hns Hne Hf Hl Hh Hraw.
  rewrite (handle_secondary _ _ _ _ _ _ _ Hp Hne Hf Hl). unfold secondary_path. rewrite Hns, Hh, Hraw. split; reflexivity.
Qed.

(* T7: streaming primaries *)
Theorem primary_stream_bytes : forall reg o r n ct imported,
  cprocessed o = Some (r, n) -> cr_content r <> [] -> is_stream r = true ->
  existsb (fun e => is_binary_media (c_media e)) (cr_content r) = true ->
  handle reg o n ct = PStreamBytes
  /\ forall e, delivers imported (handle reg o n ct) (ideal true r (Some e)) = true.
Proof.
  intros reg o r n ct imported Hp Hc Hs Hb. pose proof (cprocessed_cprimary _ _ _ Hp) as Hprim.
  assert (Hr : resolve o = resolve_streaming r).
  { unfold resolve. rewrite Hprim. destruct (cr_content r) as [|e [|e2 rest]]; [congruence| |]; rewrite Hs; reflexivity. }
  assert (Hh : handle reg o n ct = PStreamBytes).
  { rewrite (handle_primary _ _ _ _ _ Hp), Hr. unfold resolve_streaming. rewrite Hb. reflexivity. }
  split; [exact Hh|]. intro e. rewrite Hh. unfold ideal. rewrite Hs, Hb. reflexivity.
Qed.

Theorem primary_stream_events : forall reg o r n ct imported,
  cprocessed o = Some (r, n) -> cr_content r <> [] -> is_stream r = true ->
  existsb (fun e => is_binary_media (c_media e)) (cr_content r) = false ->
  existsb c_binfmt (cr_content r) = false ->
  existsb (fun e => contains_s w_event_stream (c_media e)) (cr_content r) = true ->
  handle reg o n ct = PStreamSse
  /\ forall e, delivers imported (handle reg o n ct) (ideal true r (Some e)) = true.
Proof.
  intros reg o r n ct imported Hp Hc Hs Hb Hf He. pose proof (cprocessed_cprimary _ _ _ Hp) as Hprim.
  assert (Hr : resolve o = resolve_streaming r).
  { unfold resolve. rewrite Hprim. destruct (cr_content r) as [|e [|e2 rest]]; [congruence| |]; rewrite Hs; reflexivity. }
  assert (Hh : handle reg o n ct = PStreamSse).
  { assert (Hnd : nd_of o = false) by (unfold nd_of, is_ndjson_resp; rewrite Hprim, He; apply andb_false_r).
    rewrite (handle_primary _ _ _ _ _ Hp), Hr, Hnd. unfold resolve_streaming. rewrite Hb, He. reflexivity. }
  split; [exact Hh|]. intro e. rewrite Hh. unfold ideal. rewrite Hs, Hb, Hf, He. reflexivity.
Qed.

(* record streams (ndjson, json-seq, multipart) are never delivered: whatever the handler does (finding F05f) *)
(* F05h fixed in general: a streaming method never contains a `return <value>` branch *)
Theorem module_syntax_always : forall ops, module_syntax_ok ops = true.
Proof.
  intro ops. unfold module_syntax_ok. apply forallb_forall. intros o _.
  unfold emits_yield, emits_value_return. destruct (st_streaming (resolve o)); cbn [negb andb];
    [rewrite andb_false_r | ]; reflexivity.
Qed.

(* ... and a further 2xx response without a body ends the iteration *)
Theorem secondary_nocontent_streaming : forall reg o p n r m ct imported,
  cprocessed o = Some (p, n) -> st_streaming (resolve o) = true -> m <> n ->
  find_status m (cothers o) = Some r -> lead2 m = true -> cr_content r = [] ->
  handle reg o m ct = PEndIter /\ delivers imported (handle reg o m ct) (ideal false r None) = true.
Proof.
  intros reg o p n r m ct imported Hp Hs Hne Hf Hl Hc.
  rewrite (handle_secondary _ _ _ _ _ _ _ Hp Hne Hf Hl). unfold secondary_path. rewrite Hs, Hc. split; reflexivity.
Qed.

Theorem stream_items_never : forall imported p, delivers imported p WStreamItems = false.
Proof. intros imported p. destruct p; reflexivity. Qed.

(* ====================================================================================================== *)
(* Discharging the heuristic hypotheses for the main case: a generated class (dataclass / enum / union).    *)
(* The string heuristics are followed character by character for an ARBITRARY identifier-like name.         *)
(* ====================================================================================================== *)
Lemma prefixb_In : forall p s, prefixb p s = true -> forall c, In c p -> In c s.
Proof.
  induction p as [|x p IH]; intros s H c Hc; [destruct Hc|].
  destruct s as [|y s]; simpl in H; [discriminate|].
  apply andb_true_iff in H. destruct H as [Hxy Hp]. apply N.eqb_eq in Hxy. subst y.
  destruct Hc as [->|Hc]; [left; reflexivity | right; eapply IH; eauto].
Qed.

Lemma find_from_In : forall s p f i k, find_from p s i f = Some k -> forall c, In c p -> In c s.
Proof.
  induction s as [|y s IH]; intros p f i k H c Hc.
  - destruct f; simpl in H; destruct (prefixb p []) eqn:E; try discriminate; eapply prefixb_In; eauto.
  - destruct f as [|f]; simpl in H; destruct (prefixb p (y :: s)) eqn:E; try discriminate;
      try (eapply prefixb_In; eauto; fail).
    right. eapply IH; eauto.
Qed.

Lemma contains_absent : forall p s c, In c p -> ~ In c s -> contains_s p s = false.
Proof.
  intros p s c Hc Hn. unfold contains_s, find_s. destruct (find_from p s 0 (length s)) eqn:E; [|reflexivity].
  exfalso. apply Hn. eapply find_from_In; eauto.
Qed.

Lemma prefix_absent : forall p s c, In c p -> ~ In c s -> prefixb p s = false.
Proof.
  intros p s c Hc Hn. destruct (prefixb p s) eqn:E; [|reflexivity]. exfalso. apply Hn. eapply prefixb_In; eauto.
Qed.

Lemma suffix_absent : forall p s c, In c p -> ~ In c s -> suffixb p s = false.
Proof.
  intros p s c Hc Hn. unfold suffixb. apply (prefix_absent _ _ c); [apply in_rev in Hc; exact Hc|].
  intro H. apply Hn. apply in_rev. exact H.
Qed.

Definition ident_like (n : str) : bool := forallb is_ident_char n.

Lemma ident_no_char : forall n c, ident_like n = true -> is_ident_char c = false -> ~ In c n.
Proof.
  intros n c H Hc Hin. unfold ident_like in H. rewrite forallb_forall in H. specialize (H c Hin). congruence.
Qed.

(* what the registry must say about a class name: absent, or an entry that is not a primitive/array alias *)
Definition class_entry_ok (reg : registry) (n : str) : bool :=
  match alookup n reg with
  | None => true
  | Some i => negb (is_type_alias i && (opt_str_eqb (si_type i) s_array
                     || match si_type i with Some ty => mem_str ty alias_prim_types | None => false end))
  end.
Definition class_name_ok (n : str) : bool :=
  ident_like n && first_upper n
  && negb (mem_str n builtin_names)
  && negb (mem_str n not_model_names_cattrs).

Lemma starts_any_absent : forall ps s c, (forall p, In p ps -> In c p) -> ~ In c s -> starts_any ps s = false.
Proof.
  intros ps s c Hps Hn. unfold starts_any. induction ps as [|p ps IH]; [reflexivity|]. cbn [existsb].
  rewrite (prefix_absent p s c); [|apply Hps; left; reflexivity | exact Hn]. apply IH. intros q Hq. apply Hps. right. exact Hq.
Qed.
(* every typing-construct prefix of the source table contains "[" (regenerated table, checked by computation) *)
Lemma construct_prefixes_bracket : forall p, In p construct_prefixes -> In 91 p.
Proof.
  assert (H : forallb (fun p => existsb (N.eqb 91) p) construct_prefixes = true) by (vm_compute; reflexivity).
  intros p Hp. rewrite forallb_forall in H. specialize (H p Hp). apply existsb_exists in H.
  destruct H as (x & Hx & E). apply N.eqb_eq in E. subst x. exact Hx.
Qed.

Lemma cut_bracket_ident : forall n, ident_like n = true -> cut_bracket n = n.
Proof.
  intros n H. unfold cut_bracket. replace (find_s s_lb n) with (@None nat); [reflexivity|].
  pose proof (contains_absent s_lb n 91 (or_introl eq_refl) (ident_no_char n 91 H eq_refl)) as C.
  unfold contains_s in C. destruct (find_s s_lb n); [discriminate | reflexivity].
Qed.

Theorem class_type_ok : forall reg n,
  class_name_ok n = true -> class_entry_ok reg n = true ->
  heuristic_ok reg (TClass n) = true /\ deser_direct reg (TClass n) = true.
Proof.
  intros reg n Hn Hr. unfold class_name_ok in Hn.
  apply andb_true_iff in Hn. destruct Hn as [Hn Hl2]. apply andb_true_iff in Hn. destruct Hn as [Hn Hb].
  apply andb_true_iff in Hn. destruct Hn as [Hid Hup].
  apply negb_true_iff in Hb. apply negb_true_iff in Hl2.
  assert (Nlb : ~ In 91 n) by (apply ident_no_char; auto).
  assert (Nsp : ~ In 32 n) by (apply ident_no_char; auto).
  assert (Nbar : ~ In 124 n) by (apply ident_no_char; auto).
  assert (Clb : contains_s s_lb n = false) by (apply (contains_absent _ _ 91); simpl; auto).
  assert (Hcut : cut_bracket n = n) by (apply cut_bracket_ident; exact Hid).
  assert (Hap : is_alias_to_primitive reg n = false /\ is_alias_to_array reg n = false).
  { unfold is_alias_to_primitive, is_alias_to_array. rewrite Hcut. unfold class_entry_ok in Hr.
    destruct (alookup n reg) as [i|]; [|split; reflexivity].
    apply negb_true_iff in Hr. destruct (is_type_alias i); [|split; reflexivity]. cbn [andb] in *.
    apply orb_false_iff in Hr. destruct Hr as [H1 H2]. rewrite H1, H2. split; reflexivity. }
  destruct Hap as [Hprim Harr].
  assert (Hpre : forall p, In 91 p -> prefixb p n = false) by (intros p Hp; apply (prefix_absent _ _ 91); auto).
  assert (Hsu : should_use_cattrs reg n = true).
  { unfold should_use_cattrs. rewrite Clb. cbn [andb]. rewrite Hb.
    rewrite (starts_any_absent construct_prefixes n 91 construct_prefixes_bracket Nlb).
    rewrite Hprim, Harr, Hup, Hl2. cbn [negb andb]. apply orb_true_r. }
  split.
  - unfold heuristic_ok. cbn [show needs_structure]. rewrite Hsu. reflexivity.
  - unfold deser_direct. cbn [show]. unfold deser_code. cbn [deser_code_fuel]. rewrite Harr.
    rewrite !Hpre by (apply in_or_app; right; left; reflexivity). cbn [orb].
    replace (contains_s s_bar_None n) with false
      by (symmetry; apply (contains_absent _ _ 32); [simpl; auto | exact Nsp]).
    replace (suffixb s_bar_None2 n) with false
      by (symmetry; apply (suffix_absent _ _ 124); [simpl; auto | exact Nbar]).
    cbn [orb]. rewrite Clb. cbn [andb]. rewrite str_eqb_refl. reflexivity.
Qed.

(* Hence, for EVERY generated class name and every registry that does not list it as a primitive/array alias:
   a primary single-JSON response of that class is structured into the class (given the cattrs import). *)
Corollary primary_single_json_class : forall reg o r n e ct cn,
  cprocessed o = Some (r, n) -> cr_content r = [e] -> is_stream r = false -> json_like (c_media e) = true ->
  c_type e = TClass cn -> class_name_ok cn = true -> class_entry_ok reg cn = true ->
  delivers true (handle reg o n ct) (ideal true r (Some e)) = true.
Proof.
  intros reg o r n e ct cn Hp Hc Hs Hj Ht Hn Hr.
  destruct (class_type_ok reg cn Hn Hr) as [Hh Hd].
  assert (Nlb : ~ In 91 cn).
  { apply ident_no_char; [|reflexivity]. unfold class_name_ok in Hn.
    repeat (apply andb_true_iff in Hn; destruct Hn as [Hn _]). exact Hn. }
  eapply primary_single_json; eauto; rewrite Ht; cbn [show].
  - unfold class_name_ok in Hn. apply andb_true_iff in Hn. destruct Hn as [Hn _].
    apply andb_true_iff in Hn. destruct Hn as [_ Hb]. apply negb_true_iff in Hb.
    destruct (str_eqb cn s_None) eqn:E; [|reflexivity]. apply str_eqb_eq in E. subst cn. vm_compute in Hb. discriminate.
  - apply (prefix_absent _ _ 91); [apply in_or_app; right; left; reflexivity | exact Nlb].
  - exact Hh.
  - intros _. split; [exact Hd | reflexivity].
Qed.

(* ====================================================================================================== *)
(* The decode layer is abstract (json.loads, cattrs, httpx): Section variables with the laws C16/C14/C03 are *)
(* about.  Given them, a delivering path returns a value of the declared type that re-encodes to the body.  *)
(* ====================================================================================================== *)
Section Decode.
  Variables (json value : Type).
  Variable conforms : rty -> json -> Prop.
  Variable has_type : value -> rty -> Prop.
  Variable structure : rty -> json -> option value.     (* structure_from_dict(data, T) *)
  Variable raw : json -> value.                          (* the parsed JSON itself, as cast() leaves it *)
  Variable unstructure : value -> json.
  Hypothesis structure_roundtrip : forall t j, conforms t j ->
    exists v, structure t j = Some v /\ has_type v t /\ unstructure v = j.
  Hypothesis raw_native : forall t j, needs_structure t = false -> conforms t j ->
    has_type (raw j) t /\ unstructure (raw j) = j.

  (* what the two JSON decode expressions compute for declared type t *)
  Definition exec_json (p : path) (t : rty) (j : json) : option value :=
    match p with
    | PCast => Some (raw j)
    | PStructure _ => structure t j       (* [delivers] pins the code to structure_from_dict(response.json(), show t) *)
    | _ => None
    end.

  Theorem delivered_json_is_typed : forall imported p t j,
    delivers imported p (want_json t) = true -> conforms t j ->
    exists v, exec_json p t j = Some v /\ has_type v t /\ unstructure v = j.
  Proof.
    intros imported p t j Hd Hc. unfold want_json in Hd. destruct (needs_structure t) eqn:En.
    - destruct p; try discriminate. cbn [exec_json]. apply structure_roundtrip. exact Hc.
    - destruct p; try discriminate.
      + cbn [exec_json]. exists (raw j). split; [reflexivity|]. apply raw_native; assumption.
      + cbn [exec_json]. apply structure_roundtrip. exact Hc.
  Qed.
End Decode.
