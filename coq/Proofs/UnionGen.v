(* C14, generator side — proofs about Model/UnionGen.v *)
From PG Require Import Lib.Strs Model.UnionGen.

(* ---------------- the collector ---------------- *)
Lemma nodup_str_NoDup : forall l, nodup_str l = true -> NoDup l.
Proof.
  induction l as [|x l IH]; intro H; simpl in H; constructor.
  - apply andb_true_iff in H. destruct H as [H _]. intro Hin. apply mem_str_In in Hin. rewrite Hin in H. discriminate.
  - apply IH. apply andb_true_iff in H. apply H.
Qed.

Lemma rev_value_unique : forall m d V,
  NoDup (map snd m) -> In (d, V) m -> rev_value m V = Some d.
Proof.
  induction m as [|[d0 v0] m IH]; intros d V Hnd Hin; simpl in *.
  - contradiction.
  - inversion Hnd as [|? ? Hnot Hnd']; subst. destruct Hin as [Hin|Hin].
    + inversion Hin; subst.
      assert (Hn : rev_value m V = None).
      { clear IH Hnd Hnd'. induction m as [|[d1 v1] m IHm]; simpl in *; [reflexivity|].
        rewrite IHm by (intro H; apply Hnot; right; exact H).
        destruct (str_eqb V v1) eqn:E; [|reflexivity].
        apply str_eqb_eq in E. subst. exfalso. apply Hnot. left. reflexivity. }
      rewrite Hn, str_eqb_refl. reflexivity.
    + rewrite (IH d V Hnd' Hin). reflexivity.
Qed.

Lemma collected_has : forall u d V,
  NoDup (map snd (du_mapping u)) -> In (d, V) (du_mapping u) -> In V (du_variants u) -> In d (collected u).
Proof.
  intros u d V Hnd Hin HV. unfold collected. apply in_flat_map. exists V. split; [exact HV|].
  rewrite (rev_value_unique _ _ _ Hnd Hin). left. reflexivity.
Qed.

Lemma fold_aset_other : forall (vals : list str) vs tab V,
  ~ In V vs -> alookup V (fold_left (fun t v => aset t v vals) vs tab) = alookup V tab.
Proof.
  induction vs as [|v vs IH]; intros tab V Hn; simpl.
  - reflexivity.
  - rewrite IH by (intro H; apply Hn; right; exact H).
    apply alookup_aset_other. intro E. apply Hn. left. symmetry. exact E.
Qed.

Lemma fold_aset_in : forall (vals : list str) vs tab V,
  In V vs -> alookup V (fold_left (fun t v => aset t v vals) vs tab) = Some vals.
Proof.
  induction vs as [|v vs IH]; intros tab V Hin; simpl.
  - contradiction.
  - destruct (in_dec str_eq_dec V vs) as [Hi|Hn].
    + apply IH. exact Hi.
    + rewrite fold_aset_other by exact Hn. destruct Hin as [E|Hi]; [subst; apply alookup_aset_same|contradiction].
Qed.

Lemma process_other : forall tab u V, ~ In V (du_variants u) -> alookup V (process tab u) = alookup V tab.
Proof.
  intros tab u V Hn. unfold process. destruct (collected u); [reflexivity|]. apply fold_aset_other. exact Hn.
Qed.

Lemma fold_process_other : forall us tab V,
  (forall u, In u us -> ~ In V (du_variants u)) ->
  alookup V (fold_left process us tab) = alookup V tab.
Proof.
  induction us as [|u us IH]; intros tab V H; simpl.
  - reflexivity.
  - rewrite IH by (intros u0 Hu0; apply H; right; exact Hu0).
    apply process_other. apply H. left. reflexivity.
Qed.

Lemma NoDup_app_r_notin : forall (a b : list str) x, NoDup (a ++ b) -> In x a -> ~ In x b.
Proof.
  induction a as [|y a IH]; intros b x Hnd Hin Hb; simpl in *.
  - contradiction.
  - inversion Hnd as [|? ? Hnot Hnd']; subst. destruct Hin as [E|Hin].
    + subst. apply Hnot. apply in_or_app. right. exact Hb.
    + apply (IH b x Hnd' Hin Hb).
Qed.

Lemma NoDup_app_tail : forall (a b : list str), NoDup (a ++ b) -> NoDup b.
Proof. induction a as [|y a IH]; intros b H; simpl in *; [exact H|]. inversion H; subst. apply IH. assumption. Qed.

(* Every discriminated union keeps decoding its own mapped payloads when no variant is shared between
   two discriminated unions (F14g) and no variant is the target of two values (F14h). *)
Theorem collect_partial : forall us,
  guard_F14g us = true -> guard_F14h us = true -> spec_collect us.
Proof.
  intros us Hg Hh u d V Hu Hm HV.
  destruct (in_split u us Hu) as [pre [post Hs]]. subst us.
  unfold guard_F14h in Hh. rewrite forallb_forall in Hh. pose proof (nodup_str_NoDup _ (Hh u Hu)) as Hinj.
  pose proof (collected_has u d V Hinj Hm HV) as Hd.
  unfold accepts, collect. rewrite fold_left_app. simpl.
  (* V is in no later union *)
  pose proof (nodup_str_NoDup _ Hg) as Hnd. rewrite flat_map_app in Hnd. simpl in Hnd.
  apply NoDup_app_tail in Hnd.
  rewrite fold_process_other.
  - unfold process. destruct (collected u) as [|c0 cs] eqn:Ec; [contradiction|].
    rewrite (fold_aset_in (c0 :: cs) (du_variants u) _ V HV). apply mem_str_In. exact Hd.
  - intros u' Hu' HV'. apply (NoDup_app_r_notin _ _ V Hnd HV). apply in_flat_map. exists u'. split; assumption.
Qed.

(* ---- witnesses ---- *)
Definition n_Cat : str := [67;97;116]. Definition n_Dog : str := [68;111;103]. Definition n_Fox : str := [70;111;120].
Definition v_cat : str := [99;97;116]. Definition v_dog : str := [100;111;103]. Definition v_fox : str := [102;111;120].
Definition v_kat : str := [107;97;116]. Definition v_kitty : str := [107;105;116;116;121].
Definition u_Pet := {| du_name := [80;101;116]; du_variants := [n_Cat; n_Dog]; du_mapping := [(v_cat, n_Cat); (v_dog, n_Dog)] |}.
Definition u_Zoo := {| du_name := [90;111;111]; du_variants := [n_Cat; n_Fox]; du_mapping := [(v_kat, n_Cat); (v_fox, n_Fox)] |}.

(* F14g: Cat is a variant of Pet and of Zoo: Cat.kind ends up typed with Zoo's enum {kat, fox}, so Pet's own
   payload kind="cat" is mapped to Cat and rejected there *)
Lemma refuted_F14g :
  guard_F14g [u_Pet; u_Zoo] = false /\ guard_F14h [u_Pet; u_Zoo] = true /\
  alookup n_Cat (collect [u_Pet; u_Zoo]) = Some [v_kat; v_fox] /\ ~ spec_collect [u_Pet; u_Zoo].
Proof.
  repeat split; try (vm_compute; reflexivity).
  intro H. specialize (H u_Pet v_cat n_Cat (or_introl eq_refl) (or_introl eq_refl) (or_introl eq_refl)).
  vm_compute in H. discriminate.
Qed.

(* F14h: two values for one variant: only the last reaches the enum *)
Definition u_Pet2 := {| du_name := [80;101;116]; du_variants := [n_Cat; n_Dog];
                        du_mapping := [(v_cat, n_Cat); (v_kitty, n_Cat); (v_dog, n_Dog)] |}.
Lemma refuted_F14h :
  guard_F14g [u_Pet2] = true /\ guard_F14h [u_Pet2] = false /\
  alookup n_Cat (collect [u_Pet2]) = Some [v_kitty; v_dog] /\ ~ spec_collect [u_Pet2].
Proof.
  repeat split; try (vm_compute; reflexivity).
  intro H. specialize (H u_Pet2 v_cat n_Cat (or_introl eq_refl) (or_introl eq_refl) (or_introl eq_refl)).
  vm_compute in H. discriminate.
Qed.

Example collect_guard_nonvacuous :
  guard_F14g [u_Pet; {| du_name := [90]; du_variants := [n_Fox]; du_mapping := [(v_fox, n_Fox)] |}] = true /\
  guard_F14h [u_Pet; {| du_name := [90]; du_variants := [n_Fox]; du_mapping := [(v_fox, n_Fox)] |}] = true.
Proof. split; vm_compute; reflexivity. Qed.

(* ---------------- the resolver: member order and de-dup ---------------- *)
Lemma in_dedup : forall l x, In x (dedup l) <-> In x l.
Proof.
  induction l as [|y l IH]; intro x; simpl; [tauto|]. split.
  - intros [E|H]; [left; exact E|]. apply filter_In in H. right. apply IH. apply H.
  - intros [E|H]; [left; exact E|]. destruct (str_eqb x y) eqn:Exy.
    + left. apply str_eqb_eq in Exy. symmetry. exact Exy.
    + right. apply filter_In. split; [apply IH; exact H|rewrite Exy; reflexivity].
Qed.

Lemma NoDup_filter : forall (f : str -> bool) l, NoDup l -> NoDup (filter f l).
Proof.
  induction l as [|y l IH]; intro H; simpl; [constructor|]. inversion H; subst.
  destruct (f y); [constructor; [intro Hin; apply filter_In in Hin; tauto|]|]; apply IH; assumption.
Qed.

Lemma NoDup_dedup : forall l, NoDup (dedup l).
Proof.
  induction l as [|y l IH]; simpl; constructor.
  - intro H. apply filter_In in H. destruct H as [_ H]. rewrite str_eqb_refl in H. discriminate.
  - apply NoDup_filter. exact IH.
Qed.

(* spec order: dedup keeps exactly the FIRST occurrence of every member, in place *)
Fixpoint first_occurrences (seen l : list str) : list str :=
  match l with
  | [] => []
  | x :: r => if mem_str x seen then first_occurrences seen r else x :: first_occurrences (x :: seen) r
  end.

Lemma dedup_first_occ_gen : forall l seen,
  filter (fun y => negb (mem_str y seen)) (dedup l) = first_occurrences seen l.
Proof.
  induction l as [|x l IH]; intro seen; simpl; [reflexivity|].
  destruct (mem_str x seen) eqn:Ex; simpl.
  - rewrite <- IH. clear IH. induction (dedup l) as [|z zs IHz]; simpl; [reflexivity|].
    destruct (str_eqb z x) eqn:Ezx; simpl.
    + apply str_eqb_eq in Ezx. subst z. rewrite Ex. simpl. exact IHz.
    + destruct (mem_str z seen); simpl; rewrite IHz; reflexivity.
  - f_equal. rewrite <- IH. clear IH. induction (dedup l) as [|z zs IHz]; simpl; [reflexivity|].
    destruct (str_eqb z x) eqn:Ezx; simpl.
    + exact IHz.
    + destruct (mem_str z seen); simpl; rewrite IHz; reflexivity.
Qed.

Theorem dedup_spec : forall l,
  dedup l = first_occurrences [] l /\ NoDup (dedup l) /\ (forall x, In x (dedup l) <-> In x l).
Proof.
  intro l. split; [|split; [apply NoDup_dedup|apply in_dedup]].
  rewrite <- dedup_first_occ_gen. simpl. induction (dedup l) as [|z zs IH]; simpl; [reflexivity|]. f_equal. exact IH.
Qed.

(* The emitted Union lists the variants in spec order (first occurrence of each), without duplicates,
   every variant present; a nullable union is that text followed by " | None". *)
Theorem resolve_union_spec : forall m1 m2 ms nullable,
  alias_type (m1 :: m2 :: ms) nullable
  = s_Union_open ++ join [44;32] (first_occurrences [] (m1 :: m2 :: ms)) ++ [93]
    ++ (if nullable then s_or_None else [])
  /\ NoDup (first_occurrences [] (m1 :: m2 :: ms))
  /\ (forall x, In x (first_occurrences [] (m1 :: m2 :: ms)) <-> In x (m1 :: m2 :: ms)).
Proof.
  intros m1 m2 ms nullable. destruct (dedup_spec (m1 :: m2 :: ms)) as [H1 [H2 H3]].
  rewrite <- H1. split; [|split; assumption].
  unfold alias_type, resolve_union. rewrite <- !app_assoc. reflexivity.
Qed.

(* the model with declared enums specialises to the plain-string model the theorems above are about *)
Lemma collected_o_nil : forall tab u, collected_o [] tab u = collected u.
Proof.
  intros tab u. unfold collected_o, collected. apply flat_map_ext. intro v.
  destruct (alookup v tab); reflexivity.
Qed.

Lemma fold_process_o_nil : forall us tab, fold_left (process_o []) us tab = fold_left process us tab.
Proof.
  induction us as [|u us IH]; intro tab; simpl; [reflexivity|].
  rewrite IH. f_equal. unfold process_o, process. rewrite collected_o_nil. reflexivity.
Qed.

Lemma collect_o_nil : forall us, collect_o [] us = collect us.
Proof. intro us. unfold collect_o, collect. apply fold_process_o_nil. Qed.

(* the seeded shape of round 3: Dog declares enum [dog; puppy], the mapping sends both to Dog: both stay accepted *)
Example own_enum_two_values :
  final_enum [(n_Dog, [v_dog; v_kitty])] [{| du_name := [80]; du_variants := [n_Dog; n_Cat];
      du_mapping := [(v_dog, n_Dog); (v_kitty, n_Dog); (v_cat, n_Cat)] |}] n_Dog = Some [v_dog; v_kitty; v_cat].
Proof. vm_compute. reflexivity. Qed.
