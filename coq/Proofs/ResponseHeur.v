(* C05 — the string heuristics followed character by character on `List[C]` and `C | None` for an ARBITRARY
   identifier-like class name C (in addition to plain C: Proofs/Response.v class_type_ok). *)
From PG Require Import Lib.Strs Model.Dispatch Model.Response Proofs.Dispatch Proofs.Response.
From Coq Require Import Lia ZifyBool Arith PeanoNat.

Lemma ident_not_space : forall c, is_ident_char c = true -> is_space c = false.
Proof.
  intros c H. unfold is_ident_char, is_alnum, is_alpha, is_upper, is_lower, is_digit in H. unfold is_space. lia.
Qed.
Lemma lstrip_ident : forall l, ident_like l = true -> lstrip l = l.
Proof.
  intros [|c r] H; [reflexivity|]. unfold ident_like in H. cbn [forallb] in H. apply andb_true_iff in H. destruct H as [Hc _].
  cbn [lstrip]. rewrite (ident_not_space c Hc). reflexivity.
Qed.
Lemma ident_rev : forall l, ident_like l = true -> ident_like (rev l) = true.
Proof.
  intros l H. unfold ident_like in *. apply forallb_forall. intros x Hx. rewrite forallb_forall in H. apply H. apply in_rev. exact Hx.
Qed.
Lemma strip_ident : forall l, ident_like l = true -> strip l = l.
Proof.
  intros l H. unfold strip. rewrite (lstrip_ident l H), (lstrip_ident (rev l) (ident_rev l H)). apply rev_involutive.
Qed.

Lemma firstn_length_app : forall {A} (l r : list A), firstn (length l) (l ++ r) = l.
Proof. intros A l r. induction l as [|x l IH]; [reflexivity|]. simpl. rewrite IH. reflexivity. Qed.

Lemma rfind_last : forall c s i best f, (length (s ++ [c]) <= f)%nat ->
  rfind_from [c] (s ++ [c]) i f best = Some (i + length s)%nat.
Proof.
  intros c. induction s as [|x s IH]; intros i best f Hf.
  - destruct f as [|f]; [simpl in Hf; lia|]. cbn [app rfind_from prefixb]. rewrite N.eqb_refl. cbn [andb].
    destruct f; cbn [rfind_from prefixb]; rewrite Nat.add_0_r; reflexivity.
  - destruct f as [|f]; [simpl in Hf; lia|]. cbn [app rfind_from]. rewrite IH by (simpl in Hf |- *; lia).
    f_equal. simpl. lia.
Qed.
Lemma rfind_s_last : forall c s, rfind_s [c] (s ++ [c]) = Some (length s).
Proof. intros c s. unfold rfind_s. rewrite rfind_last by lia. reflexivity. Qed.

(* ---------- List[C] ---------- *)
Definition s_List_lb : str := s_List ++ s_lb.
Theorem list_class_type_ok : forall reg n,
  class_name_ok n = true -> class_entry_ok reg n = true -> alookup s_List reg = None ->
  heuristic_ok reg (TList (TClass n)) = true /\ deser_direct reg (TList (TClass n)) = true.
Proof.
  intros reg n Hn Hr HL. pose proof Hn as Hn0. unfold class_name_ok in Hn.
  apply andb_true_iff in Hn. destruct Hn as [Hn Hl2]. apply andb_true_iff in Hn. destruct Hn as [Hn Hb].
  apply andb_true_iff in Hn. destruct Hn as [Hid Hup].
  apply negb_true_iff in Hb. apply negb_true_iff in Hl2.
  assert (Nlb : ~ In 91 n) by (apply ident_no_char; auto).
  assert (Nsp : ~ In 32 n) by (apply ident_no_char; auto).
  assert (Ndot : ~ In 46 n) by (apply ident_no_char; auto).
  set (t := show (TList (TClass n))).
  assert (Et : t = (s_List ++ s_lb ++ n) ++ [93]) by (unfold t; cbn [show]; unfold s_rb; rewrite !app_assoc; try reflexivity).
  assert (Ef : find_s s_lb t = Some 4%nat) by (unfold t; cbn [show]; reflexivity).
  assert (Erf : rfind_s s_rb t = Some (5 + length n)%nat).
  { rewrite Et. unfold s_rb. rewrite rfind_s_last. reflexivity. }
  assert (Eslice : slice t 5 (5 + length n) = n).
  { unfold slice. replace (5 + length n - 5)%nat with (length n) by lia. unfold t. cbn [show].
    change (skipn 5 (s_List ++ s_lb ++ n ++ s_rb)) with (n ++ s_rb). apply firstn_length_app. }
  assert (Ecut : cut_bracket t = s_List) by (unfold cut_bracket; rewrite Ef; unfold t; cbn [show]; reflexivity).
  assert (Hprim : is_alias_to_primitive reg t = false) by (unfold is_alias_to_primitive; rewrite Ecut, HL; reflexivity).
  assert (Harr : is_alias_to_array reg t = false) by (unfold is_alias_to_array; rewrite Ecut, HL; reflexivity).
  assert (Hclb : contains_s s_lb t = true) by (unfold contains_s; rewrite Ef; reflexivity).
  assert (Hcrb : contains_s s_rb t = true).
  { unfold contains_s, find_s. destruct (find_from s_rb t 0 (length t)) eqn:E; [reflexivity|].
    exfalso. clear - E Et. rewrite Et in E.
    assert (G : forall (s : str) i f, (length (s ++ [93%N]) <= f)%nat -> find_from [93] (s ++ [93]) i f <> None).
    { induction s as [|x s IH]; intros i f Hf.
      - cbn [app find_from prefixb]. rewrite N.eqb_refl. discriminate.
      - destruct f as [|f]; [simpl in Hf; lia|]. cbn [app find_from].
        destruct (prefixb [93] (x :: s ++ [93])); [discriminate|]. apply IH. simpl in Hf. lia. }
    eapply G; [|exact E]. lia. }
  assert (Hsu : should_use_cattrs reg t = true).
  { unfold should_use_cattrs. rewrite Hclb, Hcrb, Ef, Erf. cbn [andb]. rewrite Eslice.
    replace (contains_s s_comma_sp n) with false by (symmetry; apply (contains_absent _ _ 32); [simpl; auto | exact Nsp]).
    rewrite (strip_ident n Hid), Hb.
    rewrite (starts_any_absent construct_prefixes n 91 construct_prefixes_bracket Nlb).
    rewrite Hprim, Harr, Hup, Hl2. cbn [negb andb]. apply orb_true_r. }
  split.
  - unfold heuristic_ok. fold t. rewrite Hsu. reflexivity.
  - unfold deser_direct. fold t. unfold deser_code. cbn [deser_code_fuel]. rewrite Harr.
    replace (prefixb (s_List ++ s_lb) t) with true by (unfold t; cbn [show]; reflexivity).
    cbn [orb]. rewrite str_eqb_refl. reflexivity.
Qed.

(* ---------- C | None ---------- *)
Lemma prefixb_refl : forall p, prefixb p p = true.
Proof. induction p as [|x p IH]; [reflexivity|]. simpl. rewrite N.eqb_refl, IH. reflexivity. Qed.
Lemma prefixb_app_self : forall p r, prefixb p (p ++ r) = true.
Proof. induction p as [|x p IH]; intro r; [reflexivity|]. simpl. rewrite N.eqb_refl, IH. reflexivity. Qed.
Lemma find_from_unfold : forall p s i f,
  find_from p s i f = if prefixb p s then Some i else
                      match f, s with S f', _ :: s' => find_from p s' (S i) f' | _, _ => None end.
Proof. intros p s i f. destruct s; destruct f; reflexivity. Qed.
Lemma find_suffix_some : forall p (s : str) i f, (length (s ++ p) <= f)%nat -> find_from p (s ++ p) i f <> None.
Proof.
  intros p. induction s as [|x s IH]; intros i f Hf.
  - cbn [app]. rewrite find_from_unfold, prefixb_refl. discriminate.
  - destruct f as [|f]; [simpl in Hf; lia|]. cbn [app]. rewrite find_from_unfold.
    destruct (prefixb p (x :: s ++ p)); [discriminate|]. apply IH. simpl in Hf. lia.
Qed.
Lemma contains_suffix : forall p s, contains_s p (s ++ p) = true.
Proof.
  intros p s. unfold contains_s, find_s. destruct (find_from p (s ++ p) 0 (length (s ++ p))) eqn:E; [reflexivity|].
  exfalso. eapply find_suffix_some; [|exact E]. lia.
Qed.

Lemma replace_suffix : forall (n : str) f, ~ In 32 n -> (length n < f)%nat ->
  replace_fuel f s_bar_None [] (n ++ s_bar_None) = n.
Proof.
  induction n as [|x n IH]; intros f Hn Hf.
  - destruct f as [|f]; [lia|]. cbn [app replace_fuel]. rewrite prefixb_refl.
    change (skipn (length s_bar_None) s_bar_None) with (@nil N). destruct f; reflexivity.
  - destruct f as [|f]; [lia|]. cbn [app replace_fuel].
    assert (x <> 32) by (intro E; apply Hn; left; exact E).
    replace (prefixb s_bar_None (x :: n ++ s_bar_None)) with false
      by (unfold s_bar_None, L; cbn [prefixb]; replace (32 =? x) with false by (symmetry; apply N.eqb_neq; congruence); reflexivity).
    f_equal. apply IH; [intro H1; apply Hn; right; exact H1 | simpl in Hf; lia].
Qed.

Definition reg_keys_ident (reg : registry) : bool := forallb (fun kv => ident_like (fst kv)) reg.
Lemma alookup_nonident : forall reg s, reg_keys_ident reg = true -> In 32 s -> alookup s reg = None.
Proof.
  induction reg as [|[k v] reg IH]; intros s H Hs; [reflexivity|].
  unfold reg_keys_ident in H. cbn [forallb fst] in H. apply andb_true_iff in H. destruct H as [Hk H].
  cbn [alookup]. destruct (str_eqb s k) eqn:E.
  - exfalso. apply str_eqb_eq in E. subst k. exact (ident_no_char s 32 Hk eq_refl Hs).
  - apply IH; assumption.
Qed.
Lemma names_no_space : forall names s, forallb (fun b => negb (existsb (N.eqb 32) b)) names = true -> In 32 s -> mem_str s names = false.
Proof.
  intros names s H Hs. destruct (mem_str s names) eqn:E; [|reflexivity]. exfalso.
  apply mem_str_In in E. rewrite forallb_forall in H. specialize (H s E). apply negb_true_iff in H.
  assert (existsb (N.eqb 32) s = true); [|congruence]. apply existsb_exists. exists 32. split; [exact Hs | reflexivity].
Qed.

Theorem opt_class_type_ok : forall reg n,
  class_name_ok n = true -> reg_keys_ident reg = true ->
  heuristic_ok reg (TOpt (TClass n)) = true /\ deser_direct reg (TOpt (TClass n)) = true.
Proof.
  intros reg n Hn Hreg. unfold class_name_ok in Hn.
  apply andb_true_iff in Hn. destruct Hn as [Hn Hl2]. apply andb_true_iff in Hn. destruct Hn as [Hn Hb].
  apply andb_true_iff in Hn. destruct Hn as [Hid Hup].
  set (t := show (TOpt (TClass n))). assert (Et : t = n ++ s_bar_None) by reflexivity.
  assert (Nlit : forall c, ~ In c n -> ~ In c s_bar_None -> ~ In c t).
  { intros c H1 H2 H. rewrite Et in H. apply in_app_or in H. tauto. }
  assert (Nlb : ~ In 91 t) by (apply Nlit; [apply ident_no_char; auto | unfold s_bar_None, L; simpl; intuition discriminate]).
  assert (Ndot : ~ In 46 t) by (apply Nlit; [apply ident_no_char; auto | unfold s_bar_None, L; simpl; intuition discriminate]).
  assert (Nlbn : ~ In 91 n) by (apply ident_no_char; auto).
  assert (Nspn : ~ In 32 n) by (apply ident_no_char; auto).
  assert (Hsp : In 32 t) by (rewrite Et; apply in_or_app; right; left; reflexivity).
  assert (Clb : contains_s s_lb t = false) by (apply (contains_absent _ _ 91); [left; reflexivity | exact Nlb]).
  assert (Hcut : cut_bracket t = t).
  { unfold cut_bracket. unfold contains_s in Clb. destruct (find_s s_lb t); [discriminate | reflexivity]. }
  assert (Hlook : alookup t reg = None) by (apply alookup_nonident; assumption).
  assert (Hprim : is_alias_to_primitive reg t = false) by (unfold is_alias_to_primitive; rewrite Hcut, Hlook; reflexivity).
  assert (Harr : is_alias_to_array reg t = false) by (unfold is_alias_to_array; rewrite Hcut, Hlook; reflexivity).
  assert (Hup' : first_upper t = true).
  { destruct n as [|c n']; [discriminate|]. exact Hup. }
  assert (Hsu : should_use_cattrs reg t = true).
  { unfold should_use_cattrs. rewrite Clb. cbn [andb].
    rewrite (names_no_space builtin_names t) by (vm_compute; reflexivity || exact Hsp).
    rewrite (starts_any_absent construct_prefixes t 91 construct_prefixes_bracket Nlb).
    rewrite Hprim, Harr, Hup'.
    rewrite (names_no_space not_model_names_cattrs t) by (vm_compute; reflexivity || exact Hsp).
    cbn [negb andb]. apply orb_true_r. }
  split.
  - unfold heuristic_ok. fold t. rewrite Hsu. reflexivity.
  - unfold deser_direct. fold t. unfold deser_code. cbn [deser_code_fuel]. rewrite Harr.
    rewrite !(prefix_absent _ t 91) by (try exact Nlb; apply in_or_app; right; left; reflexivity). cbn [orb].
    replace (contains_s s_bar_None t) with true by (symmetry; rewrite Et; apply contains_suffix).
    cbn [orb]. unfold replace_all. rewrite Et.
    rewrite replace_suffix by (try exact Nspn; rewrite app_length; simpl; lia).
    rewrite (strip_ident n Hid).
    rewrite !(prefix_absent _ n 91) by (try exact Nlbn; apply in_or_app; right; left; reflexivity). cbn [orb].
    rewrite str_eqb_refl. apply orb_true_r.
Qed.
