(* C17 — proofs about Model/Transport.v *)
From PG Require Import Lib.Strs Model.Transport.

(* ---------- one value per case-insensitive name ---------- *)
Definition lkey (kv : str * str) : str := lower_str (fst kv).
Definition unique_ci (h : dict) : Prop := NoDup (map lkey h).

Lemma wire_values_none : forall h n, ~ In n (map lkey h) -> wire_values n h = [].
Proof.
  induction h as [|[k v] h IH]; intros n Hn; unfold wire_values in *; simpl in *.
  - reflexivity.
  - destruct (str_eqb (lower_str k) n) eqn:E.
    + apply str_eqb_eq in E. exfalso. apply Hn. left. exact E.
    + apply IH. intro H. apply Hn. right. exact H.
Qed.

Definition keepP (k : str) (kv : str * str) : bool := str_eqb (fst kv) k || negb (same_ci (fst kv) k).

Lemma filter_keys_incl : forall (P : str * str -> bool) h x, In x (map lkey (filter P h)) -> In x (map lkey h).
Proof.
  induction h as [|kv h IH]; intros x Hx; simpl in *; [exact Hx|].
  destruct (P kv); simpl in Hx.
  - destruct Hx as [Hx|Hx]; auto.
  - auto.
Qed.

Lemma unique_ci_filter : forall (P : str * str -> bool) h, unique_ci h -> unique_ci (filter P h).
Proof.
  unfold unique_ci. induction h as [|kv h IH]; intro H; simpl; [constructor|].
  inversion H as [|? ? Hn Hd]; subst. destruct (P kv); simpl.
  - constructor; [|apply IH; exact Hd]. intro Hin. apply Hn. eapply filter_keys_incl. exact Hin.
  - apply IH. exact Hd.
Qed.

(* in the filtered dict, a name equal to k modulo case IS k *)
Definition only_k (k : str) (f : dict) : Prop :=
  forall kv, In kv f -> lower_str (fst kv) = lower_str k -> fst kv = k.

Lemma only_k_filter : forall k h, only_k k (filter (keepP k) h).
Proof.
  intros k h kv Hin Hl. apply filter_In in Hin. destruct Hin as [_ HP]. unfold keepP, same_ci in HP.
  apply orb_true_iff in HP. destruct HP as [HP|HP].
  - apply str_eqb_eq in HP. exact HP.
  - rewrite Hl, str_eqb_refl in HP. discriminate.
Qed.

Lemma wire_values_filter_other : forall k h n, n <> lower_str k ->
  wire_values n (filter (keepP k) h) = wire_values n h.
Proof.
  intros k h n Hn. unfold wire_values. induction h as [|[k' v'] h IH]; simpl; [reflexivity|].
  unfold keepP at 1, same_ci. cbn [fst].
  destruct (str_eqb (lower_str k') n) eqn:E.
  - assert (Hk : str_eqb (lower_str k') (lower_str k) = false).
    { apply str_eqb_neq. apply str_eqb_eq in E. congruence. }
    rewrite Hk. rewrite orb_true_r. simpl. rewrite E. simpl. f_equal. exact IH.
  - destruct (str_eqb k' k || negb (str_eqb (lower_str k') (lower_str k))); simpl; rewrite ?E; exact IH.
Qed.

Lemma wire_values_aset_other : forall f k v n, n <> lower_str k ->
  wire_values n (aset f k v) = wire_values n f.
Proof.
  intros f k v n Hn. unfold wire_values. induction f as [|[k' v'] f IH]; simpl.
  - assert (E : str_eqb (lower_str k) n = false) by (apply str_eqb_neq; congruence).
    rewrite E. reflexivity.
  - destruct (str_eqb k k') eqn:Ek; simpl.
    + apply str_eqb_eq in Ek. subst k'.
      assert (E : str_eqb (lower_str k) n = false) by (apply str_eqb_neq; congruence).
      rewrite E. reflexivity.
    + destruct (str_eqb (lower_str k') n); simpl; rewrite IH; reflexivity.
Qed.

Lemma wire_values_aset_same : forall f k v, only_k k f -> unique_ci f ->
  wire_values (lower_str k) (aset f k v) = [v].
Proof.
  intros f k v. induction f as [|[k' v'] f IH]; intros Ho Hu; unfold wire_values in *; simpl.
  - rewrite str_eqb_refl. reflexivity.
  - inversion Hu as [|? ? Hn Hd]; subst.
    destruct (str_eqb k k') eqn:Ek; simpl.
    + apply str_eqb_eq in Ek. subst k'. rewrite str_eqb_refl. simpl. f_equal.
      apply (wire_values_none f (lower_str k)). exact Hn.
    + destruct (str_eqb (lower_str k') (lower_str k)) eqn:El.
      * apply str_eqb_eq in El. exfalso.
        assert (k' = k) by (apply (Ho (k', v')); [left; reflexivity | exact El]).
        subst. rewrite str_eqb_refl in Ek. discriminate.
      * apply IH; [|exact Hd]. intros kv Hin. apply Ho. right. exact Hin.
Qed.

Lemma aset_keys_ci : forall f k v x, In x (map lkey (aset f k v)) -> In x (map lkey f) \/ x = lower_str k.
Proof.
  induction f as [|[k' v'] f IH]; intros k v x H; simpl in *.
  - destruct H as [H|[]]. right. symmetry. exact H.
  - destruct (str_eqb k k') eqn:E; simpl in H.
    + destruct H as [H|H]; auto.
    + destruct H as [H|H]; auto. apply IH in H. tauto.
Qed.

Lemma unique_ci_aset : forall f k v, only_k k f -> unique_ci f -> unique_ci (aset f k v).
Proof.
  unfold unique_ci. induction f as [|[k' v'] f IH]; intros k v Ho Hu; simpl.
  - constructor; [intros [] | constructor].
  - inversion Hu as [|? ? Hn Hd]; subst. destruct (str_eqb k k') eqn:E; simpl.
    + exact Hu.
    + constructor.
      * intro Hin. apply aset_keys_ci in Hin. destruct Hin as [Hin|Hin]; [contradiction|].
        unfold lkey in Hin. cbn [fst] in Hin.
        assert (k' = k) by (apply (Ho (k', v')); [left; reflexivity | exact Hin]).
        subst. rewrite str_eqb_refl in E. discriminate.
      * apply IH; [|exact Hd]. intros kv Hin. apply Ho. right. exact Hin.
Qed.

Lemma wire_values_hset : forall h k v n, unique_ci h ->
  wire_values n (hset h k v) = if str_eqb n (lower_str k) then [v] else wire_values n h.
Proof.
  intros h k v n Hu. unfold hset. fold (keepP k).
  destruct (str_eqb n (lower_str k)) eqn:E.
  - apply str_eqb_eq in E. subst n. apply wire_values_aset_same.
    + apply only_k_filter.
    + apply unique_ci_filter. exact Hu.
  - apply str_eqb_neq in E. rewrite wire_values_aset_other by exact E.
    apply wire_values_filter_other. exact E.
Qed.

Lemma unique_ci_hset : forall h k v, unique_ci h -> unique_ci (hset h k v).
Proof.
  intros h k v Hu. unfold hset. fold (keepP k). apply unique_ci_aset.
  - apply only_k_filter.
  - apply unique_ci_filter. exact Hu.
Qed.

Lemma expect_values_ci_set : forall m k v n,
  expect_values n (ci_set m k v) = if str_eqb n (lower_str k) then [v] else expect_values n m.
Proof.
  intros m k v n. unfold expect_values, ci_set. destruct (str_eqb n (lower_str k)) eqn:E.
  - apply str_eqb_eq in E. subst n. rewrite alookup_aset_same. reflexivity.
  - apply str_eqb_neq in E. rewrite alookup_aset_other by exact E. reflexivity.
Qed.

(* ---------- invariant linking the implementation's headers to the documented ones ---------- *)
Definition Rel (h : dict) (m : dict) : Prop :=
  unique_ci h /\ forall n, wire_values n h = expect_values n m.

Lemma Rel_nil : Rel [] [].
Proof. split; [constructor | reflexivity]. Qed.

Lemma Rel_hset : forall h m k v, Rel h m -> Rel (hset h k v) (ci_set m k v).
Proof.
  intros h m k v [Hu Hv]. split.
  - apply unique_ci_hset. exact Hu.
  - intro n. rewrite wire_values_hset by exact Hu. rewrite expect_values_ci_set.
    destruct (str_eqb n (lower_str k)); [reflexivity | apply Hv].
Qed.

Lemma Rel_hupdate : forall d h m, Rel h m -> Rel (hupdate h d) (ci_update m d).
Proof.
  induction d as [|[k v] d IH]; intros h m HR; unfold hupdate, ci_update in *; simpl.
  - exact HR.
  - apply IH. apply Rel_hset. exact HR.
Qed.

Lemma Rel_values : forall h m n, Rel h m -> wire_values n h = expect_values n m.
Proof. intros h m n [_ H]. apply H. Qed.

(* ---------- plugins ---------- *)
Section PluginInd.
  Variable Q : plugin -> Prop.
  Hypothesis HB : forall t, Q (Bearer t).
  Hypothesis HH : forall h, Q (HeadersP h).
  Hypothesis HA : forall k l n, Q (ApiKey k l n).
  Hypothesis HO : forall t r, Q (OAuth2 t r).
  Hypothesis HC : forall ps, Forall Q ps -> Q (Composite ps).
  Fixpoint plugin_ind' (p : plugin) : Q p :=
    match p with
    | Bearer t => HB t
    | HeadersP h => HH h
    | ApiKey k l n => HA k l n
    | OAuth2 t r => HO t r
    | Composite ps =>
        HC ps ((fix go (l : list plugin) : Forall Q l :=
                  match l with
                  | [] => Forall_nil Q
                  | x :: r => Forall_cons x (plugin_ind' x) (go r)
                  end) ps)
    end.
End PluginInd.

Definition SRel (a : scratch) (e : expect) : Prop :=
  (exists h, sc_headers a = Some h /\ Rel h (e_headers e))
  /\ sc_params a = e_params e /\ sc_cookies a = e_cookies e.

Definition step_ok (p : plugin) : Prop :=
  forall a e, SRel a e ->
  match auth_step p a, spec_plugin p e with
  | (p1, Ok a'), (p2, Ok e') => p1 = p2 /\ SRel a' e'
  | (p1, Err), (p2, Err) => p1 = p2
  | _, _ => False
  end.

Lemma step_ok_all : forall p, step_ok p.
Proof.
  induction p using plugin_ind'; unfold step_ok; intros a e ((h0 & Hh & HR) & Hpa & Hco).
  - (* Bearer *)
    cbn [auth_step spec_plugin]. rewrite Hh. cbn [get_or_empty].
    split; [reflexivity|]. split; [|split; assumption].
    eexists. split; [reflexivity|]. cbn [e_headers]. apply Rel_hset. exact HR.
  - (* HeadersP *)
    cbn [auth_step spec_plugin]. rewrite Hh. cbn [get_or_empty].
    split; [reflexivity|]. split; [|split; assumption].
    eexists. split; [reflexivity|]. cbn [e_headers]. apply Rel_hupdate. exact HR.
  - (* ApiKey *)
    cbn [auth_step spec_plugin].
    destruct (str_eqb l s_header) eqn:E1.
    + rewrite Hh. cbn [get_or_empty].
      split; [reflexivity|]. split; [|split; assumption].
      eexists. split; [reflexivity|]. cbn [e_headers]. apply Rel_hset. exact HR.
    + destruct (str_eqb l s_query) eqn:E2.
      * split; [reflexivity|].
        split; [exists h0; split; assumption|]. cbn [sc_params e_params sc_cookies e_cookies].
        rewrite Hpa. split; [reflexivity | assumption].
      * destruct (str_eqb l s_cookie) eqn:E3.
        -- split; [reflexivity|].
           split; [exists h0; split; assumption|]. cbn [sc_params e_params sc_cookies e_cookies].
           rewrite Hco. split; [assumption | reflexivity].
        -- reflexivity.
  - (* OAuth2 *)
    cbn [auth_step spec_plugin]. rewrite Hh. cbn [get_or_empty].
    split; [reflexivity|]. split; [|split; assumption].
    eexists. split; [reflexivity|]. cbn [e_headers]. apply Rel_hset. exact HR.
  - (* Composite *)
    cbn [auth_step spec_plugin].
    set (goA := fix go (ps : list plugin) (a : scratch) : list plugin * result scratch :=
        match ps with
        | [] => ([], Ok a)
        | q :: qs =>
            match auth_step q a with
            | (q', Ok a') => let (qs', r) := go qs a' in (q' :: qs', r)
            | (q', Err) => (q' :: qs, Err)
            end
        end).
    set (goS := fix go (ps : list plugin) (e : expect) : list plugin * result expect :=
        match ps with
        | [] => ([], Ok e)
        | q :: qs =>
            match spec_plugin q e with
            | (q', Ok e') => let (qs', r) := go qs e' in (q' :: qs', r)
            | (q', Err) => (q' :: qs, Err)
            end
        end).
    assert (Hgo : forall ps, Forall step_ok ps -> forall a e, SRel a e ->
              match goA ps a, goS ps e with
              | (l1, Ok a'), (l2, Ok e') => l1 = l2 /\ SRel a' e'
              | (l1, Err), (l2, Err) => l1 = l2
              | _, _ => False
              end).
    { clear. induction ps as [|q qs IH]; intros HF a e HR.
      - simpl. split; [reflexivity | exact HR].
      - inversion HF as [|? ? Hq Hqs]; subst.
        specialize (Hq a e HR).
        cbn [goA goS]. fold goA. fold goS.
        destruct (auth_step q a) as [q1 [a1|]]; destruct (spec_plugin q e) as [q2 [e1|]]; try contradiction.
        + destruct Hq as (-> & HR1).
          specialize (IH Hqs a1 e1 HR1).
          destruct (goA qs a1) as [l1 [a2|]]; destruct (goS qs e1) as [l2 [e2|]]; try contradiction.
          * destruct IH as (-> & HR2). split; [reflexivity | exact HR2].
          * subst l2. reflexivity.
        + subst q2. reflexivity. }
    specialize (Hgo ps H a e (conj (ex_intro _ h0 (conj Hh HR)) (conj Hpa Hco))).
    destruct (goA ps a) as [l1 [a2|]]; destruct (goS ps e) as [l2 [e2|]]; try contradiction.
    + destruct Hgo as (-> & HR2). split; [reflexivity | exact HR2].
    + subst l2. reflexivity.
Qed.

(* ---------- one request ---------- *)
Definition agrees (t : transport) (kw : kwargs) : Prop :=
  match request t kw, spec_request t kw with
  | (t1, Ok w), (t2, Ok e) => t1 = t2 /\ meets w e kw
  | (t1, Err), (t2, Err) => t1 = t2
  | _, _ => False
  end.

Lemma request_agrees : forall t kw, agrees t kw.
Proof.
  intros t kw.
  assert (HR1 : Rel (match k_headers kw with
                     | Some h => hupdate (hupdate [] (truthy_dict (t_defaults t))) h
                     | None => hupdate [] (truthy_dict (t_defaults t)) end)
                    (ci_update (ci_update [] (truthy_dict (t_defaults t))) (truthy_dict (k_headers kw)))).
  { destruct (k_headers kw) as [h|]; cbn [truthy_dict].
    - apply Rel_hupdate. apply Rel_hupdate. apply Rel_nil.
    - simpl. apply Rel_hupdate. apply Rel_nil. }
  unfold agrees, request, spec_request, prepare_headers.
  destruct (t_auth t) as [a|] eqn:EA.
  - pose proof (step_ok_all a) as Hs. unfold step_ok in Hs.
    match goal with |- context [auth_step a ?s] => set (sc := s) end.
    match goal with |- context [spec_plugin a ?s] => set (ex := s) end.
    assert (HS : SRel sc ex).
    { split; [eexists; split; [reflexivity | exact HR1] | split; reflexivity]. }
    specialize (Hs sc ex HS).
    destruct (auth_step a sc) as [a1 [sc1|]]; destruct (spec_plugin a ex) as [a2 [e1|]]; try contradiction.
    + destruct Hs as (-> & ((h1 & Hh1 & HR2) & Hp & Hc)).
      split; [reflexivity|]. rewrite Hh1. unfold meets. cbn [w_headers w_params w_cookies w_body].
      repeat split; auto. intro n. eapply Rel_values. exact HR2.
    + subst a2. reflexivity.
  - destruct (t_bearer t) as [tok|] eqn:EB.
    + split; [reflexivity|].
      unfold meets. cbn [w_headers w_params w_cookies w_body e_headers e_params e_cookies].
      repeat split; auto. intro n. eapply Rel_values. apply Rel_hset. exact HR1.
    + split; [reflexivity|].
      unfold meets. cbn [w_headers w_params w_cookies w_body e_headers e_params e_cookies].
      repeat split; auto. intro n. eapply Rel_values. exact HR1.
Qed.

(* ---------- every history of requests through one transport ---------- *)
Fixpoint spec_session (t : transport) (kws : list kwargs) : list (result expect) :=
  match kws with
  | [] => []
  | kw :: r => let (t', e) := spec_request t kw in e :: spec_session t' r
  end.

Definition agrees1 (kw : kwargs) (w : result wire) (e : result expect) : Prop :=
  match w, e with
  | Ok w, Ok e => meets w e kw
  | Err, Err => True
  | _, _ => False
  end.

Fixpoint Forall3 {A B C} (R : A -> B -> C -> Prop) (a : list A) (b : list B) (c : list C) : Prop :=
  match a, b, c with
  | [], [], [] => True
  | x :: a', y :: b', z :: c' => R x y z /\ Forall3 R a' b' c'
  | _, _, _ => False
  end.

Theorem session_agrees : forall kws t, Forall3 agrees1 kws (session t kws) (spec_session t kws).
Proof.
  induction kws as [|kw kws IH]; intros t; cbn [session spec_session].
  - exact I.
  - pose proof (request_agrees t kw) as Hag. unfold agrees in Hag.
    destruct (request t kw) as [t1 w] eqn:E1. destruct (spec_request t kw) as [t2 e] eqn:E2.
    destruct w as [w|]; destruct e as [e|]; try contradiction.
    + destruct Hag as [-> Hm]. cbn [Forall3]. split; [exact Hm | apply IH].
    + subst t2. cbn [Forall3]. split; [exact I | apply IH].
Qed.

(* ---------- regression witnesses of the two repaired defects ---------- *)
Definition s_k : str := [107]. Definition s_v : str := [118].
Definition s_XD : str := [88;45;68]. Definition s_xd : str := [120;45;100].
Definition kw0 : kwargs := {| k_headers := None; k_params := None; k_cookies := None; k_body := [] |}.

(* formerly F17a: an API key configured for the query string reaches it *)
Example apikey_query_reaches_wire :
  snd (request {| t_defaults := None; t_auth := Some (ApiKey s_v s_query s_k); t_bearer := None |} kw0)
  = Ok {| w_headers := []; w_params := Some [(s_k, s_v)]; w_cookies := None; w_body := [] |}.
Proof. reflexivity. Qed.

(* formerly F17b: defaults {"X-D": v}, request {"x-d": k}: only the per-request field is sent *)
Definition t_F17b : transport :=
  {| t_defaults := Some [(s_XD, s_v)]; t_auth := None; t_bearer := None |}.
Definition kw_F17b : kwargs := {| k_headers := Some [(s_xd, s_k)]; k_params := None; k_cookies := None; k_body := [] |}.

Example case_variant_overrides :
  snd (request t_F17b kw_F17b)
  = Ok {| w_headers := [(s_xd, s_k)]; w_params := None; w_cookies := None; w_body := [] |}.
Proof. reflexivity. Qed.

(* a plugin set later wins over an earlier one and over defaults/request, whatever the case *)
Example composite_order_case_insensitive :
  option_map (fun w => on_wire_headers (w_headers w))
    (match snd (request {| t_defaults := Some [(s_xd, s_v)];
                           t_auth := Some (Composite [HeadersP [(s_XD, s_k)]; HeadersP [(s_xd, s_v ++ s_v)]]);
                           t_bearer := None |}
                        {| k_headers := Some [(s_XD, s_k ++ s_k)]; k_params := None; k_cookies := None; k_body := [] |})
     with Ok w => Some w | Err => None end)
  = Some [(s_xd, s_v ++ s_v)].
Proof. reflexivity. Qed.
