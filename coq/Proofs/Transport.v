(* C17 — proofs about Model/Transport.v *)
From PG Require Import Lib.Strs Model.Transport.

(* ---------- case-consistent pools ---------- *)
Lemma case_consistent_eqb : forall P a b,
  case_consistent P = true -> In a P -> In b P ->
  str_eqb a b = str_eqb (lower_str a) (lower_str b).
Proof.
  intros P a b HP Ha Hb. unfold case_consistent in HP.
  rewrite forallb_forall in HP. specialize (HP a Ha).
  rewrite forallb_forall in HP. specialize (HP b Hb).
  unfold case_ok2 in HP.
  destruct (str_eqb a b) eqn:E.
  - apply str_eqb_eq in E. subst. symmetry. apply str_eqb_refl.
  - destruct (str_eqb (lower_str a) (lower_str b)); simpl in HP; [discriminate | reflexivity].
Qed.

Lemma onwire_aset : forall P h k v,
  case_consistent P = true -> incl (map fst h) P -> In k P ->
  on_wire_headers (aset h k v) = aset (on_wire_headers h) (lower_str k) v.
Proof.
  intros P h k v HP. induction h as [|[k' v'] h IH]; intros Hin Hk; simpl.
  - reflexivity.
  - assert (Hk' : In k' P) by (apply Hin; simpl; auto).
    rewrite <- (case_consistent_eqb P k k' HP Hk Hk').
    destruct (str_eqb k k') eqn:E; simpl.
    + reflexivity.
    + f_equal. apply IH; auto. intros x Hx. apply Hin. simpl. auto.
Qed.

Lemma keys_aset : forall (h : dict) k v x,
  In x (map fst (aset h k v)) -> In x (map fst h) \/ x = k.
Proof.
  induction h as [|[k' v'] h IH]; intros k v x H; simpl in *.
  - destruct H as [H|[]]. auto.
  - destruct (str_eqb k k') eqn:E; simpl in H.
    + destruct H as [H|H]; auto.
    + destruct H as [H|H]; auto. apply IH in H. tauto.
Qed.

Lemma keys_aset_incl : forall P (h : dict) k v,
  incl (map fst h) P -> In k P -> incl (map fst (aset h k v)) P.
Proof.
  intros P h k v Hh Hk x Hx. apply keys_aset in Hx. destruct Hx as [Hx|Hx]; subst; auto.
Qed.

Lemma nodup_aset : forall (d : dict) k v, NoDup (map fst d) -> NoDup (map fst (aset d k v)).
Proof.
  induction d as [|[k' v'] d IH]; intros k v H; simpl.
  - constructor; [intros [] | constructor].
  - destruct (str_eqb k k') eqn:E; simpl.
    + exact H.
    + inversion H as [|? ? Hn Hd]; subst. constructor.
      * intro Hin. apply keys_aset in Hin. destruct Hin as [Hin|Hin]; [contradiction|].
        subst. rewrite str_eqb_refl in E. discriminate.
      * apply IH. exact Hd.
Qed.

(* ---------- invariant linking the implementation's headers to the documented ones ---------- *)
Definition Rel (P : list str) (h : dict) (m : dict) : Prop :=
  m = on_wire_headers h /\ incl (map fst h) P /\ NoDup (map fst m).

Lemma Rel_nil : forall P, Rel P [] [].
Proof. intro P. repeat split; simpl; [intros x [] | constructor]. Qed.

Lemma Rel_aset : forall P h m k v,
  case_consistent P = true -> In k P -> Rel P h m -> Rel P (aset h k v) (ci_set m k v).
Proof.
  intros P h m k v HP Hk (Hm & Hin & Hnd). subst m. unfold ci_set.
  repeat split.
  - symmetry. eapply onwire_aset; eauto.
  - apply keys_aset_incl; auto.
  - apply nodup_aset. exact Hnd.
Qed.

Lemma Rel_aupdate : forall P d h m,
  case_consistent P = true -> incl (map fst d) P -> Rel P h m ->
  Rel P (aupdate h d) (ci_update m d).
Proof.
  intros P d. induction d as [|[k v] d IH]; intros h m HP Hd HR; simpl.
  - exact HR.
  - unfold aupdate, ci_update in *. simpl. apply IH; auto.
    + intros x Hx. apply Hd. simpl. auto.
    + apply Rel_aset; auto. apply Hd. simpl. auto.
Qed.

(* one value per name on the wire, equal to the documented one *)
Lemma values_nodup : forall (m : dict) n,
  NoDup (map fst m) ->
  map snd (filter (fun kv => str_eqb (fst kv) n) m) = expect_values n m.
Proof.
  induction m as [|[k v] m IH]; intros n Hnd; unfold expect_values; simpl.
  - reflexivity.
  - inversion Hnd as [|? ? Hn Hd]; subst.
    destruct (str_eqb k n) eqn:E.
    + apply str_eqb_eq in E. subst k. rewrite str_eqb_refl. simpl. f_equal.
      assert (Hnone : alookup n m = None).
      { clear -Hn. induction m as [|[k' v'] m IH]; simpl; auto.
        destruct (str_eqb n k') eqn:E.
        - apply str_eqb_eq in E. subst. exfalso. apply Hn. simpl. auto.
        - apply IH. intro H. apply Hn. simpl. auto. }
      specialize (IH n Hd). unfold expect_values in IH. rewrite Hnone in IH. exact IH.
    + assert (E' : str_eqb n k = false).
      { apply str_eqb_neq. intro. subst. rewrite str_eqb_refl in E. discriminate. }
      rewrite E'. apply IH. exact Hd.
Qed.

Lemma wire_values_onwire : forall h n,
  wire_values n h = map snd (filter (fun kv => str_eqb (fst kv) n) (on_wire_headers h)).
Proof.
  induction h as [|[k v] h IH]; intro n; unfold wire_values in *; simpl.
  - reflexivity.
  - destruct (str_eqb (lower_str k) n); simpl; rewrite IH; reflexivity.
Qed.

Lemma Rel_values : forall P h m n, Rel P h m -> wire_values n h = expect_values n m.
Proof.
  intros P h m n (Hm & _ & Hnd). rewrite wire_values_onwire. subst m.
  apply values_nodup. exact Hnd.
Qed.

(* ---------- plugins ---------- *)
Section PluginInd.
  Variable Q : plugin -> Prop.
  Hypothesis HB : forall t, Q (Bearer t).
  Hypothesis HH : forall h, Q (HeadersP h).
  Hypothesis HA : forall k l n, Q (ApiKey k l n).
  Hypothesis HO : forall t r, Q (OAuth2 t r).
  Hypothesis HC : forall ps, Forall Q ps -> Q (Composite ps).
  Fixpoint plugin_ind' (p : plugin) : Q p :=
    match p with
    | Bearer t => HB t
    | HeadersP h => HH h
    | ApiKey k l n => HA k l n
    | OAuth2 t r => HO t r
    | Composite ps =>
        HC ps ((fix go (l : list plugin) : Forall Q l :=
                  match l with
                  | [] => Forall_nil Q
                  | x :: r => Forall_cons x (plugin_ind' x) (go r)
                  end) ps)
    end.
End PluginInd.

Definition SRel (P : list str) (a : scratch) (e : expect) : Prop :=
  (exists h, sc_headers a = Some h /\ Rel P h (e_headers e))
  /\ sc_params a = e_params e /\ sc_cookies a = e_cookies e.

Definition step_ok (P : list str) (p : plugin) : Prop :=
  forall a e, incl (plugin_names p) P -> SRel P a e ->
  match auth_step p a, spec_plugin p e with
  | (p1, Ok a'), (p2, Ok e') => p1 = p2 /\ SRel P a' e' /\ plugin_names p1 = plugin_names p
  | (p1, Err), (p2, Err) => p1 = p2 /\ plugin_names p1 = plugin_names p
  | _, _ => False
  end.

Lemma in_Auth : forall P, incl [s_Authorization] P -> In s_Authorization P.
Proof. intros P H. apply H. simpl. auto. Qed.

Lemma step_ok_all : forall P, case_consistent P = true -> forall p, step_ok P p.
Proof.
  intros P HP. induction p using plugin_ind'; unfold step_ok; intros a e Hn ((h0 & Hh & HR) & Hpa & Hco).
  - (* Bearer *)
    cbn [auth_step spec_plugin]. rewrite Hh. cbn [get_or_empty].
    split; [reflexivity|]. split; [|reflexivity]. split; [|split; assumption].
    exists (aset h0 s_Authorization (s_Bearer_sp ++ t)). split; [reflexivity|].
    cbn [e_headers]. apply Rel_aset; auto. apply in_Auth. exact Hn.
  - (* HeadersP *)
    cbn [auth_step spec_plugin]. rewrite Hh. cbn [get_or_empty].
    split; [reflexivity|]. split; [|reflexivity]. split; [|split; assumption].
    exists (aupdate h0 h). split; [reflexivity|].
    cbn [e_headers]. apply Rel_aupdate; auto.
  - (* ApiKey *)
    cbn [auth_step spec_plugin]. cbn [plugin_names] in Hn.
    destruct (str_eqb l s_header) eqn:E1.
    + rewrite Hh. cbn [get_or_empty].
      split; [reflexivity|]. split; [|cbn [plugin_names]; rewrite E1; reflexivity].
      split; [|split; assumption].
      exists (aset h0 n k). split; [reflexivity|]. cbn [e_headers]. apply Rel_aset; auto.
      apply Hn. simpl. auto.
    + destruct (str_eqb l s_query) eqn:E2.
      * split; [reflexivity|]. split; [|cbn [plugin_names]; rewrite E1; reflexivity].
        split; [exists h0; split; assumption|]. cbn [sc_params e_params sc_cookies e_cookies].
        rewrite Hpa. split; [reflexivity | assumption].
      * destruct (str_eqb l s_cookie) eqn:E3.
        -- split; [reflexivity|]. split; [|cbn [plugin_names]; rewrite E1; reflexivity].
           split; [exists h0; split; assumption|]. cbn [sc_params e_params sc_cookies e_cookies].
           rewrite Hco. split; [assumption | reflexivity].
        -- split; [reflexivity|]. cbn [plugin_names]. rewrite E1. reflexivity.
  - (* OAuth2 *)
    cbn [auth_step spec_plugin]. rewrite Hh. cbn [get_or_empty].
    split; [reflexivity|]. split; [|reflexivity]. split; [|split; assumption].
    eexists. split; [reflexivity|].
    cbn [e_headers]. apply Rel_aset; auto. apply in_Auth. exact Hn.
  - (* Composite *)
    cbn [auth_step spec_plugin].
    set (goA := fix go (ps : list plugin) (a : scratch) : list plugin * result scratch :=
        match ps with
        | [] => ([], Ok a)
        | q :: qs =>
            match auth_step q a with
            | (q', Ok a') => let (qs', r) := go qs a' in (q' :: qs', r)
            | (q', Err) => (q' :: qs, Err)
            end
        end).
    set (goS := fix go (ps : list plugin) (e : expect) : list plugin * result expect :=
        match ps with
        | [] => ([], Ok e)
        | q :: qs =>
            match spec_plugin q e with
            | (q', Ok e') => let (qs', r) := go qs e' in (q' :: qs', r)
            | (q', Err) => (q' :: qs, Err)
            end
        end).
    assert (Hgo : forall ps, Forall (step_ok P) ps -> forall a e,
              incl (flat_map plugin_names ps) P -> SRel P a e ->
              match goA ps a, goS ps e with
              | (l1, Ok a'), (l2, Ok e') =>
                  l1 = l2 /\ SRel P a' e' /\ flat_map plugin_names l1 = flat_map plugin_names ps
              | (l1, Err), (l2, Err) =>
                  l1 = l2 /\ flat_map plugin_names l1 = flat_map plugin_names ps
              | _, _ => False
              end).
    { clear. induction ps as [|q qs IH]; intros HF a e Hn HR.
      - simpl. split; [reflexivity|]. split; [exact HR | reflexivity].
      - inversion HF as [|? ? Hq Hqs]; subst.
        cbn [flat_map] in Hn.
        assert (Hn1 : incl (plugin_names q) P) by (intros x Hx; apply Hn; apply in_or_app; auto).
        assert (Hn2 : incl (flat_map plugin_names qs) P) by (intros x Hx; apply Hn; apply in_or_app; auto).
        specialize (Hq a e Hn1 HR).
        cbn [goA goS]. fold goA. fold goS.
        destruct (auth_step q a) as [q1 [a1|]]; destruct (spec_plugin q e) as [q2 [e1|]]; try contradiction.
        + destruct Hq as (-> & HR1 & Hnm).
          specialize (IH Hqs a1 e1 Hn2 HR1).
          destruct (goA qs a1) as [l1 [a2|]]; destruct (goS qs e1) as [l2 [e2|]]; try contradiction.
          * destruct IH as (-> & HR2 & Hnm2).
            split; [reflexivity|]. split; [assumption|]. cbn [flat_map]. rewrite Hnm, Hnm2. reflexivity.
          * destruct IH as (-> & Hnm2). split; [reflexivity|].
            cbn [flat_map]. rewrite Hnm, Hnm2. reflexivity.
        + destruct Hq as (-> & Hnm). split; [reflexivity|].
          cbn [flat_map]. rewrite Hnm. reflexivity. }
    cbn [plugin_names] in Hn.
    specialize (Hgo ps H a e Hn (conj (ex_intro _ h0 (conj Hh HR)) (conj Hpa Hco))).
    destruct (goA ps a) as [l1 [a2|]]; destruct (goS ps e) as [l2 [e2|]]; try contradiction.
    + destruct Hgo as (-> & HR2 & Hnm2). repeat split; auto; apply HR2.
    + destruct Hgo as (-> & Hnm2). repeat split; auto.
Qed.

(* ---------- one request ---------- *)
Definition guard (t : transport) (kw : kwargs) : bool := guard_F17b t kw.

Definition agrees (t : transport) (kw : kwargs) : Prop :=
  match request t kw, spec_request t kw with
  | (t1, Ok w), (t2, Ok e) => t1 = t2 /\ meets w e kw
  | (t1, Err), (t2, Err) => t1 = t2
  | _, _ => False
  end.

Lemma request_agrees : forall t kw, guard t kw = true ->
  agrees t kw /\ (forall kw', guard (fst (request t kw)) kw' = guard t kw').
Proof.
  intros t kw Hb. unfold guard in *.
  unfold guard_F17b in Hb. set (P := all_names t kw) in *.
  assert (HinD : incl (map fst (truthy_dict (t_defaults t))) P).
  { intros x Hx. unfold P, all_names. apply in_or_app. auto. }
  assert (HinK : incl (map fst (truthy_dict (k_headers kw))) P).
  { intros x Hx. unfold P, all_names. apply in_or_app. right. apply in_or_app. auto. }
  assert (HR1 : Rel P (match k_headers kw with
                       | Some h => aupdate (aupdate [] (truthy_dict (t_defaults t))) h
                       | None => aupdate [] (truthy_dict (t_defaults t)) end)
                      (ci_update (ci_update [] (truthy_dict (t_defaults t))) (truthy_dict (k_headers kw)))).
  { destruct (k_headers kw) as [h|]; cbn [truthy_dict] in *.
    - apply Rel_aupdate; auto. apply Rel_aupdate; auto. apply Rel_nil.
    - simpl. apply Rel_aupdate; auto. apply Rel_nil. }
  unfold agrees, request, spec_request, prepare_headers.
  destruct (t_auth t) as [a|] eqn:EA.
  - assert (HinA : incl (plugin_names a) P).
    { intros x Hx. unfold P, all_names. rewrite EA. apply in_or_app. right. apply in_or_app. auto. }
    pose proof (step_ok_all P Hb a) as Hs. unfold step_ok in Hs.
    match goal with |- context [auth_step a ?s] => set (sc := s) end.
    match goal with |- context [spec_plugin a ?s] => set (ex := s) end.
    specialize (Hs sc ex HinA).
    assert (HS : SRel P sc ex).
    { split; [eexists; split; [reflexivity | exact HR1] | split; reflexivity]. }
    specialize (Hs HS).
    destruct (auth_step a sc) as [a1 [sc1|]]; destruct (spec_plugin a ex) as [a2 [e1|]]; try contradiction.
    + destruct Hs as (-> & ((h1 & Hh1 & HR2) & Hp & Hc) & Hnm). split.
      * split; [reflexivity|]. rewrite Hh1. unfold meets. cbn [w_headers w_params w_cookies w_body].
        repeat split; auto.
        intro n. eapply Rel_values. exact HR2.
      * intro kw'. unfold guard_F17b, all_names. cbn [fst t_auth t_defaults t_bearer].
        rewrite EA, Hnm. reflexivity.
    + destruct Hs as (-> & Hnm). split; [reflexivity|].
      intro kw'. unfold guard_F17b, all_names. cbn [fst t_auth t_defaults t_bearer].
      rewrite EA, Hnm. reflexivity.
  - destruct (t_bearer t) as [tok|] eqn:EB.
    + split; [|intro; reflexivity]. split; [reflexivity|].
      unfold meets. cbn [w_headers w_params w_cookies w_body e_headers e_params e_cookies].
      repeat split; auto. intro n. eapply Rel_values. apply Rel_aset; eauto.
      unfold P, all_names. rewrite EA, EB. apply in_or_app. right. apply in_or_app. right. simpl. auto.
    + split; [|intro; reflexivity]. split; [reflexivity|].
      unfold meets. cbn [w_headers w_params w_cookies w_body e_headers e_params e_cookies].
      repeat split; auto. intro n. eapply Rel_values. exact HR1.
Qed.

(* ---------- every history of requests through one transport ---------- *)
Fixpoint spec_session (t : transport) (kws : list kwargs) : list (result expect) :=
  match kws with
  | [] => []
  | kw :: r => let (t', e) := spec_request t kw in e :: spec_session t' r
  end.

Definition agrees1 (kw : kwargs) (w : result wire) (e : result expect) : Prop :=
  match w, e with
  | Ok w, Ok e => meets w e kw
  | Err, Err => True
  | _, _ => False
  end.

Fixpoint Forall3 {A B C} (R : A -> B -> C -> Prop) (a : list A) (b : list B) (c : list C) : Prop :=
  match a, b, c with
  | [], [], [] => True
  | x :: a', y :: b', z :: c' => R x y z /\ Forall3 R a' b' c'
  | _, _, _ => False
  end.

Theorem session_agrees : forall kws t,
  (forall kw, In kw kws -> guard t kw = true) ->
  Forall3 agrees1 kws (session t kws) (spec_session t kws).
Proof.
  induction kws as [|kw kws IH]; intros t Hg; cbn [session spec_session].
  - exact I.
  - pose proof (request_agrees t kw (Hg kw (or_introl eq_refl))) as [Hag Hinv].
    unfold agrees in Hag.
    destruct (request t kw) as [t1 w] eqn:E1. destruct (spec_request t kw) as [t2 e] eqn:E2.
    cbn [fst] in Hinv.
    destruct w as [w|]; destruct e as [e|]; try contradiction.
    + destruct Hag as [-> Hm]. cbn [Forall3]. split; [exact Hm|].
      apply IH. intros kw' Hin. rewrite Hinv. apply Hg. right. exact Hin.
    + subst t2. cbn [Forall3]. split; [exact I|].
      apply IH. intros kw' Hin. rewrite Hinv. apply Hg. right. exact Hin.
Qed.

(* ---------- the full statement is false of the faithful model: witnesses ---------- *)
Definition s_k : str := [107]. Definition s_v : str := [118].
Definition s_XD : str := [88;45;68]. Definition s_xd : str := [120;45;100].

Definition kw0 : kwargs := {| k_headers := None; k_params := None; k_cookies := None; k_body := [] |}.

(* formerly finding F17a (fixed in /repo): an API key configured for the query string reaches it *)
Example apikey_query_reaches_wire :
  snd (request {| t_defaults := None; t_auth := Some (ApiKey s_v s_query s_k); t_bearer := None |} kw0)
  = Ok {| w_headers := []; w_params := Some [(s_k, s_v)]; w_cookies := None; w_body := [] |}.
Proof. reflexivity. Qed.

(* F17b: defaults {"X-D": v} and request {"x-d": k}: both fields are sent *)
Definition t_F17b : transport :=
  {| t_defaults := Some [(s_XD, s_v)]; t_auth := None; t_bearer := None |}.
Definition kw_F17b : kwargs := {| k_headers := Some [(s_xd, s_k)]; k_params := None; k_cookies := None; k_body := [] |}.

Lemma refuted_F17b : guard_F17b t_F17b kw_F17b = false /\ ~ agrees t_F17b kw_F17b.
Proof.
  split; [reflexivity|].
  unfold agrees. cbn. intros [_ (H & _)]. specialize (H s_xd). vm_compute in H. discriminate.
Qed.

(* non-vacuity: a composite of all header-style plugins with refresh meets the guard *)
Example guard_nonvacuous :
  guard {| t_defaults := Some [(s_XD, s_v)];
           t_auth := Some (Composite [Bearer s_k; HeadersP [(s_XD, s_k)]; ApiKey s_v s_header s_k;
                                      ApiKey s_v s_query s_k; ApiKey s_v s_cookie s_k;
                                      OAuth2 s_k (Some [(s_k, s_v)])]);
           t_bearer := Some s_v |}
        {| k_headers := Some [(s_XD, s_k)]; k_params := Some [(s_k, s_v)]; k_cookies := None; k_body := s_v |} = true.
Proof. reflexivity. Qed.
