(* C20 — proofs about the name sanitisers (Model/Names.v). *)
From PG Require Import Lib.Strs Gen.Tables Gen.T_C20 Model.Names.

(* ---------- witnesses of the findings (replayed on the implementation by the corpus) ---------- *)
Definition w_none : str := [110;111;110;101].        (* "none" *)
Definition w_dollar : str := [36].                   (* "$" *)
Definition w_1st : str := [49;115;116].              (* "1st" *)
Definition w_class : str := [99;108;97;115;115].     (* "class" *)
Definition w_x2 : str := [120;178].                  (* "x²" *)
Definition w_a_nl : str := [97;10].                  (* "a\n" *)

Lemma refuted_F20a : guard_F20a w_none = false /\ valid_name (class_name w_none) = false.
Proof. split; vm_compute; reflexivity. Qed.
Lemma refuted_F20b : has_alnum w_dollar = false /\ valid_name (method_name w_dollar) = false.
Proof. split; vm_compute; reflexivity. Qed.
