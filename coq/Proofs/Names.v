(* C20 — proofs about the name sanitisers (Model/Names.v). *)
From Coq Require Import Lia ZifyBool.
From PG Require Import Lib.Strs Gen.Tables Gen.T_C20 Model.Names.

(* ---------- witnesses of the findings (replayed on the implementation by the corpus) ---------- *)
Definition w_none : str := [110;111;110;101].        (* "none" *)
Definition w_dollar : str := [36].                   (* "$" *)
Definition w_1st : str := [49;115;116].              (* "1st" *)
Definition w_class : str := [99;108;97;115;115].     (* "class" *)
Definition w_x2 : str := [120;178].                  (* "x²" *)
Definition w_a_nl : str := [97;10].                  (* "a\n" *)

(* regression examples: the witnesses of the fixed findings F20a, F20b, F20c, F20g, F20i now meet the spec *)
Lemma fixed_F20a : valid_name (class_name w_none) = true /\ class_name w_none = [78;111;110;101;95].   (* None_ *)
Proof. split; vm_compute; reflexivity. Qed.
Lemma fixed_F20b : method_name w_dollar = s_unnamed /\ valid_name (method_name w_dollar) = true.
Proof. split; vm_compute; reflexivity. Qed.
Lemma fixed_F20c : forall u_word u_lower u_isdigit u_ign u_cased,
  module_name u_word u_lower u_isdigit u_ign u_cased w_dollar = s_unnamed /\ valid_name s_unnamed = true.
Proof. intros. split; vm_compute; reflexivity. Qed.
Lemma fixed_F20g : forall u_word u_lower u_ign u_cased,
  tag_attr_name u_word u_lower u_ign u_cased w_class = w_class ++ [95]
  /\ valid_name (tag_attr_name u_word u_lower u_ign u_cased w_class) = true
  /\ tag_attr_name u_word u_lower u_ign u_cased w_dollar = s_unnamed.
Proof. intros. repeat split; vm_compute; reflexivity. Qed.
Lemma fixed_F20i : is_valid_python_identifier w_a_nl = false.
Proof. vm_compute. reflexivity. Qed.

(* still open *)
Lemma refuted_F20d : forall u_word u_lower u_title u_ign u_cased,
  first_alnum_not_digit w_1st = false
  /\ is_ident (tag_attr_name u_word u_lower u_ign u_cased w_1st) = false
  /\ is_ident (tag_class_name u_word u_lower u_title u_ign u_cased w_1st) = false.
Proof. intros. repeat split; vm_compute; reflexivity. Qed.
(* U+00B2 SUPERSCRIPT TWO / U+00BD ONE HALF: Python's re says \w, str.lower leaves them alone, isdigit('½') is False
   (the run's tables confirm all three) *)
Definition w_half : str := [189].
Lemma refuted_F20h :
  let u_word := fun c => (c =? 178) || (c =? 189) in let id1 := fun c : N => [c] in let no := fun _ : N => false in
  no_foreign_word u_word w_x2 = false /\ tag_attr_name u_word id1 no no w_x2 = w_x2 /\ is_ident w_x2 = false
  /\ has_alnum w_half = false /\ no_foreign_word u_word w_half = false
  /\ module_name u_word id1 no no no w_half = w_half /\ is_ident w_half = false.
Proof. repeat split; vm_compute; reflexivity. Qed.

(* non-vacuity: an ordinary camel-case name meets every guard and is transformed non-trivially *)
Definition w_ok : str := [103;101;116;72;84;84;80;82;101;115;112;111;110;115;101;50].   (* getHTTPResponse2 *)
Lemma guards_nonvacuous :
  has_alnum w_ok = true /\ first_alnum_not_digit w_ok = true
  /\ class_name w_ok = [71;101;116;72;116;116;112;82;101;115;112;111;110;115;101;50]            (* GetHttpResponse2 *)
  /\ method_name w_ok = [103;101;116;95;104;116;116;112;95;114;101;115;112;111;110;115;101;50]  (* get_http_response2 *)
  /\ module_name_tok w_ok = [103;101;116;95;104;116;116;112;95;114;101;115;112;111;110;115;101;95;50]. (* get_http_response_2 *)
Proof. repeat split; vm_compute; reflexivity. Qed.

(* ================================================================= character-class facts *)
Lemma is_alnum_ident_char : forall c, is_alnum c = true -> is_ident_char c = true.
Proof. intros c H. unfold is_ident_char. rewrite H. reflexivity. Qed.

Lemma upper_ascii_alnum : forall c, is_alnum c = true -> is_alnum (upper_ascii c) = true.
Proof.
  intros c. unfold is_alnum, is_alpha, upper_ascii, is_upper, is_lower, is_digit.
  destruct ((97 <=? c) && (c <=? 122)) eqn:E; intro H; lia.
Qed.

Lemma lower_ascii_alnum : forall c, is_alnum c = true -> is_alnum (lower_ascii c) = true.
Proof.
  intros c. unfold is_alnum, is_alpha, lower_ascii, is_upper, is_lower, is_digit.
  destruct ((65 <=? c) && (c <=? 90)) eqn:E; intro H; lia.
Qed.

Lemma lower_ascii_ident_char : forall c, is_ident_char c = true -> is_ident_char (lower_ascii c) = true.
Proof.
  intros c. unfold is_ident_char, is_alnum, is_alpha, lower_ascii, is_upper, is_lower, is_digit.
  destruct ((65 <=? c) && (c <=? 90)) eqn:E; intro H; lia.
Qed.

Lemma ident_char_cases : forall c, is_ident_char c = true -> is_digit c = true \/ is_ident_start c = true.
Proof.
  intros c. unfold is_ident_char, is_ident_start, is_alnum. intro H.
  destruct (is_digit c); [left; reflexivity | right].
  destruct (is_alpha c); simpl in *; [reflexivity | exact H].
Qed.

Lemma forallb_app_iff : forall {A} (p : A -> bool) l1 l2,
  forallb p (l1 ++ l2) = true <-> forallb p l1 = true /\ forallb p l2 = true.
Proof. intros. rewrite forallb_app, andb_true_iff. tauto. Qed.

Lemma forallb_concat : forall {A} (p : A -> bool) (ls : list (list A)),
  (forall l, In l ls -> forallb p l = true) -> forallb p (concat ls) = true.
Proof.
  induction ls as [|l ls IH]; intro H; simpl; [reflexivity|].
  apply forallb_app_iff. split; [apply H; left; reflexivity | apply IH; intros; apply H; right; assumption].
Qed.

Lemma forallb_map_imp : forall {A} (p q : A -> bool) (f : A -> A) l,
  (forall x, p x = true -> q (f x) = true) -> forallb p l = true -> forallb q (map f l) = true.
Proof.
  induction l as [|x l IH]; intros Hf H; simpl in *; [reflexivity|].
  apply andb_true_iff in H. destruct H as [H1 H2]. apply andb_true_iff. split; auto.
Qed.

Lemma forallb_imp : forall {A} (p q : A -> bool) l,
  (forall x, p x = true -> q x = true) -> forallb p l = true -> forallb q l = true.
Proof.
  intros A p q l Hpq H. rewrite forallb_forall in *. intros x Hx. apply Hpq, H, Hx.
Qed.

(* ================================================================= span / dropwhile / strip *)
Lemma span_spec : forall p s a b, span p s = (a, b) -> s = a ++ b /\ forallb p a = true.
Proof.
  induction s as [|c s IH]; intros a b H; simpl in H.
  - inversion H; subst. split; reflexivity.
  - destruct (p c) eqn:E.
    + destruct (span p s) as [a' b'] eqn:E2. inversion H; subst.
      destruct (IH a' b eq_refl) as [H1 H2]. subst s. split; [reflexivity|]. simpl. rewrite E. exact H2.
    + inversion H; subst. split; reflexivity.
Qed.

Lemma span_head : forall p c r, p c = true -> exists a b, span p (c :: r) = (c :: a, b).
Proof. intros p c r H. simpl. rewrite H. destruct (span p r) as [a b]. eauto. Qed.

Lemma dropwhile_In : forall p s c, In c (dropwhile p s) -> In c s.
Proof.
  induction s as [|x s IH]; intros c H; simpl in *; [assumption|].
  destruct (p x); [right; apply IH; assumption | assumption].
Qed.

Lemma dropwhile_snoc : forall p l c, p c = false -> dropwhile p (l ++ [c]) = dropwhile p l ++ [c].
Proof.
  induction l as [|x l IH]; intros c H; simpl.
  - rewrite H. reflexivity.
  - destruct (p x); [apply IH; assumption | reflexivity].
Qed.

Lemma dropwhile_head : forall p s, (exists c, In c s /\ p c = false) ->
  exists c r, dropwhile p s = c :: r /\ p c = false.
Proof.
  induction s as [|x s IH]; intros [c [Hin Hp]]; simpl in *; [contradiction|].
  destruct (p x) eqn:E.
  - apply IH. destruct Hin as [->|Hin]; [congruence | eauto].
  - eauto.
Qed.

Lemma strip_us_In : forall s c, In c (strip_us s) -> In c s.
Proof.
  intros s c H. unfold strip_us in H. apply in_rev in H. apply dropwhile_In in H.
  apply in_rev in H. apply dropwhile_In in H. exact H.
Qed.

Lemma strip_us_head : forall s, (exists c, In c s /\ is_us c = false) ->
  exists c r, strip_us s = c :: r /\ is_us c = false.
Proof.
  intros s H. destruct (dropwhile_head is_us s H) as [c [r [E Hc]]].
  unfold strip_us. rewrite E. simpl rev. rewrite dropwhile_snoc by exact Hc.
  rewrite rev_app_distr. simpl. eauto.
Qed.

(* ================================================================= keyword table facts (finite, from Gen/Tables.v) *)
Definition ends_us (s : str) : bool := match rev s with 95 :: _ => true | _ => false end.
Definition ends_digit (s : str) : bool := match rev s with c :: _ => is_digit c | [] => false end.

Lemma kw_table_no_trailing_us : forallb (fun k => negb (ends_us k)) keywords = true.
Proof. vm_compute. reflexivity. Qed.
Lemma kw_table_no_trailing_digit : forallb (fun k => negb (ends_digit k)) keywords = true.
Proof. vm_compute. reflexivity. Qed.
Lemma kw_table_has_lower : forallb (fun k => existsb is_lower k) keywords = true.
Proof. vm_compute. reflexivity. Qed.
Lemma kw_table_ident : forallb is_ident keywords = true.
Proof. vm_compute. reflexivity. Qed.

Lemma is_kw_In : forall s, is_kw s = true <-> In s keywords.
Proof. intro s. apply mem_str_In. Qed.

Lemma not_kw_of_table : forall (q : str -> bool) s,
  forallb (fun k => negb (q k)) keywords = true -> q s = true -> is_kw s = false.
Proof.
  intros q s Ht Hq. destruct (is_kw s) eqn:E; [|reflexivity].
  apply is_kw_In in E. rewrite forallb_forall in Ht. specialize (Ht s E). rewrite Hq in Ht. discriminate.
Qed.

Lemma ends_us_snoc : forall s, ends_us (s ++ [95]) = true.
Proof. intro s. unfold ends_us. rewrite rev_app_distr. reflexivity. Qed.

Lemma not_kw_snoc_us : forall s, is_kw (s ++ [95]) = false.
Proof. intro s. apply (not_kw_of_table ends_us); [exact kw_table_no_trailing_us | apply ends_us_snoc]. Qed.

Lemma is_ident_snoc : forall s c, is_ident s = true -> is_ident_char c = true -> is_ident (s ++ [c]) = true.
Proof.
  intros [|x s] c H Hc; simpl in *; [discriminate|].
  apply andb_true_iff in H. destruct H as [H1 H2]. rewrite H1. simpl.
  apply forallb_app_iff. split; [assumption|]. simpl. rewrite Hc. reflexivity.
Qed.

Lemma is_ident_of_chars : forall c r,
  is_ident_start c = true -> forallb is_ident_char r = true -> is_ident (c :: r) = true.
Proof. intros c r H1 H2. simpl. rewrite H1, H2. reflexivity. Qed.

(* ================================================================= the snake-case finisher *)
(* digit prefix + keyword/reserved suffix make a valid name out of any non-empty string of identifier characters *)
Lemma finish_snake_valid : forall m,
  m <> [] -> forallb is_ident_char m = true -> valid_name (finish_snake m) = true.
Proof.
  intros m Hne Hall. unfold finish_snake, valid_name.
  set (m1 := if starts_digit m then 95 :: m else m).
  assert (Hid : is_ident m1 = true).
  { subst m1. destruct m as [|c r]; [congruence|]. simpl starts_digit.
    simpl in Hall. apply andb_true_iff in Hall. destruct Hall as [Hc Hr].
    destruct (is_digit c) eqn:Ed.
    - apply is_ident_of_chars; [reflexivity|]. simpl. rewrite Hc, Hr. reflexivity.
    - apply is_ident_of_chars; [|exact Hr].
      destruct (ident_char_cases c Hc) as [H|H]; [congruence | exact H]. }
  destruct (is_kw m1 || is_reserved m1) eqn:E.
  - rewrite is_ident_snoc by (auto). rewrite not_kw_snoc_us. reflexivity.
  - apply orb_false_iff in E. destruct E as [E _]. rewrite Hid, E. reflexivity.
Qed.

(* ================================================================= the camel-case tokeniser *)
Definition good_word (w : str) : Prop := w <> [] /\ forallb is_alnum w = true.

Lemma upper_alnum : forall c, is_upper c = true -> is_alnum c = true.
Proof. intros c H. unfold is_alnum, is_alpha. rewrite H. reflexivity. Qed.
Lemma lower_alnum : forall c, is_lower c = true -> is_alnum c = true.
Proof. intros c H. unfold is_alnum, is_alpha. rewrite H. apply orb_true_r || (destruct (is_upper c); reflexivity). Qed.
Lemma digit_alnum : forall c, is_digit c = true -> is_alnum c = true.
Proof. intros c H. unfold is_alnum. rewrite H. apply orb_true_r. Qed.

Lemma forallb_removelast : forall (p : N -> bool) l, forallb p l = true -> forallb p (removelast l) = true.
Proof.
  induction l as [|x l IH]; intro H; [reflexivity|].
  simpl in H. apply andb_true_iff in H. destruct H as [H1 H2].
  destruct l as [|y l]; [reflexivity|]. simpl removelast. simpl. rewrite H1. apply IH. exact H2.
Qed.

Lemma tokens_fuel_good : forall fuel s, Forall good_word (tokens_fuel fuel s).
Proof.
  induction fuel as [|f IH]; intro s; [constructor|].
  destruct s as [|c r]; [constructor|]. cbn [tokens_fuel].
  destruct (is_upper c) eqn:Eu.
  - destruct (span_head is_upper c r Eu) as [a [b Es]]. rewrite Es.
    destruct (span_spec _ _ _ _ Es) as [_ Hall].
    assert (Hus : good_word (c :: a)).
    { split; [discriminate|]. eapply forallb_imp; [apply upper_alnum | exact Hall]. }
    destruct b as [|l b']; [constructor; [exact Hus | constructor]|].
    destruct (is_lower l) eqn:El.
    + destruct a as [|a0 a'].
      * destruct (span is_lower (l :: b')) as [ls rest'] eqn:E2.
        destruct (span_spec _ _ _ _ E2) as [_ Hls].
        constructor; [|apply IH]. split; [discriminate|].
        simpl. rewrite (upper_alnum c Eu). simpl. eapply forallb_imp; [apply lower_alnum | exact Hls].
      * constructor; [|apply IH]. split.
        -- simpl. destruct a'; discriminate.
        -- apply forallb_removelast. exact (proj2 Hus).
    + constructor; [exact Hus | apply IH].
  - destruct (is_lower c) eqn:El.
    + destruct (span_head is_lower c r El) as [a [b Es]]. rewrite Es.
      destruct (span_spec _ _ _ _ Es) as [_ Hall].
      constructor; [|apply IH]. split; [discriminate|]. eapply forallb_imp; [apply lower_alnum | exact Hall].
    + destruct (is_digit c) eqn:Ed.
      * destruct (span_head is_digit c r Ed) as [a [b Es]]. rewrite Es.
        destruct (span_spec _ _ _ _ Es) as [_ Hall].
        constructor; [|apply IH]. split; [discriminate|]. eapply forallb_imp; [apply digit_alnum | exact Hall].
      * apply IH.
Qed.

Lemma tokens_good : forall s, Forall good_word (tokens s).
Proof. intro s. apply tokens_fuel_good. Qed.

(* a string with an ASCII letter or digit has at least one token *)
Lemma tokens_fuel_nonempty : forall fuel s,
  (length s < fuel)%nat -> has_alnum s = true -> tokens_fuel fuel s <> [].
Proof.
  induction fuel as [|f IH]; intros s Hlen Hal; [inversion Hlen|].
  destruct s as [|c r]; [discriminate|]. cbn [tokens_fuel].
  destruct (is_upper c) eqn:Eu.
  - destruct (span_head is_upper c r Eu) as [a [b Es]]. rewrite Es.
    destruct b as [|l b']; [discriminate|].
    destruct (is_lower l).
    + destruct a as [|a0 a']; [destruct (span is_lower (l :: b')); discriminate | discriminate].
    + discriminate.
  - destruct (is_lower c) eqn:El.
    + destruct (span_head is_lower c r El) as [a [b Es]]. rewrite Es. discriminate.
    + destruct (is_digit c) eqn:Ed.
      * destruct (span_head is_digit c r Ed) as [a [b Es]]. rewrite Es. discriminate.
      * apply IH; [simpl in Hlen; lia|].
        unfold has_alnum in Hal. cbn [existsb] in Hal.
        assert (Ec : is_alnum c = false) by (unfold is_alnum, is_alpha; rewrite Eu, El, Ed; reflexivity).
        rewrite Ec in Hal. exact Hal.
Qed.

Lemma tokens_nonempty : forall s, has_alnum s = true -> tokens s <> [].
Proof. intros s H. apply tokens_fuel_nonempty; [lia | exact H]. Qed.

Lemma filter_nonempty_good : forall ws, Forall good_word ws -> filter nonempty ws = ws.
Proof.
  induction ws as [|w ws IH]; intro H; [reflexivity|].
  inversion H as [|? ? [Hw _] Hr]; subst. simpl. destruct w; [congruence|]. simpl. rewrite IH by exact Hr. reflexivity.
Qed.

(* ================================================================= sanitize_class_name *)
Lemma cap_ascii_alnum : forall w, forallb is_alnum w = true -> forallb is_alnum (cap_ascii w) = true.
Proof.
  intros [|c r] H; [reflexivity|]. simpl in *. apply andb_true_iff in H. destruct H as [H1 H2].
  rewrite (upper_ascii_alnum c H1). simpl.
  eapply forallb_map_imp; [|exact H2]. intros x Hx. apply lower_ascii_alnum, Hx.
Qed.

Lemma split_go_alnum : forall s cur insep,
  forallb is_alnum cur = true ->
  forall w, In w (split_go (fun c => negb (is_alnum c)) cur insep s) -> forallb is_alnum w = true.
Proof.
  induction s as [|c s IH]; intros cur insep Hcur w Hin; simpl in Hin.
  - destruct Hin as [<-|[]]. rewrite forallb_forall in *. intros x Hx. apply Hcur. apply in_rev. exact Hx.
  - destruct (negb (is_alnum c)) eqn:E.
    + destruct insep.
      * eapply IH; eauto.
      * destruct Hin as [<-|Hin].
        -- rewrite forallb_forall in *. intros x Hx. apply Hcur. apply in_rev. exact Hx.
        -- eapply (IH [] true); eauto.
    + eapply (IH (c :: cur) false); eauto. simpl. apply negb_false_iff in E. rewrite E, Hcur. reflexivity.
Qed.

Lemma class_core_alnum : forall s, forallb is_alnum (class_core s) = true.
Proof.
  intro s. unfold class_core. apply forallb_concat. intros l Hl.
  apply in_map_iff in Hl. destruct Hl as [w [<- Hw]]. apply cap_ascii_alnum.
  apply filter_In in Hw. destruct Hw as [Hw _].
  destruct (tokens s) as [|t ts] eqn:Et.
  - apply filter_In in Hw. destruct Hw as [Hw _]. eapply split_go_alnum; [|exact Hw]. reflexivity.
  - pose proof (tokens_good s) as Hg. rewrite Et in Hg. rewrite Forall_forall in Hg. apply Hg, Hw.
Qed.

Lemma unnamed_class_ok : s_unnamed_class <> [] /\ forallb is_alnum s_unnamed_class = true.
Proof. split; [discriminate | vm_compute; reflexivity]. Qed.

Definition class_pre (s : str) : str :=
  let c0 := class_core s in
  let c1 := match c0 with [] => s_unnamed_class | _ => c0 end in
  if starts_digit c1 then 95 :: c1 else c1.

Lemma class_name_unfold : forall s,
  class_name s = let c2 := class_pre s in
                 if class_flag c2 then c2 ++ [95] else c2.
Proof. reflexivity. Qed.

Lemma class_pre_ident : forall s, is_ident (class_pre s) = true.
Proof.
  intro s. unfold class_pre.
  set (c1 := match class_core s with [] => s_unnamed_class | _ => class_core s end).
  assert (H : c1 <> [] /\ forallb is_alnum c1 = true).
  { subst c1. pose proof (class_core_alnum s) as Ha. destruct (class_core s) eqn:E.
    - exact unnamed_class_ok.
    - split; [discriminate | exact Ha]. }
  destruct H as [Hne Hal]. destruct c1 as [|c r]; [congruence|].
  simpl in Hal. apply andb_true_iff in Hal. destruct Hal as [Hc Hr].
  assert (Hr' : forallb is_ident_char r = true) by (eapply forallb_imp; [apply is_alnum_ident_char | exact Hr]).
  simpl starts_digit. destruct (is_digit c) eqn:Ed.
  - apply is_ident_of_chars; [reflexivity|]. simpl. rewrite (is_alnum_ident_char c Hc), Hr'. reflexivity.
  - apply is_ident_of_chars; [|exact Hr'].
    destruct (ident_char_cases c (is_alnum_ident_char c Hc)) as [H|H]; [congruence | exact H].
Qed.

(* every class name is an identifier — for ALL code-point strings *)
Theorem class_name_ident : forall s, is_ident (class_name s) = true.
Proof.
  intro s. rewrite class_name_unfold. cbv zeta.
  destruct (class_flag (class_pre s)).
  - apply is_ident_snoc; [apply class_pre_ident | reflexivity].
  - apply class_pre_ident.
Qed.

(* generic helpers: keep the big table terms out of rewrite/destruct (they are only passed to [exact]) *)
Lemma valid_name_intro : forall n, is_ident n = true -> (is_kw n = true -> False) -> valid_name n = true.
Proof.
  intros n H1 H2. unfold valid_name. rewrite H1. destruct (is_kw n); [exfalso; apply H2; reflexivity | reflexivity].
Qed.

(* ... and never a keyword (F20a fixed: the capitalised name itself is tested): FULL, for all code-point strings *)
Theorem class_name_valid : forall s, valid_name (class_name s) = true.
Proof.
  intro s. apply valid_name_intro; [apply class_name_ident|].
  rewrite class_name_unfold. cbv zeta.
  destruct (class_flag (class_pre s)) eqn:E.
  - intro H. rewrite not_kw_snoc_us in H. discriminate H.
  - intro H. unfold class_flag in E. rewrite H in E. discriminate E.
Qed.

(* ================================================================= sanitize_method_name *)
Lemma camel1_In : forall s c, In c s -> In c (camel1 s).
Proof.
  induction s as [|a s IH]; intros c H; [exact H|]. destruct s as [|b r]; [exact H|].
  change (camel1 (a :: b :: r)) with
    (if is_lower_or_digit a && is_upper b then a :: 95 :: camel1 (b :: r) else a :: camel1 (b :: r)).
  destruct H as [<-|H].
  - destruct (is_lower_or_digit a && is_upper b); left; reflexivity.
  - destruct (is_lower_or_digit a && is_upper b); [right; right | right]; apply IH; exact H.
Qed.

Lemma camel2_In : forall s c, In c s -> In c (camel2 s).
Proof.
  induction s as [|a s IH]; intros c H; [exact H|]. destruct s as [|b [|d r]]; try exact H.
  change (camel2 (a :: b :: d :: r)) with
    (if is_upper a && is_upper b && is_lower d then a :: 95 :: camel2 (b :: d :: r) else a :: camel2 (b :: d :: r)).
  destruct H as [<-|H].
  - destruct (is_upper a && is_upper b && is_lower d); left; reflexivity.
  - destruct (is_upper a && is_upper b && is_lower d); [right; right | right]; apply IH; exact H.
Qed.

Lemma alnum_not_us : forall c, is_alnum c = true -> is_us c = false.
Proof. intros c. unfold is_alnum, is_alpha, is_upper, is_lower, is_digit, is_us. lia. Qed.
Lemma alnum_not_brace : forall c, is_alnum c = true -> is_brace c = false.
Proof. intros c. unfold is_alnum, is_alpha, is_upper, is_lower, is_digit, is_brace. lia. Qed.

Lemma has_alnum_ex : forall s, has_alnum s = true <-> exists c, In c s /\ is_alnum c = true.
Proof. intro s. apply existsb_exists. Qed.

Lemma norm_go_In : forall s st pd c, In c (norm_go st pd s) -> In c s \/ c = 95.
Proof.
  induction s as [|x s IH]; intros st pd c H; simpl in H; [contradiction|].
  destruct (is_us x).
  - destruct (IH _ _ _ H) as [H1|H1]; [left; right; exact H1 | right; exact H1].
  - apply in_app_or in H. destruct H as [H|H].
    + destruct pd; [destruct H as [H|H]; [subst c; right; reflexivity | destruct H] | destruct H].
    + destruct H as [<-|H]; [left; left; reflexivity|].
      destruct (IH _ _ _ H) as [H1|H1]; [left; right; exact H1 | right; exact H1].
Qed.

Lemma norm_go_nonempty : forall s st pd, (exists c, In c s /\ is_us c = false) -> norm_go st pd s <> [].
Proof.
  induction s as [|x s IH]; intros st pd [c [Hin Hc]]; [destruct Hin|]. simpl.
  destruct (is_us x) eqn:E.
  - apply IH. destruct Hin as [<-|Hin]; [congruence | eauto].
  - destruct pd; discriminate.
Qed.

Lemma method_s3_chars : forall s, forallb is_ident_char (method_s3 s) = true.
Proof.
  intro s. unfold method_s3. apply forallb_forall. intros x Hx.
  apply in_map_iff in Hx. destruct Hx as [c [<- _]].
  destruct (is_ident_char c) eqn:E; [exact E | reflexivity].
Qed.

Lemma method_core_chars : forall s, forallb is_ident_char (method_core s) = true.
Proof.
  intro s. unfold method_core, norm_us. apply forallb_forall. intros x Hx.
  apply in_map_iff in Hx. destruct Hx as [c [<- Hc]]. apply lower_ascii_ident_char.
  destruct (norm_go_In _ _ _ _ Hc) as [H|H]; [|subst c; reflexivity].
  pose proof (method_s3_chars s) as Hs. rewrite forallb_forall in Hs. apply Hs, H.
Qed.

Lemma method_core_nonempty : forall s, has_alnum s = true -> method_core s <> [].
Proof.
  intros s H. apply has_alnum_ex in H. destruct H as [c [Hin Hc]].
  assert (H3 : In c (method_s3 s)).
  { unfold method_s3. apply in_map_iff. exists c. split.
    - rewrite (is_alnum_ident_char c Hc). reflexivity.
    - apply camel2_In, camel1_In. apply filter_In. split; [exact Hin|]. rewrite (alnum_not_brace c Hc). reflexivity. }
  unfold method_core, norm_us. intro E. apply map_eq_nil in E. revert E. apply norm_go_nonempty.
  exists c. split; [exact H3 | apply alnum_not_us, Hc].
Qed.

Lemma unnamed_ok : s_unnamed <> [] /\ forallb is_ident_char s_unnamed = true /\ is_ident s_unnamed = true
  /\ starts_digit s_unnamed = false.
Proof. repeat split; try discriminate; vm_compute; reflexivity. Qed.

Lemma or_unnamed_ok : forall m, forallb is_ident_char m = true ->
  or_unnamed m <> [] /\ forallb is_ident_char (or_unnamed m) = true.
Proof.
  intros [|c m] H; simpl; [split; apply unnamed_ok | split; [discriminate | exact H]].
Qed.

(* F20b fixed: FULL — every string gives a valid method / field / parameter name *)
Theorem method_name_valid : forall s, valid_name (method_name s) = true.
Proof.
  intro s. unfold method_name. destruct (or_unnamed_ok _ (method_core_chars s)) as [H1 H2].
  apply finish_snake_valid; assumption.
Qed.

(* ================================================================= sanitize_module_name *)
Lemma join_us_chars : forall (ws : list str),
  (forall w, In w ws -> forallb is_ident_char w = true) -> forallb is_ident_char (join [95] ws) = true.
Proof.
  intros [|w ws] H; [reflexivity|]. unfold join. apply forallb_app_iff. split.
  - apply H. left. reflexivity.
  - apply forallb_concat. intros l Hl. apply in_map_iff in Hl. destruct Hl as [y [<- Hy]].
    simpl. apply H. right. exact Hy.
Qed.

Lemma join_nonempty : forall sep w ws, w <> [] -> join sep (w :: ws) <> [].
Proof. intros sep [|c w] ws H; [congruence|]. discriminate. Qed.

Lemma module_of_tokens_valid : forall ws,
  Forall good_word ws -> valid_name (module_of_tokens ws) = true.
Proof.
  intros ws Hg. unfold module_of_tokens. rewrite (filter_nonempty_good ws Hg).
  assert (Hc : forallb is_ident_char (join [95] (map (map lower_ascii) ws)) = true).
  { apply join_us_chars. intros w Hw. apply in_map_iff in Hw. destruct Hw as [w0 [<- Hw0]].
    rewrite Forall_forall in Hg. destruct (Hg w0 Hw0) as [_ Hal].
    eapply forallb_map_imp; [|exact Hal]. intros x Hx. apply is_alnum_ident_char, lower_ascii_alnum, Hx. }
  destruct (or_unnamed_ok _ Hc) as [H1 H2]. apply finish_snake_valid; assumption.
Qed.

Lemma forallb_filter_id : forall {A} (p : A -> bool) l, forallb p l = true -> filter p l = l.
Proof.
  induction l as [|x l IH]; intro H; [reflexivity|]. simpl in *. apply andb_true_iff in H. destruct H as [H1 H2].
  rewrite H1, IH by exact H2. reflexivity.
Qed.

Lemma starts_upper_or_us_app : forall a b, a <> [] -> starts_upper_or_us (a ++ b) = starts_upper_or_us a.
Proof. intros [|c a] b H; [congruence | reflexivity]. Qed.

Section ModuleProofs.
  (* ANY behaviour of the Unicode database on non-ASCII code points *)
  Variables (u_word : N -> bool) (u_lower : N -> str) (u_isdigit u_ign u_cased : N -> bool).

  Lemma module_name_tok_path : forall s, tokens s <> [] ->
    module_name u_word u_lower u_isdigit u_ign u_cased s = module_name_tok s.
  Proof. intros s H. unfold module_name, module_name_tok. destruct (tokens s); [congruence | reflexivity]. Qed.

  (* with an ASCII letter or digit in the name the module name is valid, whatever the oracles *)
  Theorem module_name_valid_alnum : forall s, has_alnum s = true ->
    valid_name (module_name u_word u_lower u_isdigit u_ign u_cased s) = true.
  Proof.
    intros s H. rewrite module_name_tok_path by (apply tokens_nonempty, H).
    apply module_of_tokens_valid, tokens_good.
  Qed.
End ModuleProofs.

  (* ================================================================= enum member names *)
  Lemma member_char_ident : forall c, is_member_char c = true -> is_ident_char c = true.
  Proof. intros c. unfold is_member_char, is_ident_char, is_alnum, is_alpha, is_us. lia. Qed.
  Lemma member_char_not_lower : forall c, is_member_char c = true -> is_lower c = false.
  Proof. intros c. unfold is_member_char, is_upper, is_lower, is_digit, is_us. lia. Qed.
  Lemma member_char_upper_fix : forall c, is_member_char c = true -> upper_ascii c = c.
  Proof. intros c H. unfold upper_ascii. rewrite (member_char_not_lower c H). reflexivity. Qed.
  Lemma upper_ascii_member : forall c, is_alnum c = true -> is_member_char (upper_ascii c) = true.
  Proof.
    intros c. unfold is_member_char, upper_ascii, is_alnum, is_alpha, is_upper, is_lower, is_digit, is_us.
    destruct ((97 <=? c) && (c <=? 122)) eqn:E; lia.
  Qed.

  Definition member_str (n : str) : Prop := n <> [] /\ forallb is_member_char n = true.

  Lemma member_str_no_kw : forall n, forallb is_member_char n = true -> is_kw n = false.
  Proof.
    intros n H. destruct (is_kw n) eqn:E; [|reflexivity]. exfalso.
    apply is_kw_In in E. pose proof kw_table_has_lower as Ht. rewrite forallb_forall in Ht.
    specialize (Ht n E). apply existsb_exists in Ht. destruct Ht as [c [Hin Hc]].
    rewrite forallb_forall in H. rewrite (member_char_not_lower c (H c Hin)) in Hc. discriminate Hc.
  Qed.

  Lemma member_map_upper : forall n, forallb is_member_char n = true -> map upper_ascii n = n.
  Proof.
    induction n as [|c n IH]; intro H; [reflexivity|]. simpl in *. apply andb_true_iff in H. destruct H as [H1 H2].
    rewrite (member_char_upper_fix c H1), IH by exact H2. reflexivity.
  Qed.

  Lemma kw_suffix_upper_member : forall n1, member_str n1 -> member_str (kw_suffix_upper n1).
  Proof.
    intros n1 [Hne H1]. unfold kw_suffix_upper. destruct (is_kw (map lower_ascii n1)).
    - split; [destruct n1; discriminate | apply forallb_app_iff; split; [exact H1 | reflexivity]].
    - split; assumption.
  Qed.

  Lemma member_check_valid : forall n3, member_str n3 -> starts_upper_or_us n3 = true ->
    member_check n3 = Some n3 /\ valid_name n3 = true.
  Proof.
    intros n3 [H3ne H3] H3s.
    assert (Hid : is_ident n3 = true).
    { destruct n3 as [|c r]; [congruence|]. simpl in H3. apply andb_true_iff in H3. destruct H3 as [Hc Hr].
      apply is_ident_of_chars.
      - simpl in H3s. rewrite (member_char_upper_fix c Hc) in H3s.
        unfold is_ident_start, is_alpha. unfold is_us in H3s. destruct (is_upper c); [reflexivity|].
        simpl in *. rewrite H3s. apply orb_true_r.
      - eapply forallb_imp; [apply member_char_ident | exact Hr]. }
    split.
    - unfold member_check, member_shape. rewrite (member_map_upper n3 H3), Hid.
      destruct n3; [congruence | reflexivity].
    - unfold valid_name. rewrite Hid, (member_str_no_kw n3 H3). reflexivity.
  Qed.

  Lemma member_tail_valid : forall pre n1,
    member_str pre -> starts_upper_or_us pre = true -> member_str n1 ->
    exists n, member_tail pre n1 = Some n /\ valid_name n = true.
  Proof.
    intros pre n1 [Hpne Hp] Hps H1. unfold member_tail. cbv zeta.
    pose proof (kw_suffix_upper_member n1 H1) as H2. set (n2 := kw_suffix_upper n1) in *.
    destruct (starts_upper_or_us n2) eqn:E.
    - exists n2. apply member_check_valid; assumption.
    - exists (pre ++ n2). apply member_check_valid.
      + split; [destruct pre; [congruence | discriminate] | apply forallb_app_iff; split; [exact Hp | exact (proj2 H2)]].
      + destruct pre; [congruence | exact Hps].
  Qed.

  Lemma s_member_ok : member_str s_member_ /\ starts_upper_or_us s_member_ = true.
  Proof. split; [split; [discriminate | vm_compute; reflexivity] | vm_compute; reflexivity]. Qed.
  Lemma s_member_empty_ok : member_str s_member_empty.
  Proof. split; [discriminate | vm_compute; reflexivity]. Qed.
  Lemma s_value_ok : member_str s_value_ /\ member_str s_value_neg_ /\ member_str s_enum_member_
    /\ starts_upper_or_us s_enum_member_ = true /\ member_str s_enum_member_unknown_
    /\ starts_upper_or_us s_enum_member_unknown_ = true.
  Proof. repeat split; try discriminate; vm_compute; reflexivity. Qed.

  Lemma filter_member_str : forall l, filter is_member_char l <> [] -> member_str (filter is_member_char l).
  Proof.
    intros l H. split; [exact H|]. apply forallb_forall. intros x Hx. apply filter_In in Hx. tauto.
  Qed.

  Lemma member_str_app : forall a b, member_str a -> forallb is_member_char b = true -> member_str (a ++ b).
  Proof.
    intros a b [Ha1 Ha2] Hb. split; [destruct a; [congruence | discriminate]|].
    apply forallb_app_iff. split; assumption.
  Qed.

  Lemma dec_member : forall n, forallb is_member_char (dec n) = true.
  Proof.
    intro n. unfold dec. induction (N.to_uint n); simpl; try reflexivity; exact IHu.
  Qed.

Section EnumProofs.
  Variable u_upper : N -> str.   (* ANY behaviour of str.upper on non-ASCII code points *)

  Lemma enum_str_base_member : forall v, member_str (enum_str_base u_upper v).
  Proof.
    intro v. unfold enum_str_base. cbv zeta.
    destruct (filter is_member_char _) as [|c r] eqn:Es.
    - destruct (filter is_alnum v) as [|a al] eqn:Ea; [exact s_member_empty_ok|].
      assert (Hm : member_str (s_member_ ++ map upper_ascii (a :: al))).
      { apply member_str_app; [exact (proj1 s_member_ok)|].
        apply forallb_forall. intros x Hx. apply in_map_iff in Hx. destruct Hx as [y [<- Hy]].
        apply upper_ascii_member. rewrite <- Ea in Hy. apply filter_In in Hy. tauto. }
      destruct (starts_digit (s_member_ ++ map upper_ascii (a :: al))); [|exact Hm].
      apply member_str_app; [exact (proj1 s_member_ok) | exact (proj2 Hm)].
    - assert (Hs : member_str (c :: r)) by (rewrite <- Es; apply filter_member_str; rewrite Es; discriminate).
      destruct (starts_digit (c :: r)); [|exact Hs].
      apply member_str_app; [exact (proj1 s_member_ok) | exact (proj2 Hs)].
  Qed.

  (* total and valid for EVERY string and EVERY behaviour of str.upper on non-ASCII code points *)
  Theorem enum_member_str_valid : forall v,
    exists n, enum_member_str u_upper v = Some n /\ valid_name n = true.
  Proof.
    intro v. unfold enum_member_str.
    apply member_tail_valid; [exact (proj1 s_member_ok) | exact (proj2 s_member_ok) | apply enum_str_base_member].
  Qed.

  Lemma enum_int_base_member : forall v neg fb, member_str (enum_int_base u_upper v neg fb).
  Proof.
    intros v neg fb. unfold enum_int_base. cbv zeta.
    destruct (filter is_member_char _) as [|c r] eqn:Es.
    - destruct neg; apply member_str_app; try apply dec_member; apply s_value_ok.
    - assert (Hs : member_str (c :: r)) by (rewrite <- Es; apply filter_member_str; rewrite Es; discriminate).
      destruct (starts_upper_or_us (c :: r)); [exact Hs|].
      apply member_str_app; [apply s_value_ok | exact (proj2 Hs)].
  Qed.

  Theorem enum_member_int_valid : forall v neg fb,
    exists n, enum_member_int u_upper v neg fb = Some n /\ valid_name n = true.
  Proof.
    intros v neg fb. unfold enum_member_int, member_tail_int. cbv zeta.
    pose proof (kw_suffix_upper_member _ (enum_int_base_member v neg fb)) as H2.
    set (n2 := kw_suffix_upper _) in *.
    destruct (starts_upper_or_us n2) eqn:E.
    - exists n2. apply member_check_valid; assumption.
    - set (n := filter is_member_char (map upper_ascii (s_enum_member_ ++ n2))).
      assert (Hn : n = s_enum_member_ ++ n2).
      { subst n. rewrite member_map_upper.
        - apply forallb_filter_id. apply forallb_app_iff. split; [apply s_value_ok | exact (proj2 H2)].
        - apply forallb_app_iff. split; [apply s_value_ok | exact (proj2 H2)]. }
      rewrite Hn. exists (s_enum_member_ ++ n2).
      assert (Hne : s_enum_member_ <> []) by (vm_compute; discriminate).
      destruct (s_enum_member_ ++ n2) as [|c r] eqn:En.
      { exfalso. destruct s_enum_member_; [congruence | discriminate En]. }
      rewrite <- En. apply member_check_valid.
      + apply member_str_app; [apply s_value_ok | exact (proj2 H2)].
      + rewrite starts_upper_or_us_app by exact Hne. apply s_value_ok.
  Qed.
End EnumProofs.

(* ================================================================= shape of class names (used by the class-name de-collision) *)
(* class_pre s = c1 or "_" ++ c1 with c1 a non-empty string of ASCII letters and digits *)
Lemma class_pre_shape : forall s, exists c1, c1 <> [] /\ forallb is_alnum c1 = true
  /\ (class_pre s = c1 \/ class_pre s = 95 :: c1).
Proof.
  intro s. unfold class_pre.
  set (c1 := match class_core s with [] => s_unnamed_class | _ => class_core s end).
  assert (H : c1 <> [] /\ forallb is_alnum c1 = true).
  { subst c1. pose proof (class_core_alnum s) as Ha. destruct (class_core s) eqn:E.
    - exact unnamed_class_ok.
    - split; [discriminate | exact Ha]. }
  exists c1. destruct H as [H1 H2]. split; [exact H1 | split; [exact H2|]].
  destruct (starts_digit c1); [right | left]; reflexivity.
Qed.

Lemma class_name_cases : forall s, class_name s = class_pre s \/ class_name s = class_pre s ++ [95].
Proof.
  intro s. rewrite class_name_unfold. cbv zeta.
  destruct (class_flag (class_pre s)); [right | left]; reflexivity.
Qed.

Lemma class_name_has_alnum : forall s, has_alnum (class_name s) = true.
Proof.
  intro s. apply has_alnum_ex.
  destruct (class_pre_shape s) as [c1 [Hne [Hal Hs]]].
  destruct c1 as [|c r]; [congruence|]. simpl in Hal. apply andb_true_iff in Hal. destruct Hal as [Hc _].
  exists c. split; [|exact Hc].
  destruct (class_name_cases s) as [E|E]; rewrite E; destruct Hs as [E2|E2]; rewrite E2;
    simpl; auto.
Qed.

Lemma last_alnum_not_us : forall c1, c1 <> [] -> forallb is_alnum c1 = true -> ends_us c1 = false.
Proof.
  intros c1 Hne Hal. unfold ends_us. destruct (rev c1) as [|c r] eqn:E.
  - reflexivity.
  - assert (Hc : is_alnum c = true).
    { rewrite forallb_forall in Hal. apply Hal. apply in_rev. rewrite E. left. reflexivity. }
    apply alnum_not_us in Hc. unfold is_us in Hc. apply N.eqb_neq in Hc.
    destruct c as [|p]; [reflexivity|]. do 7 (destruct p as [p|p|]; try reflexivity). exfalso. apply Hc. reflexivity.
Qed.

Lemma class_pre_not_ends_us : forall s, ends_us (class_pre s) = false.
Proof.
  intro s. destruct (class_pre_shape s) as [c1 [Hne [Hal [E|E]]]]; rewrite E.
  - apply last_alnum_not_us; assumption.
  - pose proof (last_alnum_not_us c1 Hne Hal) as H. unfold ends_us in *. simpl.
    destruct (rev c1) as [|c r] eqn:Er.
    + apply (f_equal (@rev N)) in Er. rewrite rev_involutive in Er. simpl in Er. congruence.
    + simpl. exact H.
Qed.

(* ================================================================= sanitize_tag_attr_name (partial) *)
Section TagProofs.
  Variables (u_word : N -> bool) (u_lower : N -> str) (u_ign u_cased : N -> bool).
  Notation W := (word u_word).
  Notation pylower := (py_lower_go u_lower u_ign u_cased).

  Lemma ascii_not_sigma : forall c, is_ascii c = true -> (c =? 931) = false.
  Proof. intros c. unfold is_ascii. lia. Qed.
  Lemma ident_char_ascii : forall c, is_ident_char c = true -> is_ascii c = true.
  Proof. intros c. unfold is_ident_char, is_alnum, is_alpha, is_upper, is_lower, is_digit, is_ascii. lia. Qed.

  (* on ASCII text str.lower is the ASCII map (the sigma rule and the oracles are never consulted) *)
  Lemma py_lower_go_ascii : forall x prev, forallb is_ascii x = true -> pylower prev x = map lower_ascii x.
  Proof.
    induction x as [|c x IH]; intros prev H; [reflexivity|]. simpl in H. apply andb_true_iff in H. destruct H as [Hc Hx].
    cbn [py_lower_go map]. rewrite (ascii_not_sigma c Hc). unfold lower1. rewrite Hc. simpl. rewrite IH by exact Hx. reflexivity.
  Qed.

  Lemma guard_word_ident : forall s c, no_foreign_word u_word s = true -> In c s -> W c = true -> is_ident_char c = true.
  Proof.
    intros s c G Hin Hw. unfold no_foreign_word in G. rewrite forallb_forall in G. specialize (G c Hin).
    unfold word in *. destruct (is_ascii c); [exact Hw|]. simpl in G. rewrite Hw in G. discriminate G.
  Qed.
  Lemma alnum_word : forall c, is_alnum c = true -> W c = true.
  Proof.
    intros c H. unfold word. rewrite (ident_char_ascii c (is_alnum_ident_char c H)). apply is_alnum_ident_char, H.
  Qed.

  Lemma sub_nonword_chars : forall s b, no_foreign_word u_word s = true ->
    forallb is_ident_char (sub_nonword u_word b s) = true.
  Proof.
    induction s as [|c s IH]; intros b G; [reflexivity|].
    assert (Gs : no_foreign_word u_word s = true).
    { unfold no_foreign_word in *. simpl in G. apply andb_true_iff in G. tauto. }
    cbn [sub_nonword]. destruct (W c) eqn:Ew.
    - simpl. rewrite (guard_word_ident (c :: s) c G (or_introl eq_refl) Ew). apply IH, Gs.
    - destruct b; [apply IH, Gs | simpl; apply IH, Gs].
  Qed.

  Lemma lower_ascii_us : forall c, is_us (lower_ascii c) = is_us c.
  Proof. intro c. unfold is_us, lower_ascii, is_upper. destruct ((65 <=? c) && (c <=? 90)) eqn:E; [|reflexivity]. lia. Qed.

  (* the first non-underscore character of the attribute name is the (lower-cased) first ASCII letter/digit of the tag *)
  Lemma sub_nonword_first : forall s b, no_foreign_word u_word s = true ->
    dropwhile is_us (map lower_ascii (sub_nonword u_word b s)) =
    match dropwhile (fun c => negb (is_alnum c)) s with
    | [] => []
    | c :: r => lower_ascii c :: map lower_ascii (sub_nonword u_word false r)
    end.
  Proof.
    induction s as [|c s IH]; intros b G; [reflexivity|].
    assert (Gs : no_foreign_word u_word s = true).
    { unfold no_foreign_word in *. simpl in G. apply andb_true_iff in G. tauto. }
    cbn [sub_nonword dropwhile]. destruct (is_alnum c) eqn:Ea.
    - rewrite (alnum_word c Ea). cbn [negb map dropwhile].
      rewrite lower_ascii_us, (alnum_not_us c Ea). reflexivity.
    - cbn [negb]. destruct (W c) eqn:Ew.
      + pose proof (guard_word_ident (c :: s) c G (or_introl eq_refl) Ew) as Hic.
        assert (Hus : is_us c = true).
        { unfold is_ident_char in Hic. rewrite Ea in Hic. exact Hic. }
        cbn [map dropwhile]. rewrite lower_ascii_us, Hus. apply IH, Gs.
      + destruct b; [apply IH, Gs|]. cbn [map dropwhile]. change (is_us (lower_ascii 95)) with true. cbn iota. apply IH, Gs.
  Qed.

  Lemma strip_us_from_dropwhile : forall s c r, dropwhile is_us s = c :: r -> is_us c = false ->
    exists r', strip_us s = c :: r'.
  Proof.
    intros s c r E Hc. unfold strip_us. rewrite E. simpl rev. rewrite dropwhile_snoc by exact Hc.
    rewrite rev_app_distr. simpl. eauto.
  Qed.

  Lemma kw_suffix_valid : forall a, is_ident a = true -> valid_name (if is_kw a then a ++ [95] else a) = true.
  Proof.
    intros a H. destruct (is_kw a) eqn:E.
    - unfold valid_name. rewrite is_ident_snoc by (auto). rewrite not_kw_snoc_us. reflexivity.
    - unfold valid_name. rewrite H, E. reflexivity.
  Qed.

  (* F20b-empty and F20g fixed; F20d (digit) / F20h (foreign word characters) excluded:
     the attribute name is a valid, non-keyword identifier — no letter or digit needed any more *)
  Theorem tag_attr_name_valid_partial : forall s,
    no_foreign_word u_word s = true -> first_alnum_not_digit s = true ->
    valid_name (tag_attr_name u_word u_lower u_ign u_cased s) = true.
  Proof.
    intros s G Hd. unfold tag_attr_name. cbv zeta. apply kw_suffix_valid. unfold py_lower.
    pose proof (sub_nonword_chars s false G) as Hch.
    rewrite py_lower_go_ascii by (eapply forallb_imp; [apply ident_char_ascii | exact Hch]).
    pose proof (sub_nonword_first s false G) as Hf.
    unfold first_alnum_not_digit in Hd.
    destruct (dropwhile (fun c => negb (is_alnum c)) s) as [|c r] eqn:E.
    - (* no ASCII letter or digit: everything is stripped, the fallback name is used *)
      unfold strip_us. rewrite Hf. simpl. apply unnamed_ok.
    - assert (Hc : is_alnum c = true).
      { assert (Hin : In c (dropwhile (fun c => negb (is_alnum c)) s)) by (rewrite E; left; reflexivity).
        clear -E. revert E. induction s as [|x s IH]; simpl; [discriminate|].
        destruct (is_alnum x) eqn:Ex; simpl; [intro H; inversion H; subst; exact Ex | exact IH]. }
      simpl in Hd. apply negb_true_iff in Hd.
      destruct (strip_us_from_dropwhile _ _ _ Hf) as [r' Es].
      { rewrite lower_ascii_us. apply alnum_not_us, Hc. }
      rewrite Es. cbn [or_unnamed]. apply is_ident_of_chars.
      + assert (Hl : is_alnum (lower_ascii c) = true) by (apply lower_ascii_alnum, Hc).
        assert (Hnd : is_digit (lower_ascii c) = false).
        { revert Hd Hc. unfold lower_ascii, is_alnum, is_alpha, is_upper, is_lower, is_digit.
          destruct ((65 <=? c) && (c <=? 90)) eqn:Eu; lia. }
        destruct (ident_char_cases _ (is_alnum_ident_char _ Hl)) as [H|H]; [congruence | exact H].
      + apply forallb_forall. intros x Hx.
        assert (Hx' : In x (strip_us (map lower_ascii (sub_nonword u_word false s)))) by (rewrite Es; right; exact Hx).
        apply strip_us_In in Hx'. apply in_map_iff in Hx'. destruct Hx' as [y [<- Hy]].
        apply lower_ascii_ident_char. rewrite forallb_forall in Hch. apply Hch, Hy.
  Qed.

  (* ---------------- sanitize_module_name, fallback path (partial: F20h) ---------------- *)
  Variable u_isdigit : N -> bool.

  Lemma split_go_pieces : forall (P sep : N -> bool) s cur insep,
    (forall c, In c s -> sep c = false -> P c = true) -> forallb P cur = true ->
    forall w, In w (split_go sep cur insep s) -> forallb P w = true.
  Proof.
    induction s as [|c s IH]; intros cur insep Hs Hcur w Hin; simpl in Hin.
    - destruct Hin as [<-|[]]. rewrite forallb_forall in *. intros x Hx. apply Hcur. apply in_rev. exact Hx.
    - assert (Hs' : forall c0, In c0 s -> sep c0 = false -> P c0 = true) by (intros c0 H0; apply Hs; right; exact H0).
      destruct (sep c) eqn:E.
      + destruct insep.
        * eapply IH; eauto.
        * destruct Hin as [<-|Hin].
          -- rewrite forallb_forall in *. intros x Hx. apply Hcur. apply in_rev. exact Hx.
          -- eapply (IH [] true); eauto.
      + eapply (IH (c :: cur) false); eauto. simpl. rewrite (Hs c (or_introl eq_refl) E), Hcur. reflexivity.
  Qed.

  Lemma kw_res_suffix_valid : forall m, is_ident m = true ->
    valid_name (if is_kw m || is_reserved m then m ++ [95] else m) = true.
  Proof.
    intros m H. destruct (is_kw m || is_reserved m) eqn:E.
    - unfold valid_name. rewrite is_ident_snoc by (auto). rewrite not_kw_snoc_us. reflexivity.
    - apply orb_false_iff in E. destruct E as [E _]. unfold valid_name. rewrite H, E. reflexivity.
  Qed.

  (* F20c fixed; F20h excluded: a name with an ASCII letter or digit (no oracle consulted), or without any
     non-ASCII word character, gives a valid module name *)
  Theorem module_name_valid_partial : forall s,
    has_alnum s || no_foreign_word u_word s = true ->
    valid_name (module_name u_word u_lower u_isdigit u_ign u_cased s) = true.
  Proof.
    intros s G. unfold module_name. destruct (tokens s) as [|t ts] eqn:Et.
    2:{ rewrite <- Et. apply module_of_tokens_valid, tokens_good. }
    assert (Ha : has_alnum s = false).
    { destruct (has_alnum s) eqn:E; [|reflexivity]. exfalso. exact (tokens_nonempty s E Et). }
    rewrite Ha in G. simpl in G. cbv zeta.
    (* every surviving character is an underscore *)
    assert (Hw : forall w, In w (split_on (fun c => negb (W c)) s) -> forallb is_us w = true).
    { intros w Hin. unfold split_on in Hin. eapply split_go_pieces; [| |exact Hin]; [|reflexivity].
      intros c Hc Hsep. apply negb_false_iff in Hsep.
      pose proof (guard_word_ident s c G Hc Hsep) as Hic.
      assert (Hna : is_alnum c = false).
      { destruct (is_alnum c) eqn:Ec; [|reflexivity]. exfalso.
        unfold has_alnum in Ha. assert (existsb is_alnum s = true) by (apply existsb_exists; eauto). congruence. }
      unfold is_ident_char in Hic. rewrite Hna in Hic. exact Hic. }
    set (m := join [95] (map (py_lower u_lower u_ign u_cased) (filter nonempty (split_on (fun c => negb (W c)) s)))).
    assert (Hm : forallb is_us m = true).
    { subst m. assert (J : forall ws, (forall w, In w ws -> forallb is_us w = true) -> forallb is_us (join [95] ws) = true).
      { intros [|w ws] H; [reflexivity|]. unfold join. apply forallb_app_iff. split; [apply H; left; reflexivity|].
        apply forallb_concat. intros l Hl. apply in_map_iff in Hl. destruct Hl as [y [<- Hy]]. simpl. apply H. right. exact Hy. }
      apply J. intros w Hin. apply in_map_iff in Hin. destruct Hin as [w0 [<- Hw0]].
      apply filter_In in Hw0. destruct Hw0 as [Hw0 _]. pose proof (Hw w0 Hw0) as Hus.
      unfold py_lower. rewrite py_lower_go_ascii.
      - apply forallb_forall. intros x Hx. apply in_map_iff in Hx. destruct Hx as [y [<- Hy]].
        rewrite lower_ascii_us. rewrite forallb_forall in Hus. apply Hus, Hy.
      - eapply forallb_imp; [|exact Hus]. intros x Hx. unfold is_us in Hx. apply N.eqb_eq in Hx. subst x. reflexivity. }
    apply kw_res_suffix_valid.
    destruct m as [|c m'] eqn:Em; cbn [or_unnamed].
    - destruct unnamed_ok as [Hne [_ [Hid Hsd]]]. destruct s_unnamed as [|u us] eqn:Eu; [congruence|].
      assert (Hasc : isdigit1 u_isdigit u = false).
      { unfold isdigit1. simpl in Hid. apply andb_true_iff in Hid. destruct Hid as [Hst _].
        assert (is_ascii u = true) by (apply ident_char_ascii; unfold is_ident_start, is_ident_char, is_alnum in *;
                                        destruct (is_alpha u); simpl in *; [reflexivity | rewrite Hst; apply orb_true_r]).
        rewrite H. exact Hsd. }
      rewrite Hasc. exact Hid.
    - simpl in Hm. apply andb_true_iff in Hm. destruct Hm as [Hc Hm'].
      assert (Hd : isdigit1 u_isdigit c = false).
      { unfold is_us in Hc. apply N.eqb_eq in Hc. subst c. reflexivity. }
      rewrite Hd. apply is_ident_of_chars.
      + unfold is_us in Hc. apply N.eqb_eq in Hc. subst c. reflexivity.
      + eapply forallb_imp; [|exact Hm']. intros x Hx. unfold is_us in Hx. apply N.eqb_eq in Hx. subst x. reflexivity.
  Qed.

  (* ---------------- sanitize_tag_class_name (partial) ---------------- *)
  Variable u_title : N -> str.
  Notation nal := (fun c => negb (is_alnum c)).

  Lemma split_go_ext : forall (p q : N -> bool) s cur b, (forall c, In c s -> p c = q c) ->
    split_go p cur b s = split_go q cur b s.
  Proof.
    induction s as [|x s IH]; intros cur b H; [reflexivity|]. simpl.
    rewrite (H x (or_introl eq_refl)).
    assert (Hs : forall c, In c s -> p c = q c) by (intros c Hc; apply H; right; exact Hc).
    destruct (q x); [destruct b; [apply IH, Hs | f_equal; apply IH, Hs] | apply IH, Hs].
  Qed.

  Lemma tag_sep_is_nal : forall s c, no_foreign_word u_word s = true -> In c s ->
    (negb (W c) || is_us c) = negb (is_alnum c).
  Proof.
    intros s c G Hin. destruct (is_alnum c) eqn:Ea.
    - rewrite (alnum_word c Ea), (alnum_not_us c Ea). reflexivity.
    - destruct (W c) eqn:Ew; [|reflexivity].
      pose proof (guard_word_ident s c G Hin Ew) as Hic. unfold is_ident_char in Hic. rewrite Ea in Hic.
      simpl in *. exact Hic.
  Qed.

  Lemma py_capitalize_ascii : forall w, forallb is_alnum w = true ->
    py_capitalize u_lower u_title u_ign u_cased w = cap_ascii w.
  Proof.
    intros [|c r] H; [reflexivity|]. simpl in H. apply andb_true_iff in H. destruct H as [Hc Hr].
    unfold py_capitalize, title1. rewrite (ident_char_ascii c (is_alnum_ident_char c Hc)).
    rewrite py_lower_go_ascii; [reflexivity|].
    eapply forallb_imp; [|exact Hr]. intros x Hx. apply ident_char_ascii, is_alnum_ident_char, Hx.
  Qed.

  Definition tag_core (s : str) : str := concat (map cap_ascii (filter nonempty (split_on nal s))).

  Lemma tag_class_name_ascii : forall s, no_foreign_word u_word s = true ->
    tag_class_name u_word u_lower u_title u_ign u_cased s = tag_core s ++ s_client.
  Proof.
    intros s G. unfold tag_class_name, tag_core, split_on. f_equal.
    rewrite (split_go_ext _ nal s [] false) by (intros c Hc; apply (tag_sep_is_nal s c G Hc)).
    f_equal. apply map_ext_in. intros w Hw. apply py_capitalize_ascii.
    apply filter_In in Hw. destruct Hw as [Hw _]. eapply split_go_alnum; [|exact Hw]. reflexivity.
  Qed.

  Lemma tag_core_alnum : forall s, forallb is_alnum (tag_core s) = true.
  Proof.
    intro s. unfold tag_core. apply forallb_concat. intros l Hl.
    apply in_map_iff in Hl. destruct Hl as [w [<- Hw]]. apply cap_ascii_alnum.
    apply filter_In in Hw. destruct Hw as [Hw _]. eapply split_go_alnum; [|exact Hw]. reflexivity.
  Qed.

  Lemma upper_ascii_digit : forall c, is_digit (upper_ascii c) = is_digit c.
  Proof. intro c. unfold upper_ascii, is_lower, is_digit. destruct ((97 <=? c) && (c <=? 122)) eqn:E; [|reflexivity]. lia. Qed.

  Lemma split_first_digit : forall s cur insep,
    starts_digit (concat (map cap_ascii (filter nonempty (split_go nal cur insep s)))) =
    match rev cur with c :: _ => is_digit c | [] => starts_digit (dropwhile nal s) end.
  Proof.
    induction s as [|x s IH]; intros cur insep.
    - simpl. destruct (rev cur) as [|c r]; [reflexivity|]. simpl. apply upper_ascii_digit.
    - cbn [split_go dropwhile]. destruct (negb (is_alnum x)) eqn:Ex.
      + destruct insep; [apply IH|].
        cbn [filter]. destruct (rev cur) as [|c r] eqn:Er.
        * cbn [nonempty]. rewrite IH. reflexivity.
        * cbn [nonempty map concat cap_ascii app starts_digit]. apply upper_ascii_digit.
      + rewrite IH. cbn [rev]. destruct (rev cur) as [|c r]; reflexivity.
  Qed.

  Lemma client_ok : is_ident s_client = true /\ forallb is_ident_char s_client = true
    /\ forallb (fun k => negb (suffixb s_client k)) keywords = true.
  Proof. repeat split; vm_compute; reflexivity. Qed.

  Lemma prefixb_app : forall a b, prefixb a (a ++ b) = true.
  Proof. induction a as [|x a IH]; intro b; simpl; [reflexivity|]. rewrite N.eqb_refl. apply IH. Qed.

  (* F20d / F20h excluded: the tag class name is a valid, non-keyword identifier *)
  Theorem tag_class_name_valid_partial : forall s,
    no_foreign_word u_word s = true -> first_alnum_not_digit s = true ->
    valid_name (tag_class_name u_word u_lower u_title u_ign u_cased s) = true.
  Proof.
    intros s G Hd. rewrite tag_class_name_ascii by exact G.
    destruct client_ok as [Hci [Hcc Hck]].
    apply valid_name_intro.
    - pose proof (tag_core_alnum s) as Hal.
      pose proof (split_first_digit s [] false) as Hf. fold (split_on nal s) in Hf. fold (tag_core s) in Hf.
      simpl rev in Hf. unfold first_alnum_not_digit in Hd. apply negb_true_iff in Hd. rewrite Hd in Hf.
      destruct (tag_core s) as [|c r]; [exact Hci|].
      simpl in Hal. apply andb_true_iff in Hal. destruct Hal as [Hc Hr]. simpl in Hf.
      change ((c :: r) ++ s_client) with (c :: (r ++ s_client)). apply is_ident_of_chars.
      + destruct (ident_char_cases c (is_alnum_ident_char c Hc)) as [H|H]; [congruence | exact H].
      + apply forallb_app_iff. split; [|exact Hcc]. eapply forallb_imp; [apply is_alnum_ident_char | exact Hr].
    - intro Hk. apply is_kw_In in Hk. rewrite forallb_forall in Hck. specialize (Hck _ Hk).
      unfold suffixb in Hck. rewrite rev_app_distr, prefixb_app in Hck. discriminate Hck.
  Qed.
End TagProofs.

(* ================================================================= appending "_<digits>" to an operation id *)
Definition nonus (c : N) : bool := negb (is_us c).
Definition has_core (s : str) : bool := existsb nonus (method_s3 s).
Definition digit_pre (m : str) : str := if starts_digit m then 95 :: m else m.

Lemma norm_go_nonus_id : forall d st, forallb nonus d = true -> norm_go st false d = d.
Proof.
  induction d as [|c d IH]; intros st H; [reflexivity|]. simpl in H. apply andb_true_iff in H. destruct H as [Hc Hd].
  simpl. unfold nonus in Hc. apply negb_true_iff in Hc. rewrite Hc. simpl. rewrite IH by exact Hd. reflexivity.
Qed.

Lemma norm_go_nonus_block : forall d st pd, forallb nonus d = true -> d <> [] ->
  norm_go st pd d = (if pd then [95] else []) ++ d.
Proof.
  intros [|c d] st pd H Hne; [congruence|]. simpl in H. apply andb_true_iff in H. destruct H as [Hc Hd].
  simpl. unfold nonus in Hc. apply negb_true_iff in Hc. rewrite Hc. rewrite norm_go_nonus_id by exact Hd.
  destruct pd; reflexivity.
Qed.

Lemma norm_go_app_us : forall z st pd d, forallb nonus d = true -> d <> [] ->
  norm_go st pd (z ++ 95 :: d) = norm_go st pd z ++ (if st || existsb nonus z then 95 :: d else d).
Proof.
  induction z as [|c z IH]; intros st pd d Hd Hne.
  - simpl. rewrite norm_go_nonus_block by assumption. rewrite orb_false_r. destruct st; reflexivity.
  - simpl. destruct (is_us c) eqn:E.
    + rewrite IH by assumption. unfold nonus at 2. rewrite E. reflexivity.
    + rewrite IH by assumption. unfold nonus at 2. rewrite E. simpl. rewrite orb_true_r.
      rewrite <- app_assoc. reflexivity.
Qed.

Lemma norm_go_all_us : forall z st pd, existsb nonus z = false -> norm_go st pd z = [].
Proof.
  induction z as [|c z IH]; intros st pd H; [reflexivity|]. simpl in *. apply orb_false_iff in H. destruct H as [Hc Hz].
  unfold nonus in Hc. apply negb_false_iff in Hc. rewrite Hc. apply IH, Hz.
Qed.

Lemma camel1_cons2 : forall a b r, camel1 (a :: b :: r) =
  if is_lower_or_digit a && is_upper b then a :: 95 :: camel1 (b :: r) else a :: camel1 (b :: r).
Proof. reflexivity. Qed.
Lemma camel2_cons3 : forall a b c r, camel2 (a :: b :: c :: r) =
  if is_upper a && is_upper b && is_lower c then a :: 95 :: camel2 (b :: c :: r) else a :: camel2 (b :: c :: r).
Proof. reflexivity. Qed.

Definition noupper (c : N) : bool := negb (is_upper c).

Lemma camel1_fix : forall y, forallb noupper y = true -> camel1 y = y.
Proof.
  induction y as [|a y IH]; intro H; [reflexivity|]. destruct y as [|b r]; [reflexivity|].
  rewrite camel1_cons2. simpl in H. apply andb_true_iff in H. destruct H as [_ H].
  assert (Hb : is_upper b = false) by (simpl in H; apply andb_true_iff in H; destruct H as [H _]; apply negb_true_iff, H).
  rewrite Hb, andb_false_r. rewrite IH by exact H. reflexivity.
Qed.

Lemma camel2_fix : forall y, forallb noupper y = true -> camel2 y = y.
Proof.
  induction y as [|a y IH]; intro H; [reflexivity|]. destruct y as [|b [|c r]]; try reflexivity.
  rewrite camel2_cons3. simpl in H. apply andb_true_iff in H. destruct H as [Ha H].
  apply negb_true_iff in Ha. rewrite Ha. cbn [andb]. rewrite IH by exact H. reflexivity.
Qed.

Lemma camel1_app : forall x c y, is_upper c = false -> camel1 (c :: y) = c :: y ->
  camel1 (x ++ c :: y) = camel1 x ++ c :: y.
Proof.
  induction x as [|a x IH]; intros c y Hc Hy; [exact Hy|].
  destruct x as [|b r].
  - simpl app. rewrite camel1_cons2, Hc, andb_false_r, Hy. reflexivity.
  - change ((a :: b :: r) ++ c :: y) with (a :: b :: (r ++ c :: y)). rewrite !camel1_cons2.
    change (b :: r ++ c :: y) with ((b :: r) ++ c :: y). rewrite IH by assumption.
    destruct (is_lower_or_digit a && is_upper b); reflexivity.
Qed.

Lemma camel2_app : forall x c y, is_upper c = false -> is_lower c = false -> camel2 (c :: y) = c :: y ->
  camel2 (x ++ c :: y) = camel2 x ++ c :: y.
Proof.
  induction x as [|a x IH]; intros c y Hu Hl Hy; [exact Hy|].
  destruct x as [|b [|d r]].
  - simpl app. destruct y as [|y1 y']; [reflexivity|].
    rewrite camel2_cons3, Hu, andb_false_r. cbn [andb]. rewrite Hy. reflexivity.
  - change ([a; b] ++ c :: y) with (a :: b :: c :: y). rewrite camel2_cons3, Hl, andb_false_r.
    change (b :: c :: y) with ([b] ++ c :: y). rewrite IH by assumption. reflexivity.
  - change ((a :: b :: d :: r) ++ c :: y) with (a :: b :: d :: (r ++ c :: y)). rewrite !camel2_cons3.
    change (b :: d :: r ++ c :: y) with ((b :: d :: r) ++ c :: y). rewrite IH by assumption.
    destruct (is_upper a && is_upper b && is_lower d); reflexivity.
Qed.

Lemma digit_facts : forall c, is_digit c = true ->
  is_upper c = false /\ is_lower c = false /\ is_brace c = false /\ is_us c = false /\ is_ident_char c = true /\ lower_ascii c = c.
Proof.
  intros c. unfold is_digit, is_upper, is_lower, is_brace, is_us, is_ident_char, is_alnum, is_alpha, is_digit, lower_ascii, is_upper.
  intro H. destruct ((65 <=? c) && (c <=? 90)) eqn:E; repeat split; lia.
Qed.

Lemma method_s3_app : forall s d, forallb is_digit d = true -> method_s3 (s ++ 95 :: d) = method_s3 s ++ 95 :: d.
Proof.
  intros s d Hd. unfold method_s3.
  assert (Hf : forall (q : N -> bool), (forall c, is_digit c = true -> q c = true) -> forallb q d = true).
  { intros q Hq. eapply forallb_imp; [|exact Hd]. exact Hq. }
  assert (Hnu : forallb noupper (95 :: d) = true).
  { simpl. apply Hf. intros c Hc. unfold noupper. destruct (digit_facts c Hc) as [H _]. rewrite H. reflexivity. }
  rewrite filter_app.
  replace (filter (fun c => negb (is_brace c)) (95 :: d)) with (95 :: d).
  2:{ symmetry. apply forallb_filter_id. simpl. apply Hf. intros c Hc.
      destruct (digit_facts c Hc) as [_ [_ [H _]]]. rewrite H. reflexivity. }
  rewrite camel1_app; [|reflexivity | apply camel1_fix, Hnu].
  rewrite camel2_app; [|reflexivity | reflexivity | apply camel2_fix, Hnu].
  rewrite map_app. f_equal. simpl. f_equal.
  clear -Hd. induction d as [|c d IH]; [reflexivity|]. simpl in *. apply andb_true_iff in Hd. destruct Hd as [Hc Hd].
  destruct (digit_facts c Hc) as [_ [_ [_ [_ [H _]]]]]. rewrite H, IH by exact Hd. reflexivity.
Qed.

Lemma map_lower_digits : forall d, forallb is_digit d = true -> map lower_ascii d = d.
Proof.
  induction d as [|c d IH]; intro H; [reflexivity|]. simpl in *. apply andb_true_iff in H. destruct H as [Hc Hd].
  destruct (digit_facts c Hc) as [_ [_ [_ [_ [_ H]]]]]. rewrite H, IH by exact Hd. reflexivity.
Qed.

Lemma method_core_app : forall s d, forallb is_digit d = true -> d <> [] ->
  method_core (s ++ 95 :: d) = method_core s ++ (if has_core s then 95 :: d else d).
Proof.
  intros s d Hd Hne. unfold method_core, norm_us. rewrite method_s3_app by exact Hd.
  rewrite norm_go_app_us; [|eapply forallb_imp; [|exact Hd]; intros c Hc; unfold nonus;
                            destruct (digit_facts c Hc) as [_ [_ [_ [H _]]]]; rewrite H; reflexivity | exact Hne].
  rewrite map_app. simpl orb. fold (has_core s). f_equal.
  destruct (has_core s); simpl; rewrite map_lower_digits by exact Hd; reflexivity.
Qed.

Lemma method_core_no_core : forall s, has_core s = false -> method_core s = [].
Proof. intros s H. unfold method_core, norm_us. rewrite norm_go_all_us by exact H. reflexivity. Qed.

Lemma method_core_has_core : forall s, has_core s = true -> method_core s <> [].
Proof.
  intros s H. unfold has_core in H. apply existsb_exists in H. destruct H as [c [Hin Hc]].
  unfold method_core, norm_us. intro E. apply map_eq_nil in E. revert E. apply norm_go_nonempty.
  exists c. split; [exact Hin | apply negb_true_iff, Hc].
Qed.

(* ================================================================= is_valid_python_identifier (F20i fixed) *)
Theorem is_valid_python_identifier_spec : forall s, is_valid_python_identifier s = valid_name s.
Proof.
  intro s. unfold is_valid_python_identifier, valid_name. destruct s as [|c r]; [reflexivity|].
  cbn [nonempty andb]. destruct (is_ident (c :: r)); destruct (is_kw (c :: r)); reflexivity.
Qed.

(* ================================================================= clean_auto_generated_operation_id *)
Section CleanProofs.
  Variables (u_lower : N -> str) (u_ign u_cased : N -> bool).

  Lemma prefixb_firstn : forall n (s : str), prefixb (firstn n s) s = true.
  Proof.
    induction n as [|n IH]; intros [|c s]; simpl; try reflexivity. rewrite N.eqb_refl. apply IH.
  Qed.

  (* the cleaned id is the id itself or a non-empty prefix of it — for every id, method and path, any Unicode oracle *)
  Theorem clean_op_id_prefix : forall op_id method path,
    let r := clean_op_id u_lower u_ign u_cased op_id method path in
    r = op_id \/ (r <> [] /\ prefixb r op_id = true).
  Proof.
    intros op_id method path. cbv zeta. unfold clean_op_id.
    destruct (negb (suffixb _ (py_lower u_lower u_ign u_cased op_id))); [left; reflexivity|].
    destruct (norm_path path) as [|c np]; [left; reflexivity|].
    destruct (suffixb _ _); [|left; reflexivity].
    destruct (drop_last _ (drop_last _ op_id)) as [|x pre] eqn:E; [left; reflexivity|].
    right. split; [discriminate|]. rewrite <- E. unfold drop_last.
    set (w := firstn _ op_id).
    assert (P : forall a b c : str, prefixb a b = true -> prefixb b c = true -> prefixb a c = true).
    { induction a as [|x0 a IH]; intros [|y b] [|z c0]; simpl; try reflexivity; try discriminate.
      intros H1 H2. apply andb_true_iff in H1, H2. destruct H1 as [H1 H1'], H2 as [H2 H2'].
      apply N.eqb_eq in H1, H2. subst. rewrite N.eqb_refl. simpl. eapply IH; eauto. }
    apply (P _ w); [apply prefixb_firstn | subst w; apply prefixb_firstn].
  Qed.

  (* hence (with method_name_valid) every operation gets a valid method name under the CLEAN naming strategy too *)
  Theorem clean_op_id_method_valid : forall op_id method path,
    valid_name (method_name (clean_op_id u_lower u_ign u_cased op_id method path)) = true.
  Proof. intros. apply method_name_valid. Qed.
End CleanProofs.

Definition w_fastapi : str := [99;114;101;97;116;101;95;100;101;116;97;105;108;115;95;100;101;116;97;105;108;115;95;112;111;115;116].
Lemma clean_op_id_example : forall u_lower u_ign u_cased,
  clean_op_id u_lower u_ign u_cased w_fastapi [80;79;83;84] [47;100;101;116;97;105;108;115]
  = [99;114;101;97;116;101;95;100;101;116;97;105;108;115].      (* create_details_details_post, POST, /details -> create_details *)
Proof. intros. vm_compute. reflexivity. Qed.

(* ================================================================= _to_module_name vs sanitize_module_name *)
(* to_module_name_agrees : forall s, ASCII identifier s -> to_module_name_ascii s = module_name_tok s   is FALSE:
   the second snake-caser (used as a fall-back for discriminator imports) does not split digits from letters and
   has no keyword / reserved-name suffix.  Agreement on letters-only, non-reserved names is NOT proved (two
   fuel-based scanners with different strides); it is tested on every run (oracle in harness/prop_C20.py). *)
Definition w_UserV2 : str := [85;115;101;114;86;50].
Definition w_List : str := [76;105;115;116].
Lemma refuted_to_module_name_agrees :
  is_ident w_UserV2 = true /\ to_module_name_ascii w_UserV2 <> module_name_tok w_UserV2
  /\ is_ident w_List = true /\ to_module_name_ascii w_List <> module_name_tok w_List.
Proof. repeat split; vm_compute; try reflexivity; discriminate. Qed.
