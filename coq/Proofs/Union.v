(* C14 — proofs about Model/Union.v *)
From PG Require Import Lib.Strs Model.Union.
From Coq Require Import ZArith.

(* the property for one (type, payload): decoding succeeds and the re-encoding carries the payload *)
Definition lossless (t : ty) (j : json) : Prop :=
  exists v, structure t j = Ok v /\ approx (unstructure v) j = true.

(* ---------------- witnesses ---------------- *)
Definition k_x : str := [120]. Definition k_y : str := [121]. Definition k_z : str := [122]. Definition k_t : str := [116].
Definition k_q : str := [113].
Definition tA := TObj [65] [(k_x, (TInt, true))].
Definition tB := TObj [66] [(k_x, (TInt, true)); (k_y, (TInt, true))].

(* F14a: [A{x}; B{x,y}] with {x:1,y:2} is decoded as A(x=1): key y is discarded *)
Definition u_F14a := TUnion None [tA; tB].
Definition j_F14a := JObj [(k_x, JInt 1%Z); (k_y, JInt 2%Z)].
Lemma refuted_F14a :
  conforms tB j_F14a = true /\ safe u_F14a j_F14a = false /\
  structure u_F14a j_F14a = Ok (VObj [65] [(k_x, VInt 1%Z)]) /\ ~ lossless u_F14a j_F14a.
Proof.
  repeat split; try (vm_compute; reflexivity).
  intros [v [H1 H2]]. vm_compute in H1. inversion H1; subst. vm_compute in H2. discriminate.
Qed.
